"""Kani back end: harnesses and function contracts in /verif/kani compiled against /repo itself."""
import os
import re
import shutil
import subprocess
import time

HERE = os.path.dirname(os.path.abspath(__file__))
VERIF = os.path.dirname(HERE)
KROOT = os.path.join(VERIF, 'kani')
REPO = os.environ.get('VEKVERIF_REPO', '/repo')
WORK = os.environ.get('VEKVERIF_WORK', '/tmp/vekverif')
CMD_DOC = ('cargo kani -Z function-contracts -Z stubbing -Z unstable-options --harness-timeout <t> -j 8 '
           '--output-format terse --harness <each>   (crate /verif/kani, vek = { path = "/repo" })')


def _env():
    return dict(os.environ, CARGO_NET_OFFLINE='true',
                CARGO_TARGET_DIR=os.environ.get('VEKVERIF_KANI_TARGET', os.path.join(WORK, 'kani_target_' + _CRATE[0])))


_CRATE = ['x']


def load_specs(crate):
    import json
    specs = json.load(open(os.path.join(KROOT, crate, 'harnesses.json')))
    for s in specs:
        s['crate'] = crate
    return specs


def _prepare(KDIR):
    lock = os.path.join(REPO, 'Cargo.lock')
    dst = os.path.join(KDIR, 'Cargo.lock')
    if os.path.exists(lock) and not os.path.exists(dst):
        shutil.copy(lock, dst)


def parse(out):
    """-> {harness: dict(status, failed_checks, checks, text)}.  Works for sequential and `-j` (Thread N:) output."""
    res = {}
    cur = {}          # thread id -> harness
    last_thread = '0'
    blocks = {}       # harness -> list of lines
    for line in out.split('\n'):
        m = re.match(r'(?:Thread (\d+): )?Checking harness (\S+?)\.\.\.', line)
        if m:
            t = m.group(1) or '0'
            name = m.group(2).split('::')[-1]
            cur[t] = name
            blocks.setdefault(name, [])
            last_thread = t
            continue
        m = re.match(r'Thread (\d+): ?(.*)$', line)
        if m:
            last_thread = m.group(1)
            line = m.group(2)
        h = cur.get(last_thread)
        if h is not None:
            blocks[h].append(line)
    failed_final = set(x.split('::')[-1] for x in re.findall(r'Verification failed for - (\S+)', out))
    complete = re.search(r'Complete - (\d+) successfully verified harnesses, (\d+) failures, (\d+) total', out) is not None \
        or re.search(r'(\d+) successfully verified harnesses', out) is not None
    for name, lines in blocks.items():
        b = '\n'.join(lines)
        st = None
        if 'VERIFICATION:- SUCCESSFUL' in b:
            st = 'ok'
        elif 'VERIFICATION:- FAILED' in b:
            st = 'failed'
        if 'CBMC timed out' in b or 'timed out' in b.lower():
            st = 'timeout'
        if complete:
            if name in failed_final and st != 'timeout':
                st = 'failed'
            elif name not in failed_final and st is None:
                st = 'ok'
        failed = re.findall(r'Failed Checks: (.*)', b)
        mm = re.search(r'\*\* (\d+) of (\d+) failed', b)
        checks = int(mm.group(2)) if mm else None
        unwind = any('unwinding assertion' in f for f in failed)
        unsupported = any('is not currently supported by Kani' in f for f in failed)
        res[name] = dict(status=st, failed_checks=failed[:12], checks=checks, unwind=unwind, unsupported=unsupported,
                         text=b[-3500:])
    return res


def run(specs, workdir, tier):
    """specs: list of dict(harness=name, timeout=s (optional), tier='quick'|'thorough', expect_fail=bool)"""
    KDIR = os.path.join(KROOT, specs[0]['crate'])
    _CRATE[0] = specs[0]['crate']
    _prepare(KDIR)
    specs = [s for s in specs if tier == 'thorough' or s.get('tier', 'quick') == 'quick']
    if not specs:
        return []
    tmo = max(s.get('timeout', 300) for s in specs)
    cmd = ['cargo', 'kani', '-Z', 'function-contracts', '-Z', 'stubbing', '-Z', 'unstable-options',
           '--harness-timeout', '%ds' % tmo, '-j', '8', '--output-format', 'terse', '--exact']
    for s in specs:
        cmd += ['--harness', s.get('path', s.get('qualified', s['harness']))]
    t0 = time.time()
    p = subprocess.run(cmd, cwd=KDIR, env=_env(), capture_output=True, text=True)
    dt = time.time() - t0
    out = p.stdout + '\n' + p.stderr
    with open(os.path.join(workdir, 'kani_%s.log' % specs[0]['crate']), 'w') as f:
        f.write(out)
    parsed = parse(out)
    results = []
    compile_failed = ('error: could not compile' in out) or ('error[E' in out and not parsed)
    for s in specs:
        h = s['harness']
        r = parsed.get(h)
        if r is None:
            status = 'compile-error' if compile_failed else 'not-run'
            results.append(dict(harness=h, status=status, time=dt / len(specs), output=out[-3000:], checks=None))
            continue
        st = r['status']
        if st == 'failed' and (r['unwind'] or r['unsupported']) and all(
                ('unwinding assertion' in f or 'not currently supported' in f) for f in r['failed_checks']):
            st = 'undecided-unwind-or-unsupported'
        if s.get('should_fail'):
            # vacuity / reachability twin: must FAIL
            st = 'ok' if st == 'failed' else ('vacuous: expected failure did not occur' if st == 'ok' else st)
        res = dict(harness=h, status=st or 'unknown', time=dt / len(specs), output=r['text'], checks=r['checks'],
                   failed_checks=r['failed_checks'])
        results.append(res)
    # concrete playback for real failures
    # (at most VEKVERIF_MAX_PLAYBACK of them, default 2: every failed harness is still reported, the counterexample of the
    # others can be obtained with `./check <ID> --replay <file>`)
    budget = int(os.environ.get('VEKVERIF_MAX_PLAYBACK', '2'))
    for res, s in zip(results, specs):
        if res['status'] == 'failed' and not s.get('should_fail') and not s.get('known_failing') and budget > 0:
            res['concrete'] = playback(s, KDIR)
            budget -= 1
    return results


def playback(s, KDIR):
    cmd = ['cargo', 'kani', '-Z', 'function-contracts', '-Z', 'stubbing', '-Z', 'concrete-playback',
           '--concrete-playback=print', '--exact', '--harness', s.get('path', s.get('qualified', s['harness'])), '--output-format', 'terse']
    try:
        p = subprocess.run(cmd, cwd=KDIR, env=_env(), capture_output=True, text=True, timeout=600)
    except subprocess.TimeoutExpired:
        return None
    out = p.stdout
    m = re.search(r'Concrete playback unit test for `[^`]*`:\s*```(.*?)```', out, re.S)
    if m:
        return m.group(1).strip()[:4000]
    m = re.search(r'(#\[test\]\s*fn kani_concrete_playback.*?\n\})', out, re.S)
    return m.group(1)[:4000] if m else None
