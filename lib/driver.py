"""Driver: /repo working tree -> expansion -> units -> Verus / z3-nlsat / Kani -> evidence, exit code."""
import hashlib
import json
import os
import pickle
import re
import shutil
import subprocess
import sys
import time
from concurrent.futures import ThreadPoolExecutor

HERE = os.path.dirname(os.path.abspath(__file__))
VERIF = os.path.dirname(HERE)
REPO = os.environ.get('VEKVERIF_REPO', '/repo')
WORK = os.environ.get('VEKVERIF_WORK', '/tmp/vekverif')
sys.path.insert(0, HERE)
sys.setrecursionlimit(100000)

import extract  # noqa: E402
import prelude  # noqa: E402
import lemma as L  # noqa: E402

FEATURES_TYPES = 'libm vec8 vec16 vec32 vec64 rgb rgba uv uvw'
VERUS_FLAGS = ['--smt-option', 'smt.arith.nl=true', '--multiple-errors', '8']

EXTRACTION_DROPS = [
    "D1 doc comments and attributes dropped; derived Copy/Clone re-declared as stand-ins (Clone external_body, ensures r == *self)",
    "D2 named return value + requires/ensures/invariant/decreases clauses + ghost proof blocks inserted; nothing executable added",
    "D3 mode R: element type parameter T removed from generic lists, where-predicates on T deleted, token T replaced by the ghost-real scalar R",
    "N1 `mut self` / `mut x` by-value parameters rewritten to a shadowing `let mut`",
    "N2 expansions of assert!/debug_assert! rewritten to Verus assert(..) (condition also stated as requires)",
    "N3 `use num_traits::..` / `use approx::..` dropped; names resolve to the prelude's stand-in traits (crate::pre)",
    "T1 unsafe bodies (as_slice, as_mut_slice, array/slice conversions) replaced by external_body with an assumed contract (listed under assumed_contracts)",
]


class Undecided(Exception):
    pass


def log(*a):
    print(*a, file=sys.stderr, flush=True)


def tree_hash():
    h = hashlib.sha256()
    files = []
    for root, _d, fs in os.walk(os.path.join(REPO, 'src')):
        for f in fs:
            files.append(os.path.join(root, f))
    for f in ('Cargo.toml', 'build.rs', 'Cargo.lock'):
        files.append(os.path.join(REPO, f))
    for f in sorted(files):
        if os.path.exists(f):
            h.update(f.encode())
            h.update(open(f, 'rb').read())
    for f in sorted(os.listdir(HERE)):
        if f in ('xparse.py',):
            h.update(open(os.path.join(HERE, f), 'rb').read())
    return h.hexdigest()[:20]


def _lock(path):
    import fcntl
    os.makedirs(os.path.dirname(path), exist_ok=True)
    f = open(path, 'w')
    fcntl.flock(f, fcntl.LOCK_EX)
    return f


def expansion(features=FEATURES_TYPES, tag='types'):
    """macro-expanded crate text for /repo's current working tree (cached by tree hash)"""
    hsh = tree_hash()
    cdir = os.path.join(WORK, 'cache')
    os.makedirs(cdir, exist_ok=True)
    out = os.path.join(cdir, 'expanded_%s_%s.rs' % (tag, hsh))
    lk = _lock(os.path.join(WORK, 'expand.lock'))
    try:
        if os.path.exists(out) and os.path.getsize(out) > 100000:
            return out, hsh, 0.0, True
        # evict old cache entries
        for f in os.listdir(cdir):
            if hsh not in f:
                try:
                    os.remove(os.path.join(cdir, f))
                except OSError:
                    pass
        t0 = time.time()
        env = dict(os.environ, RUSTC_BOOTSTRAP='1', CARGO_TARGET_DIR=os.path.join(WORK, 'target'),
                   CARGO_NET_OFFLINE='true')
        cmd = ['cargo', 'rustc', '--offline', '--lib', '--profile', 'check', '--no-default-features',
               '--features', features, '--', '-Zunpretty=expanded']
        p = subprocess.run(cmd, cwd=REPO, env=env, capture_output=True, text=True)
        if p.returncode != 0 or len(p.stdout) < 100000:
            raise Undecided('expansion-failed: /repo does not compile with features [%s]:\n%s'
                            % (features, p.stderr[-3000:]))
        tmp = out + '.tmp%d' % os.getpid()
        with open(tmp, 'w') as f:
            f.write(p.stdout)
        os.replace(tmp, out)
        return out, hsh, time.time() - t0, False
    finally:
        lk.close()


def load_expansion():
    path, hsh, dt, cached = expansion()
    pk = path + '.pickle'
    if os.path.exists(pk):
        try:
            with open(pk, 'rb') as f:
                exp = pickle.load(f)
            return exp, dict(path=path, tree_hash=hsh, expand_s=dt, cached=cached)
        except Exception:
            pass
    exp = extract.Expansion(path)
    try:
        tmp = pk + '.tmp%d' % os.getpid()
        with open(tmp, 'wb') as f:
            pickle.dump(exp, f, protocol=4)
        os.replace(tmp, pk)
    except Exception as e:  # cache only
        log('pickle failed', e)
    return exp, dict(path=path, tree_hash=hsh, expand_s=dt, cached=cached)


# ------------------------------------------------------------------------------------------ Verus
ERR_KINDS = [
    ('postcondition not satisfied', 'postcondition'),
    ('unable to prove post-condition of closure', 'closure-postcondition'),
    ('unable to prove pre-condition of closure', 'closure-precondition'),
    ('invariant not satisfied', 'invariant'),
    ('assertion failed', 'assertion'),
    ('precondition not satisfied', 'precondition'),
    ('possible arithmetic underflow/overflow', 'overflow'),
    ('possible division by zero', 'divzero'),
    ('decreases not satisfied', 'decreases'),
    ('index out of bounds', 'bounds'),
    ('unreachable', 'unreachable'),
]


def parse_verus_stderr(err, lines):
    """-> (failures, undecided_msgs).  failures: dict(kind, line, tag, fn, msg)"""
    fails, und = [], []
    blocks = re.split(r'\n(?=error(?:\[E\d+\])?:|warning:|note:)', '\n' + err)
    for b in blocks:
        b = b.strip('\n')
        if not b.startswith('error'):
            continue
        first = b.split('\n')[0]
        if first.startswith('error: aborting due to'):
            continue
        m = re.search(r'-->\s+\S+?:(\d+):(\d+)', b)
        ln = int(m.group(1)) if m else None
        kind = None
        for pat, k in ERR_KINDS:
            if pat in first:
                kind = k
                break
        if kind is None:
            if 'rlimit' in first or 'Resource limit' in first or 'resource limit' in first:
                # a reachability twin that exhausts the resource limit while trying to prove `false` has not proved it:
                # that is the required outcome of the twin ("fails as required"), not an undecided obligation
                rt = None
                if ln and ln - 1 < len(lines):
                    for k in range(ln - 1, min(ln + 400, len(lines))):
                        t = re.search(r'// @probe (reach:\S+)', lines[k])
                        if t:
                            rt = t.group(1)
                            break
                        if k > ln and lines[k].startswith('// @fn '):
                            break
                    hdr = lines[ln - 1]
                    if rt and '__reach' not in hdr and '__reach' not in (lines[ln] if ln < len(lines) else ''):
                        rt = None
                if rt:
                    fails.append(dict(kind='rlimit-on-reach-probe', line=ln, tag=rt, fn=None, msg=first))
                else:
                    und.append(('rlimit', first, ln))
            else:
                und.append(('unsupported-or-type-error', b[:1500], ln))
            continue
        # the span that names the failed clause: for postconditions the primary line is the clause
        tag, fn = None, None
        cand_lines = [ln] if ln else []
        for mm in re.finditer(r'^\s*(\d+)\s*\|', b, re.M):
            cand_lines.append(int(mm.group(1)))
        for cl in cand_lines:
            if cl and cl - 1 < len(lines):
                t = re.search(r'// @(obl|inv|thm|probe) (\S+)', lines[cl - 1])
                if t:
                    tag = t.group(2)
                    break
        # the enclosing function: look upwards from the last span that lies inside the unit's own text
        # (for contracts that come from a vstd spec trait the primary span points into the prelude)
        own = [c for c in cand_lines if c and c <= len(lines)]
        fn_cands = []
        for cl in own:
            for k in range(cl - 1, -1, -1):
                t = re.search(r'// @fn (\S.*)$', lines[k])
                if t:
                    fn_cands.append((k, t.group(1).strip()))
                    break
        if fn_cands:
            fn = max(fn_cands)[1]
        if tag and tag.startswith('loop') and fn:
            tag = '%s/%s' % (fn, tag)
        fails.append(dict(kind=kind, line=ln, tag=tag or ('%s/%s@%s' % (fn, kind, ln)), fn=fn, msg=b[:2500]))
    return fails, und


def run_verus(name, text, workdir, threads=8, rlimit=None):
    path = os.path.join(workdir, name + '.rs')
    with open(path, 'w') as f:
        f.write(text)
    cmd = ['verus', path] + VERUS_FLAGS + ['--num-threads', str(threads), '--output-json', '--time']
    if rlimit:
        cmd += ['--rlimit', str(rlimit)]
    zs = os.environ.get('VEKVERIF_Z3_SEED')      # stability sweeps only (tools/sweep.sh); registered commands never set it
    if zs:
        cmd += ['--smt-option', 'smt.random_seed=' + zs, '--smt-option', 'sat.random_seed=' + zs]
    t0 = time.time()
    tmo = int(os.environ.get('VEKVERIF_VERUS_TIMEOUT', '1500'))
    try:
        pr = subprocess.Popen(cmd, stdout=subprocess.PIPE, stderr=subprocess.PIPE, text=True, cwd=workdir,
                              start_new_session=True, env=dict(os.environ, RUST_MIN_STACK='1073741824'))
        out, err = pr.communicate(timeout=tmo)
        rc = pr.returncode
    except subprocess.TimeoutExpired:
        import signal
        try:
            os.killpg(pr.pid, signal.SIGKILL)
        except Exception:
            pass
        out, err = pr.communicate()
        rc = -9
        err = (err or '') + '\nerror: verus exceeded the wall-clock limit of %d s (rlimit)\n' % tmo

    class _P:
        pass
    p = _P()
    p.stdout, p.stderr, p.returncode = out, err, rc
    dt = time.time() - t0
    res = {}
    try:
        res = json.loads(p.stdout)
    except Exception:
        pass
    vr = res.get('verification-results', {})
    lines = text.split('\n')
    fails, und = parse_verus_stderr(p.stderr, lines)
    smt = None
    try:
        smt = res['times-ms']['smt']['total'] / 1000.0
    except Exception:
        try:
            smt = res['times-ms']['total'] / 1000.0
        except Exception:
            pass
    return dict(name=name, path=path, wall_s=dt, verified=vr.get('verified', 0), errors=vr.get('errors', 0),
                success=vr.get('success', False), fails=fails, undecided=und, stderr=p.stderr[-6000:],
                smt_s=smt, cmd=' '.join(cmd), rc=p.returncode, vir_error=vr.get('encountered-vir-error', False),
                have_json=bool(vr))


CHEAT_RX = re.compile(r'external_body|\bassume\s*\(|\badmit\s*\(|assume_specification|\baxiom_\w+')


def scan_trusted(text):
    """mechanical scan of a generated unit for assumptions"""
    found = {}
    cur_fn = None
    lines = text.split('\n')
    for i, l in enumerate(lines):
        if 'external_body' in l:
            # name of the next fn
            for k in range(i, min(i + 6, len(lines))):
                m = re.search(r'\bfn\s+(\w+)', lines[k])
                if m:
                    found.setdefault('external_body', set()).add(m.group(1))
                    break
        if re.search(r'\bassume\s*\(', l):
            found.setdefault('assume', set()).add('line %d' % (i + 1))
        if re.search(r'\badmit\s*\(', l):
            found.setdefault('admit', set()).add('line %d' % (i + 1))
        if 'assume_specification' in l:
            found.setdefault('assume_specification', set()).add(l.strip()[:80])
    return {k: sorted(v) for k, v in found.items()}


# ------------------------------------------------------------------------------------------ plan
class VUnit:
    def __init__(self, name, unit, tops, theorems=0):
        self.name = name
        self.unit = unit
        self.tops = tops


class Plan:
    def __init__(self, prop):
        self.prop = prop
        self.vunits = []       # (name, text, tags, functions, assumed)
        self.lemmas = []       # lemma.Lemma
        self.kani = []         # dict(harness=..., ...)
        self.not_decided = []
        self.assumptions = []
        self.bounded = []
        self.notes = []
        self.expect_fail = []  # vacuity units: (name, text, expected failing fn names)

    def add_unit(self, name, u, tops):
        text = u.render(prelude.prelude_text(), tops)
        bu = ' '.join(u.module_prologue)
        probe = ('// @fn vacuity_probe\npub fn vacuity_probe_fn() { %s\n    assert(false); // @probe vacuity\n}\n' % bu)
        text = text.replace('\n} // verus!\nfn main() {}', '\n' + probe + '\n} // verus!\nfn main() {}')
        tags = re.findall(r'// @(?:obl|inv|thm) (\S+)', text)
        self.vunits.append(dict(name=name, text=text, tags=tags, functions=list(u.functions),
                                assumed=list(u.assumed), anchors=dict(getattr(u, 'anchors', {}))))

    def add_text_unit(self, name, text, functions=(), assumed=()):
        tags = re.findall(r'// @(?:obl|inv|thm) (\S+)', text)
        self.vunits.append(dict(name=name, text=text, tags=tags, functions=list(functions), assumed=list(assumed)))


def known_findings():
    p = os.path.join(VERIF, 'known_findings.json')
    if os.path.exists(p):
        return json.load(open(p))
    return []


def execute(prop, plan, tier, seed, expinfo, t_start, exp=None):
    workdir = os.path.join(WORK, 'run_%s_%d' % (prop, os.getpid()))
    shutil.rmtree(workdir, ignore_errors=True)
    os.makedirs(workdir)
    ev_dir = os.environ.get('VEKVERIF_EVIDENCE', os.path.join(VERIF, 'evidence'))
    os.makedirs(ev_dir, exist_ok=True)
    violations = []     # dict(tag, backend, msg, ...)
    undecided = list(getattr(plan, 'pre_undecided', []))
    by_backend = {}
    solver_time = {}
    samples = []
    obligations = 0
    discharged = 0
    functions = []
    assumed = []
    trusted_scan = {}
    checker_cmds = []
    vac = []
    stuck_fns = set()

    # ---- Verus units (in parallel, each multi-threaded)
    nun = max(1, len(plan.vunits))
    threads = 4

    def _rv(vu):
        # resource limit 3x Verus's default: one theorem function (thm_segment_nearest3) needed more than the default under one of the z3
        # seeds of the stability sweep; the limit only matters for obligations that are not discharged at once
        return run_verus(vu['name'], vu['text'], workdir, threads=threads, rlimit=int(os.environ.get('VEKVERIF_RLIMIT', '30')))
    with ThreadPoolExecutor(max_workers=4) as ex:
        vres = list(ex.map(_rv, plan.vunits))
    for vu, r in zip(plan.vunits, vres):
        functions += vu['functions']
        assumed += vu['assumed']
        ntags = len(vu['tags'])
        obligations += ntags
        checker_cmds.append(r['cmd'])
        solver_time['verus'] = solver_time.get('verus', 0.0) + r['wall_s']
        for k, v in scan_trusted(vu['text']).items():
            trusted_scan.setdefault(k, set()).update(v)
        hard = [x for x in r['undecided'] if x[0] != 'rlimit']
        if hard or not r['have_json'] or (r['errors'] == 0 and not r['success'] and not r['undecided']) or r['vir_error']:
            for (k, msg, ln) in r['undecided']:
                undecided.append('%s: %s: %s' % (vu['name'], k, msg[:600]))
                # the real function whose extracted text Verus could not type-check / does not support: a candidate for the replay
                if k == 'unsupported-or-type-error':
                    tl = vu['text'].split('\n')
                    lns = [int(x) for x in re.findall(r'-->\s+\S+?:(\d+):\d+', msg)] or ([ln] if ln else [])
                    for l0 in lns:
                        for q in range(min(l0, len(tl)) - 1, -1, -1):
                            t = re.search(r'// @fn (\S.*)$', tl[q])
                            if t:
                                stuck_fns.add(t.group(1).strip())
                                break
            if not r['undecided']:
                undecided.append('%s: verus did not complete: %s' % (vu['name'], r['stderr'][-1500:]))
            continue
        # resource-limit hits leave those functions undecided; refuted obligations of other functions still count
        for (k, msg, ln) in r['undecided']:
            undecided.append('%s: %s: %s' % (vu['name'], k, msg[:600]))
            r['errors'] -= 1
        failed_tags = set()
        probe_failed = any(f['tag'] == 'vacuity' for f in r['fails'])
        r['fails'] = [f for f in r['fails'] if f['tag'] != 'vacuity']
        if '@probe vacuity' in vu['text']:
            if probe_failed:
                vac.append(dict(unit=vu['name'], probe='assert(false) fails as required (ambient axioms are not contradictory)'))
                r['errors'] -= 1
            else:
                undecided.append('%s: vacuity probe assert(false) did NOT fail: ambient axioms are contradictory' % vu['name'])
        # reachability twins of the theorem functions (`assert(false)` under the theorem's own preconditions, after its own lemma
        # calls): each must FAIL, otherwise the theorem would hold vacuously
        reach_expected = set(re.findall(r'// @probe (reach:\S+)', vu['text']))
        reach_failed = set(f['tag'] for f in r['fails'] if (f['tag'] or '').startswith('reach:'))
        r['fails'] = [f for f in r['fails'] if not (f['tag'] or '').startswith('reach:')]
        r['errors'] -= len(reach_failed)
        for t in sorted(reach_expected - reach_failed):
            undecided.append('%s: reachability probe %s did NOT fail: the theorem\'s preconditions (or the lemmas it invokes) are contradictory'
                             % (vu['name'], t))
        if reach_expected:
            vac.append(dict(unit=vu['name'], reach_probes=len(reach_expected), failing_as_required=len(reach_expected & reach_failed)))
        for f in r['fails']:
            failed_tags.add(f['tag'])
            violations.append(dict(tag=f['tag'], backend='verus', kind=f['kind'], fn=f['fn'], unit=vu['name'],
                                   verifier_output=f['msg']))
        if r['errors'] and not r['fails']:
            undecided.append('%s: verus reported %d errors that could not be attributed: %s'
                             % (vu['name'], r['errors'], r['stderr'][-1500:]))
        ok = ntags - len([t for t in failed_tags if t in vu['tags']])
        discharged += ok
        by_backend['verus'] = by_backend.get('verus', 0) + ok
        if r['verified'] == 0:
            undecided.append('%s: vacuous run (0 functions verified)' % vu['name'])
        samples += [dict(obligation=t, backend='verus') for t in vu['tags'][:2]]
        log('[verus] %s: %d verified, %d errors, %d tagged obligations, %.1fs' %
            (vu['name'], r['verified'], r['errors'], ntags, r['wall_s']))

    # ---- arithmetic lemmas
    if plan.lemmas:
        jobs = []
        for lm in plan.lemmas:
            for g in lm.goals():
                jobs.append((lm, g))

        def _dl(job):
            lm, g = job
            st, model, dt, out, who = L.run_portfolio(lm.query(g), 300 if tier == 'quick' else 900, workdir,
                                                      '%s.%s' % (lm.name, 'all' if g is None else g))
            return (lm, g, st, model, dt, out)
        with ThreadPoolExecutor(max_workers=6) as ex:
            lres = list(ex.map(_dl, jobs))
        with ThreadPoolExecutor(max_workers=14) as ex:
            vres2 = list(ex.map(lambda lm: (lm, L.vacuity(lm, workdir)), plan.lemmas))
        for lm, v in vres2:
            vac.append(dict(lemma=lm.name, hypotheses=v['status']))
            if v['status'] == 'unsat':
                undecided.append('lemma %s: hypotheses are contradictory (vacuous)' % lm.name)
        for (lm, g, st, model, dt, out) in lres:
            tag = '%s/L.%s/goal.%s' % (prop, lm.name, 'all' if g is None else g)
            obligations += 1
            solver_time['z3-nlsat'] = solver_time.get('z3-nlsat', 0.0) + dt
            if st == 'unsat':
                discharged += 1
                by_backend['z3-nlsat'] = by_backend.get('z3-nlsat', 0) + 1
            elif st == 'sat':
                violations.append(dict(tag=tag, backend='z3-nlsat', kind='lemma-refuted', fn=lm.name,
                                       model={k: str(v) for k, v in (model or {}).items()},
                                       verifier_output=out[:2000]))
            else:
                undecided.append('lemma %s goal %s: %s after %.0fs' % (lm.name, g, st, dt))
        samples += [dict(obligation='%s/L.%s' % (prop, lm.name), backend='z3-nlsat',
                         statement=(lm.doc or '')[:200]) for lm in plan.lemmas[:3]]
        checker_cmds.append('z3 portfolio on <lemma>.smt2 (QF_NRA, one query per conclusion conjunct): ' + ' | '.join(n for n, _c, _t in L.PORTFOLIO))
        if tier == 'thorough':
            # re-check with independent solvers, best effort
            def _rc(job):
                lm, g = job
                out = {}
                for s in ('cvc5', 'z3-5.1'):
                    st, _m, dt, _o = L.run_solver(s, lm.query(g), 60, workdir, '%s.%s.%s' % (lm.name, g, s))
                    out[s] = st
                return (lm, g, out)
            with ThreadPoolExecutor(max_workers=14) as ex:
                rres = list(ex.map(_rc, jobs))
            prim = {(lm.name, g): st for (lm, g, st, _m, _d, _o) in lres}
            agree = 0
            for (lm, g, out) in rres:
                for s, st in out.items():
                    if st in ('sat', 'unsat'):
                        if st != prim[(lm.name, g)] and prim[(lm.name, g)] in ('sat', 'unsat'):
                            undecided.append('solver disagreement on %s goal %s: %s says %s' % (lm.name, g, s, st))
                        else:
                            agree += 1
                            by_backend[s + '_recheck'] = by_backend.get(s + '_recheck', 0) + 1
            plan.notes.append('independent re-check: %d solver answers agree with the primary' % agree)

    # ---- Kani
    if plan.kani and os.environ.get("VEKVERIF_DEV_SKIP_KANI"):
        # development aid only (never set by a registered command): the run is then reported UNDECIDED, never OK
        undecided.append('kani part skipped (VEKVERIF_DEV_SKIP_KANI)')
    elif plan.kani:
        import kani_driver
        kr = []
        crates = []
        for sp in plan.kani:
            if sp.get('crate') not in crates:
                crates.append(sp.get('crate'))
        for cr in crates:      # one cargo-kani invocation per harness crate
            kr += kani_driver.run([sp for sp in plan.kani if sp.get('crate') == cr], workdir, tier)
        for h in kr:
            obligations += 1
            solver_time['kani'] = solver_time.get('kani', 0.0) + h['time']
            if h['status'] == 'ok':
                discharged += 1
                by_backend['kani'] = by_backend.get('kani', 0) + 1
            elif h['status'] == 'failed':
                violations.append(dict(tag='%s/K.%s' % (prop, h['harness']), backend='kani', kind='kani-check-failed',
                                       fn=h['harness'], verifier_output=h['output'][-3000:],
                                       input=h.get('concrete')))
            else:
                undecided.append('kani %s: %s' % (h['harness'], h['status']))
        checker_cmds.append(kani_driver.CMD_DOC)
        spec_by = {s['harness']: s for s in plan.kani}
        functions += ['kani harness %s: %s' % (h['harness'], (spec_by.get(h['harness'], {}).get('clause') or '')[:160]) for h in kr]
        samples += [dict(obligation='%s/K.%s' % (prop, h['harness']), backend='kani', checks=h.get('checks'),
                         domain=spec_by.get(h['harness'], {}).get('domain'),
                         expected_to_fail=bool(spec_by.get(h['harness'], {}).get('should_fail'))) for h in kr[:4]]
        vac += [dict(kani_guard=h['harness'], result='fails as required') for h in kr
                if spec_by.get(h['harness'], {}).get('should_fail') and h['status'] == 'ok']

    plan.notes.append('decision rule for refuted Verus obligations: each is replayed on the real code (HEAD vs working tree at f64, the contract clauses evaluated on '
                      '4800 generated inputs); reproduced or not replayable -> VIOLATION, indistinguishable from HEAD on every input -> UNDECIDED (DESIGN.md 4)')
    # ---- known findings
    kf = [k for k in known_findings() if k.get('property') == prop and k.get('status') == 'open']
    reported = []
    kf_lines = []
    for v in violations:
        hit = None
        for k in kf:
            if k.get('obligation') == v['tag'] or v['tag'] in k.get('obligations', []):
                hit = k
        if hit:
            kf_lines.append('KNOWN-FINDING: property=%s %s' % (prop, hit.get('what', '')[:400]))
        else:
            reported.append(v)
    # a known finding's obligation counts as decided (refuted, recorded), not discharged
    for l in sorted(set(kf_lines)):
        print(l)

    # ---- replay of the refuted obligations on the real code (before the evidence is written: a refutation that the replay
    # contradicts is reported as undecided, see DESIGN.md 4)
    outcome, rp = None, None
    if not reported and stuck_fns and exp is not None and not os.environ.get('VEKVERIF_NO_DIFF_REPLAY'):
        # Verus could not even type-check the extracted text of these functions (a callee outside the unit, an unsupported construct):
        # no deductive verdict. The replay on the real code can still decide the one thing it is sound for: a concrete input on which the
        # contract's requires hold and one of its ensures clauses is false in the working tree (and true at HEAD) is a violation.
        try:
            import replay_diff
            anchors = {}
            for vu in plan.vunits:
                anchors.update(vu.get('anchors', {}))
            pseudo = [dict(tag=t + '/extracted-text-not-verifiable', backend='verus', kind='undecided', fn=t) for t in sorted(stuck_fns) if t in anchors]
            if pseudo:
                dres = replay_diff.attempt(prop, pseudo, anchors, exp, REPO, workdir)
                hits = [d for d in dres if d.get('found') and d.get('clause') is not None]
                for d in hits:
                    reported.append(dict(tag='%s/ens.%s' % (d.get('fn'), d.get('clause_index')), backend='replay', kind='clause-false-on-real-code', fn=d.get('fn'),
                                         unit='-', verifier_output='Verus could not type-check the extracted function (see undecided); the contract clause `%s` '
                                         'evaluates to false on the real code for input %s (result %s; at HEAD: %s)'
                                         % (d.get('clause', '')[:300], d.get('input'), d.get('result_now'), d.get('result_at_HEAD')), input=d.get('input')))
                stuck_replay = dres
            else:
                stuck_replay = []
        except Exception as e:
            stuck_replay = [dict(found=False, reason='replay failed: %r' % e)]
    else:
        stuck_replay = None
    all_reported = list(reported)
    if reported:
        rdir = os.path.join(VERIF, 'work', 'replays')
        os.makedirs(rdir, exist_ok=True)
        rp = os.path.join(rdir, '%s_%d.json' % (prop, int(time.time())))
        import replay
        outcome = replay.attempt(prop, reported, workdir, seed)
        if stuck_replay:
            outcome['details'] += stuck_replay
            if any(d.get('found') for d in stuck_replay):
                outcome['failing_input_found'] = True
        if exp is not None and not os.environ.get('VEKVERIF_NO_DIFF_REPLAY') and any(v.get('backend') == 'verus' for v in reported):
            try:
                import replay_diff
                anchors = {}
                for vu in plan.vunits:
                    anchors.update(vu.get('anchors', {}))
                dres = replay_diff.attempt(prop, reported, anchors, exp, REPO, workdir)
                outcome['details'] += dres
                if any(d.get('found') for d in dres):
                    outcome['failing_input_found'] = True
                    first = [d for d in dres if d.get('found')][0]
                    log('  failing input (replay on the real code): %s  input %s  HEAD %s  now %s'
                        % (first.get('call'), first.get('input', '')[:300], first.get('result_at_HEAD', '')[:200], first.get('result_now', '')[:200]))
                # A Verus refutation of a postcondition / invariant of a real function F is a *proof* failure. When F could be replayed with
                # its clauses evaluated and, on every one of the pseudo-random inputs (generic, special-value and structured modes), the
                # working tree returns what HEAD returns and every clause holds, the refutation is not reproduced on the real code: it
                # is reported as UNDECIDED (proof not re-established after a change of the function's shape), not as a violation.
                same = {}
                for d in dres:
                    if d.get('indistinguishable'):
                        same[d.get('fn') or d['tag'].rsplit('/', 1)[0]] = d
                if same:
                    keep = []
                    for v in reported:
                        fnkey = v.get('fn') or (v.get('tag') or '').rsplit('/', 1)[0]
                        if v.get('backend') == 'verus' and fnkey in same and v.get('kind') in ('postcondition', 'invariant', 'closure-postcondition', 'assertion'):
                            undecided.append('%s: refuted by Verus but NOT reproduced on the real code: %s returns the same results as HEAD (which satisfies the contract) '
                                             'on %d pseudo-random inputs (proof not re-established for the changed body)'
                                             % (v['tag'], same[fnkey].get('call'), replay_diff.TRIALS))
                        else:
                            keep.append(v)
                    reported = keep
            except Exception as e:  # replay is best effort
                outcome['details'].append(dict(found=False, reason='differential replay failed: %r' % e))
        with open(rp, 'w') as f:
            json.dump(dict(property=prop, tree_hash=expinfo.get('tree_hash'), violations=all_reported,
                           reported_as_violation=[v['tag'] for v in reported], replay=outcome), f, indent=1, default=str)

    # known findings are decided (refuted and recorded); they are not counted among the obligations
    n_kf = len([v for v in violations if v not in reported])
    obligations -= n_kf
    wall = time.time() - t_start
    evidence = dict(
        property_id=prop, tier=tier, seed=seed, level='proof',
        coverage=dict(
            obligations=obligations, discharged=discharged,
            checker_cmd=' ; '.join(checker_cmds)[:4000],
            trusted_base=sorted(set(prelude.ASSUMPTIONS + plan.assumptions)),
            functions_under_contract=sorted(set(functions)),
            n_functions_under_contract=len(set(functions)),
            assumed_contracts=sorted(set(assumed)),
            by_backend=by_backend,
            solver_time_s={k: round(v, 2) for k, v in solver_time.items()},
            extraction=dict(expansion=expinfo, drops=EXTRACTION_DROPS),
            mechanical_scan={k: sorted(v) for k, v in trusted_scan.items()},
            vacuity_checks=vac,
            bounded=plan.bounded,
            not_decided=plan.not_decided,
            known_findings=sorted(set(kf_lines)),
            undecided=undecided,
            notes=plan.notes,
            samples=samples[:8],
        ),
        assumptions=sorted(set(prelude.ASSUMPTIONS + plan.assumptions)),
        wall_s=round(wall, 2),
        violations=len(reported),
    )
    with open(os.path.join(ev_dir, prop + '.json'), 'w') as f:
        json.dump(evidence, f, indent=1, sort_keys=True)

    rc = 0
    if reported:
        suffix = '' if outcome.get('failing_input_found') else ' no-failing-input-found'
        for v in reported[:10]:
            log('  failed obligation: %s (%s, %s)' % (v['tag'], v['backend'], v['kind']))
        print('VIOLATION property=%s replay=%s%s' % (prop, rp, suffix))
        rc = 1
    elif undecided:
        for u in undecided[:10]:
            print('UNDECIDED %s' % u[:800])
        rc = 2
    else:
        print('OK property=%s obligations=%d discharged=%d backends=%s wall=%.1fs' %
              (prop, obligations, discharged, by_backend, wall))
    if not os.environ.get('VEKVERIF_KEEP'):
        shutil.rmtree(workdir, ignore_errors=True)
    return rc
