"""Projection matrices (mat.rs): spec matrices derived from the clip-volume requirement of the property,
contracts on the 20 constructors, corner lemmas."""
from extract import Contract as C
from shapes import VEC, mat
import expr as X
from expr import const, app, var
from sym import SM, SV, leaf
from matcore import eq_all, veq, lemma_args, thm_fn

ONE, ZERO, TWO = const(1), const(0), const(2)


def ortho_spec(l, r, b, t, n, f, h, mode):
    """orthographic: x in [l,r] -> [-1,1], y in [b,t] -> [-1,1], depth d = h*z in [n,f] -> [0,1] (zo) / [-1,1] (no)"""
    hh = const(h)
    e = [[ZERO] * 4 for _ in range(4)]
    e[0][0] = TWO / (r - l)
    e[1][1] = TWO / (t - b)
    e[0][3] = (-(r + l)) / (r - l)
    e[1][3] = (-(t + b)) / (t - b)
    if mode == 'zo':
        e[2][2] = hh / (f - n)
        e[2][3] = (-n) / (f - n)
    elif mode == 'no':
        e[2][2] = (hh * TWO) / (f - n)
        e[2][3] = (-(f + n)) / (f - n)
    else:   # without depth planes: z untouched
        e[2][2] = ONE
    e[3][3] = ONE
    return SM(e)


def frustum_spec(l, r, b, t, n, f, h, mode):
    """perspective frustum: w' = d = h*z; x' = (2n x - (r+l) d)/(r-l); depth by convention"""
    hh = const(h)
    e = [[ZERO] * 4 for _ in range(4)]
    e[0][0] = (TWO * n) / (r - l)
    e[1][1] = (TWO * n) / (t - b)
    e[0][2] = (const(-h) * (r + l)) / (r - l)
    e[1][2] = (const(-h) * (t + b)) / (t - b)
    if mode == 'zo':
        e[2][2] = (hh * f) / (f - n)
        e[2][3] = (-(f * n)) / (f - n)
    else:
        e[2][2] = (hh * (f + n)) / (f - n)
        e[2][3] = (-((TWO * f) * n)) / (f - n)
    e[3][2] = hh
    return SM(e)


def persp_spec(m00, m11, n, f, h, mode):
    hh = const(h)
    e = [[ZERO] * 4 for _ in range(4)]
    e[0][0] = m00
    e[1][1] = m11
    if mode == 'zo':
        e[2][2] = (hh * f) / (f - n)
        e[2][3] = (-(f * n)) / (f - n)
    else:
        e[2][2] = (hh * (f + n)) / (f - n)
        e[2][3] = (-((TWO * f) * n)) / (f - n)
    e[3][2] = hh
    return SM(e)


def inf_spec(m00, m11, n, eps, h):
    """infinite far plane (negative-one-to-one): z' = h(1-eps) ... limit of the `no` perspective, tweak eps"""
    hh = const(h)
    e = [[ZERO] * 4 for _ in range(4)]
    e[0][0] = m00
    e[1][1] = m11
    e[2][2] = hh * (ONE - eps)
    e[2][3] = (eps - TWO) * n
    e[3][2] = hh
    return SM(e)


def planes(text):
    return [leaf('%s.%s.v@' % (text, f)) for f in ('left', 'right', 'bottom', 'top', 'near', 'far')]


def nz(*es):
    return ' && '.join('%s != 0real' % X.verus(e) for e in es)


def cond(c, ens):
    return ['(%s) ==> %s' % (c, e) for e in ens]


HANDS = {'lh': 1, 'rh': -1}


def add_projections(u, ms):
    P, N = ms.path, ms.name
    gh = 'impl<T>Mat4<T>'
    l, r, b, t, n, f = planes('o')
    c_xy = nz(r - l, t - b)
    c_all = nz(r - l, t - b, f - n)
    u.take(P, gh, 'orthographic_without_depth_planes',
           C(ensures=cond(c_xy, eq_all(ms, 'res', ortho_spec(l, r, b, t, n, f, 1, None)))))
    for hn, h in HANDS.items():
        for mode in ('zo', 'no'):
            u.take(P, gh, 'orthographic_%s_%s' % (hn, mode),
                   C(ensures=cond(c_all, eq_all(ms, 'res', ortho_spec(l, r, b, t, n, f, h, mode)))))
            u.take(P, gh, 'frustum_%s_%s' % (hn, mode),
                   C(ensures=cond(c_all, eq_all(ms, 'res', frustum_spec(l, r, b, t, n, f, h, mode)))))
    fov, asp, nn, ff = leaf('fov_y_radians.v@'), leaf('aspect_ratio.v@'), leaf('near.v@'), leaf('far.v@')
    th = app('tan_r', fov / TWO)
    pre = ['fov_y_radians.v@ > 0real', 'fov_y_radians.v@ < pi_r() + pi_r()', 'aspect_ratio.v@ > 0real', 'near.v@ > 0real',
           'far.v@ > 0real', 'far.v@ > near.v@']
    cth = nz(th)
    for hn, h in HANDS.items():
        for mode in ('zo', 'no'):
            u.take(P, gh, 'perspective_%s_%s' % (hn, mode), C(
                requires=pre,
                ensures=cond(cth, eq_all(ms, 'res', persp_spec(ONE / (asp * th), ONE / th, nn, ff, h, mode)))))
    w, hgt = leaf('width.v@'), leaf('height.v@')
    ch, sh = app('cos_r', fov / TWO), app('sin_r', fov / TWO)
    pre2 = ['width.v@ > 0real', 'height.v@ > 0real', 'fov_y_radians.v@ > 0real', 'fov_y_radians.v@ < pi_r() + pi_r()',
            'near.v@ > 0real', 'far.v@ > 0real', 'far.v@ > near.v@']
    for hn, h in HANDS.items():
        for mode in ('zo', 'no'):
            u.take(P, gh, 'perspective_fov_%s_%s' % (hn, mode), C(
                requires=pre2,
                ensures=cond(nz(sh), eq_all(ms, 'res', persp_spec(((ch / sh) * hgt) / w, ch / sh, nn, ff, h, mode)))))
    eps = leaf('epsilon.v@')
    pre3 = pre[:4]
    for hn, h in HANDS.items():
        u.take(P, gh, 'tweaked_infinite_perspective_' + hn, C(
            requires=pre3,
            ensures=cond(cth, eq_all(ms, 'res', inf_spec(ONE / (asp * th), ONE / th, nn, eps, h)))))
        u.take(P, gh, 'infinite_perspective_' + hn, C(
            requires=pre3,
            ensures=cond(cth, eq_all(ms, 'res', inf_spec(ONE / (asp * th), ONE / th, nn, ZERO, h)))))


# ---------------------------------------------------------------------------------- Layer 2
def corners(l, r, b, t, n, f, h, perspective):
    """the eight corners of the view volume with the clip coordinates they must reach:
    yields (view point SV4, sx, sy, depth_is_far, d)"""
    out = []
    for (xs, sx) in ((l, -1), (r, 1)):
        for (ys, sy) in ((b, -1), (t, 1)):
            for (d, far) in ((n, False), (f, True)):
                k = (d / n) if perspective else ONE
                out.append((SV([xs * k, ys * k, const(h) * d, ONE]), sx, sy, far, d))
    return out


def corner_goals(M, l, r, b, t, n, f, h, mode, perspective):
    """clip image of every corner: x' = sx*w', y' = sy*w', z' = w' (far) | 0 (near, zo) | -w' (near, no); w' = d or 1"""
    goals = []
    for (p, sx, sy, far, d) in corners(l, r, b, t, n, f, h, perspective):
        v = M @ p
        wexp = d if perspective else ONE
        goals.append(v[3].eq(wexp))
        goals.append(v[0].eq(const(sx) * v[3]))
        goals.append(v[1].eq(const(sy) * v[3]))
        if mode is None:
            continue
        if far:
            goals.append(v[2].eq(v[3]))
        else:
            goals.append(v[2].eq(ZERO) if mode == 'zo' else v[2].eq(-v[3]))
    return goals


def projection_lemmas():
    """one lemma per (family, handedness, depth mode) over the spec matrices"""
    import lemma as L
    l, r, b, t, n, f = [var(x) for x in ('l', 'r', 'b', 't', 'n', 'f')]
    ps = [l, r, b, t, n, f]
    lem = {}
    for hn, h in HANDS.items():
        for mode in ('zo', 'no'):
            M = ortho_spec(l, r, b, t, n, f, h, mode)
            lem['ortho_%s_%s' % (hn, mode)] = L.Lemma(
                'lemma_ortho_%s_%s' % (hn, mode), ps, [(r - l).ne(0), (t - b).ne(0), (f - n).ne(0)],
                corner_goals(M, l, r, b, t, n, f, h, mode, False),
                doc='orthographic %s %s: the 8 corners of the box map to the clip-volume corners' % (hn, mode))
            M = frustum_spec(l, r, b, t, n, f, h, mode)
            lem['frustum_%s_%s' % (hn, mode)] = L.Lemma(
                'lemma_frustum_%s_%s' % (hn, mode), ps, [(r - l).ne(0), (t - b).ne(0), (f - n).ne(0), n.ne(0)],
                corner_goals(M, l, r, b, t, n, f, h, mode, True),
                doc='frustum %s %s: the 8 corners of the (off-centre) view frustum map to the clip-volume corners' % (hn, mode))
    return lem
