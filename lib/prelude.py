"""The hand-written, trusted prelude of every Verus unit (DESIGN.md 3.3).

`R` is the exact scalar: a ghost real number.  Its operators are *verified* against real
arithmetic (the bodies construct the ghost value the spec names); what is assumed is listed in
ASSUMPTIONS below and is reported in every evidence file.
"""

ASSUMPTIONS = [
    "mode R: the element type T is replaced by R = ghost real (machine arithmetic treated as mathematical; nothing is claimed about f32/f64 rounding, NaN, integer overflow)",
    "R's comparisons are an oracle: pre::ex_bool turns a ghost real comparison into an exec bool (external_body)",
    "scalar functions sqrt/sin/cos/tan/acos/floor/ceil/round/abs/recip/powi on R are uninterpreted (sqrt_r, sin_r, ...) with the axioms in pre::axioms_* (true in the reals)",
    "reflexive Into (impl<T> From<T> for T) is the identity: pre::axiom_into_refl_*",
    "derived Clone/Copy of vek structs return *self (stand-in impls emitted by the extractor)",
]

BINOPS = [('Add', 'add', '+'), ('Sub', 'sub', '-'), ('Mul', 'mul', '*'), ('Div', 'div', '/')]
UOPS = [('Rem', 'rem', 'rem_r'), ('Shl', 'shl', 'shl_r'), ('Shr', 'shr', 'shr_r'),
        ('BitAnd', 'bitand', 'bitand_r'), ('BitOr', 'bitor', 'bitor_r'), ('BitXor', 'bitxor', 'bitxor_r')]


def _binop_impls():
    o = []
    forms = [('R', 'R', '', 'self.v@', 'rhs.v@'),
             ('R', "&'a R", "<'a>", 'self.v@', 'rhs.v@'),
             ("&'a R", 'R', "<'a>", 'self.v@', 'rhs.v@'),
             ("&'a R", "&'b R", "<'a, 'b>", 'self.v@', 'rhs.v@')]
    for (tr, m, op) in BINOPS:
        for (lhs, rhs, gen, a, b) in forms:
            o.append(f"""
impl{gen} {tr}SpecImpl<{rhs}> for {lhs} {{
    open spec fn obeys_{m}_spec() -> bool {{ true }}
    open spec fn {m}_req(self, rhs: {rhs}) -> bool {{ true }}
    open spec fn {m}_spec(self, rhs: {rhs}) -> R {{ R {{ v: Ghost({a} {op} {b}) }} }}
}}
impl{gen} {tr}<{rhs}> for {lhs} {{ type Output = R;
    fn {m}(self, rhs: {rhs}) -> (r: R) {{ R {{ v: Ghost({a} {op} {b}) }} }} }}""")
        o.append(f"""
impl {tr}AssignSpecImpl<R> for R {{
    open spec fn obeys_{m}_assign_spec() -> bool {{ true }}
    open spec fn {m}_assign_req(&self, rhs: R) -> bool {{ true }}
    open spec fn {m}_assign_spec(&self, rhs: R) -> &R {{ &R {{ v: Ghost(self.v@ {op} rhs.v@) }} }}
}}
impl {tr}Assign<R> for R {{
    fn {m}_assign(&mut self, rhs: R) {{ *self = R {{ v: Ghost(self.v@ {op} rhs.v@) }}; }} }}""")
    for (tr, m, f) in UOPS:
        o.append(f"pub uninterp spec fn {f}(a: real, b: real) -> real;")
        for (lhs, rhs, gen, a, b) in forms:
            o.append(f"""
impl{gen} {tr}SpecImpl<{rhs}> for {lhs} {{
    open spec fn obeys_{m}_spec() -> bool {{ true }}
    open spec fn {m}_req(self, rhs: {rhs}) -> bool {{ true }}
    open spec fn {m}_spec(self, rhs: {rhs}) -> R {{ R {{ v: Ghost({f}({a}, {b})) }} }}
}}
impl{gen} {tr}<{rhs}> for {lhs} {{ type Output = R;
    fn {m}(self, rhs: {rhs}) -> (r: R) {{ R {{ v: Ghost({f}({a}, {b})) }} }} }}""")
        o.append(f"""
impl {tr}AssignSpecImpl<R> for R {{
    open spec fn obeys_{m}_assign_spec() -> bool {{ true }}
    open spec fn {m}_assign_req(&self, rhs: R) -> bool {{ true }}
    open spec fn {m}_assign_spec(&self, rhs: R) -> &R {{ &R {{ v: Ghost({f}(self.v@, rhs.v@)) }} }}
}}
impl {tr}Assign<R> for R {{
    fn {m}_assign(&mut self, rhs: R) {{ *self = R {{ v: Ghost({f}(self.v@, rhs.v@)) }}; }} }}""")
    return '\n'.join(o)


SPEC_TRAITS = ', '.join(
    [f'{t}SpecImpl' for (t, _, _) in BINOPS + UOPS] + [f'{t}AssignSpecImpl' for (t, _, _) in BINOPS + UOPS]
    + [f'{t}Spec' for (t, _, _) in BINOPS + UOPS] + ['NegSpecImpl', 'NegSpec', 'NotSpecImpl', 'NotSpec'])

PRELUDE = r'''
#![allow(unused_imports, unused_variables, unused_mut, dead_code, non_snake_case, unused_parens, unused_braces, unused_assignments)]
use vstd::prelude::*;
verus! {
pub mod pre {
use vstd::prelude::*;
pub use core::ops::{Add, Sub, Mul, Div, Rem, Neg, Not, Shl, Shr, BitAnd, BitOr, BitXor, Deref, DerefMut, Index, IndexMut, Range,
    AddAssign, SubAssign, MulAssign, DivAssign, RemAssign, ShlAssign, ShrAssign, BitAndAssign, BitOrAssign, BitXorAssign};
pub use vstd::std_specs::ops::{@SPEC_TRAITS@};
pub use vstd::std_specs::cmp::{PartialEqSpec, PartialEqSpecImpl, PartialOrdSpec, PartialOrdSpecImpl};
pub use vstd::std_specs::convert::{IntoSpec, FromSpec, FromSpecImpl};
pub use vstd::std_specs::core::{IndexSpecImpl};
pub use core::cmp::Ordering;

/// exact scalar
pub struct R { pub v: Ghost<real> }
impl Clone for R { fn clone(&self) -> (r: Self) ensures r == *self { R { v: self.v } } }
impl Copy for R {}

#[verifier::external_body]
pub fn ex_bool(g: Ghost<bool>) -> (b: bool) ensures b == g@ { unimplemented!() }

/// stand-in for the panic entry points (N2): reaching it is a proof failure
#[verifier::external_body]
pub fn vpanic() -> ! requires false { unimplemented!() }

pub open spec fn rr(x: real) -> R { R { v: Ghost(x) } }
pub fn mk(x: Ghost<real>) -> (r: R) ensures r.v@ == x@ { R { v: x } }

@BINOPS@

impl NegSpecImpl for R {
    open spec fn obeys_neg_spec() -> bool { true }
    open spec fn neg_req(self) -> bool { true }
    open spec fn neg_spec(self) -> R { R { v: Ghost(-self.v@) } }
}
impl Neg for R { type Output = R; fn neg(self) -> (r: R) { R { v: Ghost(-self.v@) } } }
impl<'a> NegSpecImpl for &'a R {
    open spec fn obeys_neg_spec() -> bool { true }
    open spec fn neg_req(self) -> bool { true }
    open spec fn neg_spec(self) -> R { R { v: Ghost(-self.v@) } }
}
impl<'a> Neg for &'a R { type Output = R; fn neg(self) -> (r: R) { R { v: Ghost(-self.v@) } } }
pub uninterp spec fn not_r(a: real) -> real;
impl NotSpecImpl for R {
    open spec fn obeys_not_spec() -> bool { true }
    open spec fn not_req(self) -> bool { true }
    open spec fn not_spec(self) -> R { R { v: Ghost(not_r(self.v@)) } }
}
impl Not for R { type Output = R; fn not(self) -> (r: R) { R { v: Ghost(not_r(self.v@)) } } }

impl PartialEqSpecImpl for R {
    open spec fn obeys_eq_spec() -> bool { true }
    open spec fn eq_spec(&self, other: &R) -> bool { self.v@ == other.v@ }
}
impl PartialEq for R { fn eq(&self, other: &R) -> (b: bool) { ex_bool(Ghost(self.v@ == other.v@)) } }
impl PartialOrdSpecImpl for R {
    open spec fn obeys_partial_cmp_spec() -> bool { true }
    open spec fn partial_cmp_spec(&self, other: &R) -> Option<Ordering> {
        if self.v@ < other.v@ { Some(Ordering::Less) } else if self.v@ == other.v@ { Some(Ordering::Equal) } else { Some(Ordering::Greater) } }
}
impl PartialOrd for R { fn partial_cmp(&self, other: &R) -> (o: Option<Ordering>) {
    if ex_bool(Ghost(self.v@ < other.v@)) { Some(Ordering::Less) } else if ex_bool(Ghost(self.v@ == other.v@)) { Some(Ordering::Equal) } else { Some(Ordering::Greater) } } }

// ---- stand-ins for num_traits ------------------------------------------------------------
pub trait Zero: Sized {
    spec fn zero_spec() -> Self;
    fn zero() -> (r: Self) ensures r == Self::zero_spec();
    spec fn is_zero_spec(&self) -> bool;
    fn is_zero(&self) -> (b: bool) ensures b == self.is_zero_spec();
}
pub trait One: Sized {
    spec fn one_spec() -> Self;
    fn one() -> (r: Self) ensures r == Self::one_spec();
}
impl Zero for R {
    open spec fn zero_spec() -> R { rr(0real) }
    fn zero() -> (r: R) { R { v: Ghost(0real) } }
    open spec fn is_zero_spec(&self) -> bool { self.v@ == 0real }
    fn is_zero(&self) -> (b: bool) { ex_bool(Ghost(self.v@ == 0real)) }
}
impl One for R {
    open spec fn one_spec() -> R { rr(1real) }
    fn one() -> (r: R) { R { v: Ghost(1real) } }
}
pub trait FloatConst: Sized {
    spec fn pi_spec() -> Self;
    fn PI() -> (r: Self) ensures r == Self::pi_spec();
}
impl FloatConst for R {
    open spec fn pi_spec() -> R { rr(pi_r()) }
    fn PI() -> (r: R) { R { v: Ghost(pi_r()) } }
}
/// marker stand-in for num_traits::real::Real (its methods are inherent on R)
pub trait Real: Sized {}
impl Real for R {}
pub mod num_traits {
    use vstd::prelude::*;
    use super::{R, floor_r, abs_r, rr};
    pub trait Float: Sized {
        spec fn floor_spec(self) -> Self;
        fn floor(self) -> (r: Self) ensures r == self.floor_spec();
        spec fn abs_spec(self) -> Self;
        fn abs(self) -> (r: Self) ensures r == self.abs_spec();
    }
    impl Float for R {
        open spec fn floor_spec(self) -> R { rr(floor_r(self.v@)) }
        fn floor(self) -> (r: R) { R { v: Ghost(floor_r(self.v@)) } }
        open spec fn abs_spec(self) -> R { rr(abs_r(self.v@)) }
        fn abs(self) -> (r: R) { R { v: Ghost(abs_r(self.v@)) } }
    }
}
/// stand-in for vek::ops::ColorComponent (same method signature; `full` is the opaque/maximum component value)
pub trait ColorComponent: Zero {
    spec fn full_spec() -> Self;
    fn full() -> (r: Self) ensures r == Self::full_spec();
}
pub uninterp spec fn full_r() -> real;
impl ColorComponent for R {
    open spec fn full_spec() -> R { rr(full_r()) }
    fn full() -> (r: R) { R { v: Ghost(full_r()) } }
}
impl FromSpecImpl<u8> for R {
    open spec fn obeys_from_spec() -> bool { true }
    open spec fn from_spec(v: u8) -> R { rr(v as real) }
}
impl From<u8> for R { fn from(v: u8) -> (r: R) { R { v: Ghost(v as real) } } }
pub trait MulAdd<A = Self, B = Self> {
    type Output;
    spec fn mul_add_spec(self, a: A, b: B) -> Self::Output;
    fn mul_add(self, a: A, b: B) -> (r: Self::Output) ensures r == self.mul_add_spec(a, b);
}
impl MulAdd<R, R> for R { type Output = R;
    open spec fn mul_add_spec(self, a: R, b: R) -> R { rr(self.v@ * a.v@ + b.v@) }
    fn mul_add(self, a: R, b: R) -> (r: R) { R { v: Ghost(self.v@ * a.v@ + b.v@) } } }
impl<'a> MulAdd<R, R> for &'a R { type Output = R;
    open spec fn mul_add_spec(self, a: R, b: R) -> R { rr(self.v@ * a.v@ + b.v@) }
    fn mul_add(self, a: R, b: R) -> (r: R) { R { v: Ghost(self.v@ * a.v@ + b.v@) } } }
impl<'a> MulAdd<&'a R, R> for R { type Output = R;
    open spec fn mul_add_spec(self, a: &'a R, b: R) -> R { rr(self.v@ * a.v@ + b.v@) }
    fn mul_add(self, a: &'a R, b: R) -> (r: R) { R { v: Ghost(self.v@ * a.v@ + b.v@) } } }
impl<'b> MulAdd<R, &'b R> for R { type Output = R;
    open spec fn mul_add_spec(self, a: R, b: &'b R) -> R { rr(self.v@ * a.v@ + b.v@) }
    fn mul_add(self, a: R, b: &'b R) -> (r: R) { R { v: Ghost(self.v@ * a.v@ + b.v@) } } }
impl<'a, 'b> MulAdd<&'a R, &'b R> for R { type Output = R;
    open spec fn mul_add_spec(self, a: &'a R, b: &'b R) -> R { rr(self.v@ * a.v@ + b.v@) }
    fn mul_add(self, a: &'a R, b: &'b R) -> (r: R) { R { v: Ghost(self.v@ * a.v@ + b.v@) } } }
impl<'a, 'c> MulAdd<&'a R, R> for &'c R { type Output = R;
    open spec fn mul_add_spec(self, a: &'a R, b: R) -> R { rr(self.v@ * a.v@ + b.v@) }
    fn mul_add(self, a: &'a R, b: R) -> (r: R) { R { v: Ghost(self.v@ * a.v@ + b.v@) } } }
impl<'b, 'c> MulAdd<R, &'b R> for &'c R { type Output = R;
    open spec fn mul_add_spec(self, a: R, b: &'b R) -> R { rr(self.v@ * a.v@ + b.v@) }
    fn mul_add(self, a: R, b: &'b R) -> (r: R) { R { v: Ghost(self.v@ * a.v@ + b.v@) } } }
impl<'a, 'b, 'c> MulAdd<&'a R, &'b R> for &'c R { type Output = R;
    open spec fn mul_add_spec(self, a: &'a R, b: &'b R) -> R { rr(self.v@ * a.v@ + b.v@) }
    fn mul_add(self, a: &'a R, b: &'b R) -> (r: R) { R { v: Ghost(self.v@ * a.v@ + b.v@) } } }

// ---- real-valued scalar functions: uninterpreted + axioms ---------------------------------
pub uninterp spec fn sqrt_r(x: real) -> real;
pub uninterp spec fn sin_r(x: real) -> real;
pub uninterp spec fn cos_r(x: real) -> real;
pub uninterp spec fn tan_r(x: real) -> real;
pub uninterp spec fn acos_r(x: real) -> real;
pub uninterp spec fn floor_r(x: real) -> real;
pub uninterp spec fn ceil_r(x: real) -> real;
pub uninterp spec fn round_r(x: real) -> real;
pub uninterp spec fn asin_r(x: real) -> real;
pub uninterp spec fn atan_r(x: real) -> real;
pub uninterp spec fn sinh_r(x: real) -> real;
pub uninterp spec fn cosh_r(x: real) -> real;
pub uninterp spec fn tanh_r(x: real) -> real;
pub uninterp spec fn exp_r(x: real) -> real;
pub uninterp spec fn ln_r(x: real) -> real;
pub uninterp spec fn log2_r(x: real) -> real;
pub uninterp spec fn log10_r(x: real) -> real;
pub uninterp spec fn cbrt_r(x: real) -> real;
pub uninterp spec fn trunc_r(x: real) -> real;
pub uninterp spec fn fract_r(x: real) -> real;
pub uninterp spec fn signum_r(x: real) -> real;
pub uninterp spec fn exp2_r(x: real) -> real;
pub uninterp spec fn asinh_r(x: real) -> real;
pub uninterp spec fn acosh_r(x: real) -> real;
pub uninterp spec fn atanh_r(x: real) -> real;
pub uninterp spec fn atan2_r(y: real, x: real) -> real;
pub uninterp spec fn powf_r(x: real, y: real) -> real;
pub uninterp spec fn powi_r(x: real, n: int) -> real;
pub uninterp spec fn hypot_r(x: real, y: real) -> real;
pub uninterp spec fn min_value_r() -> real;
pub uninterp spec fn max_value_r() -> real;
pub uninterp spec fn eps_r() -> real;
pub uninterp spec fn pi_r() -> real;
pub open spec fn rel_eq_r(a: real, b: real, eps: real, mr: real) -> bool {
    a == b || abs_r(a - b) <= eps || abs_r(a - b) <= max_r(abs_r(a), abs_r(b)) * mr
}
pub open spec fn abs_r(x: real) -> real { if x < 0real { -x } else { x } }
pub open spec fn max_r(a: real, b: real) -> real { if a >= b { a } else { b } }
pub open spec fn min_r(a: real, b: real) -> real { if a <= b { a } else { b } }

#[verifier::external_body]
pub broadcast proof fn axiom_sqrt(x: real)
    requires x >= 0real
    ensures #[trigger] sqrt_r(x) >= 0real, sqrt_r(x) * sqrt_r(x) == x {}
#[verifier::external_body]
pub broadcast proof fn axiom_sin_cos(x: real)
    ensures #[trigger] sin_r(x) * sin_r(x) + #[trigger] cos_r(x) * cos_r(x) == 1real {}
#[verifier::external_body]
pub proof fn axiom_cos_add(a: real, b: real)
    ensures cos_r(a + b) == cos_r(a) * cos_r(b) - sin_r(a) * sin_r(b) {}
#[verifier::external_body]
pub proof fn axiom_sin_add(a: real, b: real)
    ensures sin_r(a + b) == sin_r(a) * cos_r(b) + cos_r(a) * sin_r(b) {}
#[verifier::external_body]
pub proof fn axiom_floor(x: real)
    ensures floor_r(x) <= x, x < floor_r(x) + 1real {}
#[verifier::external_body]
pub proof fn axiom_trig_zero()
    ensures sin_r(0real) == 0real, cos_r(0real) == 1real {}
#[verifier::external_body]
pub proof fn axiom_tan(a: real)
    ensures tan_r(a) * cos_r(a) == sin_r(a) {}
#[verifier::external_body]
pub proof fn axiom_acos(x: real)
    requires -1real <= x <= 1real
    ensures cos_r(acos_r(x)) == x, sin_r(acos_r(x)) == sqrt_r(1real - x * x), 0real <= acos_r(x) <= pi_r() {}
pub proof fn lemma_div_self(x: real) requires x != 0real ensures x / x == 1real {
    assert(x / x == 1real) by (nonlinear_arith) requires x != 0real;
}
pub proof fn lemma_div_mul(x: real, y: real) requires y != 0real ensures (x / y) * y == x {
    assert((x / y) * y == x) by (nonlinear_arith) requires y != 0real;
}
pub proof fn lemma_mul_div_cancel(x: real, y: real) requires y != 0real ensures (x * y) / y == x {
    assert((x * y) / y == x) by (nonlinear_arith) requires y != 0real;
}
pub proof fn lemma_sqrt_zero() ensures sqrt_r(0real) == 0real {
    axiom_sqrt(0real);
    let s = sqrt_r(0real);
    assert(s == 0real) by (nonlinear_arith) requires s * s == 0real;
}
pub proof fn lemma_sqrt_one() ensures sqrt_r(1real) == 1real {
    axiom_sqrt(1real);
    let s = sqrt_r(1real);
    assert((s - 1real) * (s + 1real) == s * s - 1real);
    assert(s + 1real > 0real);
}
#[verifier::external_body]
pub proof fn axiom_eps() ensures eps_r() > 0real, eps_r() < 1real {}
#[verifier::external_body]
pub proof fn axiom_pi() ensures pi_r() > 3real, pi_r() < 4real {}

impl R {
    pub fn sqrt(self) -> (r: R) ensures r.v@ == sqrt_r(self.v@) { R { v: Ghost(sqrt_r(self.v@)) } }
    pub fn sin(self) -> (r: R) ensures r.v@ == sin_r(self.v@) { R { v: Ghost(sin_r(self.v@)) } }
    pub fn cos(self) -> (r: R) ensures r.v@ == cos_r(self.v@) { R { v: Ghost(cos_r(self.v@)) } }
    pub fn tan(self) -> (r: R) ensures r.v@ == tan_r(self.v@) { R { v: Ghost(tan_r(self.v@)) } }
    pub fn acos(self) -> (r: R) ensures r.v@ == acos_r(self.v@) { R { v: Ghost(acos_r(self.v@)) } }
    pub fn sin_cos(self) -> (r: (R, R)) ensures r.0.v@ == sin_r(self.v@), r.1.v@ == cos_r(self.v@) {
        (R { v: Ghost(sin_r(self.v@)) }, R { v: Ghost(cos_r(self.v@)) }) }
    pub fn floor(self) -> (r: R) ensures r.v@ == floor_r(self.v@) { R { v: Ghost(floor_r(self.v@)) } }
    pub fn ceil(self) -> (r: R) ensures r.v@ == ceil_r(self.v@) { R { v: Ghost(ceil_r(self.v@)) } }
    pub fn round(self) -> (r: R) ensures r.v@ == round_r(self.v@) { R { v: Ghost(round_r(self.v@)) } }
    pub fn abs(self) -> (r: R) ensures r.v@ == abs_r(self.v@) { R { v: Ghost(abs_r(self.v@)) } }
    pub fn recip(self) -> (r: R) ensures r.v@ == 1real / self.v@ { R { v: Ghost(1real / self.v@) } }
    pub fn epsilon() -> (r: R) ensures r.v@ == eps_r() { R { v: Ghost(eps_r()) } }
    pub fn PI() -> (r: R) ensures r.v@ == pi_r() { R { v: Ghost(pi_r()) } }
    pub fn max(self, o: R) -> (r: R) ensures r.v@ == max_r(self.v@, o.v@) { R { v: Ghost(max_r(self.v@, o.v@)) } }
    pub fn min(self, o: R) -> (r: R) ensures r.v@ == min_r(self.v@, o.v@) { R { v: Ghost(min_r(self.v@, o.v@)) } }
    pub fn asin(self) -> (r: R) ensures r.v@ == asin_r(self.v@) { R { v: Ghost(asin_r(self.v@)) } }
    pub fn atan(self) -> (r: R) ensures r.v@ == atan_r(self.v@) { R { v: Ghost(atan_r(self.v@)) } }
    pub fn sinh(self) -> (r: R) ensures r.v@ == sinh_r(self.v@) { R { v: Ghost(sinh_r(self.v@)) } }
    pub fn cosh(self) -> (r: R) ensures r.v@ == cosh_r(self.v@) { R { v: Ghost(cosh_r(self.v@)) } }
    pub fn tanh(self) -> (r: R) ensures r.v@ == tanh_r(self.v@) { R { v: Ghost(tanh_r(self.v@)) } }
    pub fn exp(self) -> (r: R) ensures r.v@ == exp_r(self.v@) { R { v: Ghost(exp_r(self.v@)) } }
    pub fn ln(self) -> (r: R) ensures r.v@ == ln_r(self.v@) { R { v: Ghost(ln_r(self.v@)) } }
    pub fn log2(self) -> (r: R) ensures r.v@ == log2_r(self.v@) { R { v: Ghost(log2_r(self.v@)) } }
    pub fn log10(self) -> (r: R) ensures r.v@ == log10_r(self.v@) { R { v: Ghost(log10_r(self.v@)) } }
    pub fn cbrt(self) -> (r: R) ensures r.v@ == cbrt_r(self.v@) { R { v: Ghost(cbrt_r(self.v@)) } }
    pub fn trunc(self) -> (r: R) ensures r.v@ == trunc_r(self.v@) { R { v: Ghost(trunc_r(self.v@)) } }
    pub fn fract(self) -> (r: R) ensures r.v@ == fract_r(self.v@) { R { v: Ghost(fract_r(self.v@)) } }
    pub fn signum(self) -> (r: R) ensures r.v@ == signum_r(self.v@) { R { v: Ghost(signum_r(self.v@)) } }
    pub fn exp2(self) -> (r: R) ensures r.v@ == exp2_r(self.v@) { R { v: Ghost(exp2_r(self.v@)) } }
    pub fn asinh(self) -> (r: R) ensures r.v@ == asinh_r(self.v@) { R { v: Ghost(asinh_r(self.v@)) } }
    pub fn acosh(self) -> (r: R) ensures r.v@ == acosh_r(self.v@) { R { v: Ghost(acosh_r(self.v@)) } }
    pub fn atanh(self) -> (r: R) ensures r.v@ == atanh_r(self.v@) { R { v: Ghost(atanh_r(self.v@)) } }
    pub fn atan2(self, o: R) -> (r: R) ensures r.v@ == atan2_r(self.v@, o.v@) { R { v: Ghost(atan2_r(self.v@, o.v@)) } }
    pub fn powf(self, o: R) -> (r: R) ensures r.v@ == powf_r(self.v@, o.v@) { R { v: Ghost(powf_r(self.v@, o.v@)) } }
    pub fn powi(self, n: i32) -> (r: R) ensures r.v@ == powi_r(self.v@, n as int) { R { v: Ghost(powi_r(self.v@, n as int)) } }
    pub fn hypot(self, o: R) -> (r: R) ensures r.v@ == hypot_r(self.v@, o.v@) { R { v: Ghost(hypot_r(self.v@, o.v@)) } }
    pub fn to_radians(self) -> (r: R) ensures r.v@ == self.v@ * pi_r() / 180real { R { v: Ghost(self.v@ * pi_r() / 180real) } }
    pub fn min_value() -> (r: R) ensures r.v@ == min_value_r() { R { v: Ghost(min_value_r()) } }
    pub fn max_value() -> (r: R) ensures r.v@ == max_value_r() { R { v: Ghost(max_value_r()) } }
    pub fn default_epsilon() -> (r: R) ensures r.v@ == eps_r() { R { v: Ghost(eps_r()) } }
    pub fn default_max_relative() -> (r: R) ensures r.v@ == eps_r() { R { v: Ghost(eps_r()) } }
    /// approx::RelativeEq for floats, in exact arithmetic
    pub fn relative_eq(&self, other: &R, epsilon: R, max_relative: R) -> (b: bool)
        ensures b == rel_eq_r(self.v@, other.v@, epsilon.v@, max_relative.v@)
    { ex_bool(Ghost(rel_eq_r(self.v@, other.v@, epsilon.v@, max_relative.v@))) }
    pub fn to_degrees(self) -> (r: R) ensures r.v@ == self.v@ * 180real / pi_r() { R { v: Ghost(self.v@ * 180real / pi_r()) } }
    pub fn is_sign_negative(self) -> (b: bool) ensures b == (self.v@ < 0real) { ex_bool(Ghost(self.v@ < 0real)) }
    pub fn is_negative(&self) -> (b: bool) ensures b == (self.v@ < 0real) { ex_bool(Ghost(self.v@ < 0real)) }
    pub fn is_positive(&self) -> (b: bool) ensures b == (self.v@ > 0real) { ex_bool(Ghost(self.v@ > 0real)) }
}
} // mod pre
} // verus!
'''


def prelude_text():
    return PRELUDE.replace('@SPEC_TRAITS@', SPEC_TRAITS).replace('@BINOPS@', _binop_impls())


# only for units whose code converts u16 counters (a second From<integer> impl makes bare integer literals ambiguous elsewhere)
FROM_U16 = """impl vstd::std_specs::convert::FromSpecImpl<u16> for crate::pre::R {
    open spec fn obeys_from_spec() -> bool { true }
    open spec fn from_spec(v: u16) -> crate::pre::R { crate::pre::rr(v as real) }
}
impl From<u16> for crate::pre::R { fn from(v: u16) -> (r: crate::pre::R) { crate::pre::R { v: Ghost(v as real) } } }
"""
