"""Contract templates for the matrix code (mat.rs: mat_impl_mat!, mat_impl_mat{2,3,4}!), instantiated
for the six (size, layout) expansions.  The postconditions are the textbook definitions over the
layout-aware element view `at(m,i,j)` (row i, column j): sym.SM."""
import re
from extract import Contract as C
from xparse import norm
from shapes import VEC, mat
import expr as X
from sym import SM, SV, leaf

MULB = 'impl<T: MulAdd<T, T, Output = T> + Mul<Output = T> + Copy>'


def other(ms):
    return mat(ms.n, 'cols' if ms.layout == 'rows' else 'rows')


def mlit(ms, name, f):
    """struct literal text for matrix type `name` of shape ms with element (i,j) = f(i,j) (text)"""
    n = ms.n
    vs = ms.vec
    if ms.layout == 'rows':
        inner = [vs.lit([f(i, j) for j in range(n)]) for i in range(n)]
    else:
        inner = [vs.lit([f(i, j) for i in range(n)]) for j in range(n)]
    return '%s { %s: %s }' % (name, ms.field, vs.lit(inner))


def eq_all(ms, res, sm):
    """ensures conjuncts: at(res,i,j) == sm[i,j] (real-valued)"""
    n = ms.n
    return ['%s.v@ == %s' % (ms.at(res, i, j), X.verus(sm[i, j])) for i in range(n) for j in range(n)]


def veq(sh, res, sv):
    return ['%s.%s.v@ == %s' % (res, sh.fields[i], X.verus(sv[i])) for i in range(sh.dim)]


def add_mat_struct(u, ms):
    """new / zero / identity / transposed / From<Transpose>"""
    P, N, n = ms.path, ms.name, ms.n
    gh = 'impl<T>%s<T>' % N
    o = other(ms)
    names = ['m%d%d' % (i, j) for i in range(n) for j in range(n)]
    u.take(P, gh, 'new', C(ensures=['%s == m%d%d' % (ms.at('res', i, j), i, j) for i in range(n) for j in range(n)]),
           mode='G')
    u.take(P, gh, 'zero', C(ensures=['%s.v@ == 0real' % ms.at('res', i, j) for i in range(n) for j in range(n)]))
    u.take(P, gh, 'identity', C(ensures=['%s.v@ == %dreal' % (ms.at('res', i, j), 1 if i == j else 0)
                                         for i in range(n) for j in range(n)]))
    u.take(P, gh, 'transposed', C(ensures=['%s == %s' % (ms.at('res', i, j), ms.at('self', j, i))
                                           for i in range(n) for j in range(n)]), mode='G')
    hdr = 'impl<T> From<Transpose<T>> for %s<T>' % N
    u.take_impl(P, hdr, mode='G')
    u.from_given.add(norm(hdr))
    u.add(P, 'impl<T> FromSpecImpl<Transpose<T>> for %s<T> {\n    open spec fn obeys_from_spec() -> bool { true }\n'
             '    open spec fn from_spec(m: Transpose<T>) -> %s<T> { %s }\n}'
          % (N, N, mlit(ms, N, lambda i, j: o.at('m', i, j))))


def fold_invariants(n, out_sh, out, term):
    """invariants for `let mut out = t0; for i in 1..n { out = out + t_i }`:
    term(k, j) -> E : the k-th summand of element j"""
    inv = ['1 <= i <= %d' % n]
    for k in range(1, n + 1):
        for j in range(n):
            s = X.sum_([term(q, j) for q in range(k)])
            inv.append('i == %d ==> %s.%s.v@ == %s' % (k, out, out_sh.fields[j], X.verus(s)))
    return inv


def add_mat_mul(u, ms):
    """the four products of this layout + scalar / element-wise operators"""
    P, N, n = ms.path, ms.name, ms.n
    V = ms.vec
    VN = V.name
    o = other(ms)
    A = SM.of(ms, 'self')
    hb = MULB.replace(' ', '')
    if ms.layout == 'rows':
        # v * M : the real loop
        v = SV.of(V, 'self')
        M = SM.of(ms, 'rhs')
        u.take_impl(P, '%s Mul<%s<T>> for %s<T>' % (MULB, N, VN), {'mul': C(
            ret='out', ensures=veq(V, 'out', M.rmul_vec(v)),
            loops=[dict(iter='iter', invariant=fold_invariants(n, V, 'out', lambda k, j: v[k] * M[k, j]))])})
        # M * v : via the transpose
        w = SV.of(V, 'v')
        u.take_impl(P, '%s Mul<%s<T>> for %s<T>' % (MULB, VN, N), {'mul': C(ensures=veq(V, 'res', A @ w))})
    else:
        w = SV.of(V, 'v')
        u.take_impl(P, '%s Mul<%s<T>> for %s<T>' % (MULB, VN, N), {'mul': C(
            ret='out', ensures=veq(V, 'out', A @ w),
            loops=[dict(iter='iter', invariant=fold_invariants(n, V, 'out', lambda k, j: A[j, k] * w[k]))])})
        v = SV.of(V, 'self')
        M = SM.of(ms, 'rhs')
        u.take_impl(P, '%s Mul<%s<T>> for %s<T>' % (MULB, N, VN), {'mul': C(ensures=veq(V, 'res', M.rmul_vec(v)))})
    B = SM.of(ms, 'rhs')
    u.take_impl(P, '%s Mul for %s<T>' % (MULB, N), {'mul': C(ensures=eq_all(ms, 'res', A @ B))})
    Bo = SM.of(o, 'rhs')
    u.take_impl(P, '%s Mul<Transpose<T>> for %s<T>' % (MULB, N), {'mul': C(ensures=eq_all(o, 'res', A @ Bo))})


def add_mat_scalar_ops(u, ms):
    P, N, n = ms.path, ms.name, ms.n
    A = SM.of(ms, 'self')
    B = SM.of(ms, 'rhs')
    k = leaf('rhs.v@')
    u.take_impl(P, 'impl<T> Mul<T> for %s<T> where T: Copy + Zero + Add<Output = T> + Mul<Output = T>' % N,
                {'mul': C(ensures=eq_all(ms, 'res', A.map(lambda x: x * k)))})
    for tr, m, f in (('Add', 'add', lambda a, b: a + b), ('Sub', 'sub', lambda a, b: a - b),
                     ('Div', 'div', lambda a, b: a / b)):
        u.take_impl(P, 'impl<T> %s for %s<T> where T: %s<Output = T>' % (tr, N, tr),
                    {m: C(ensures=eq_all(ms, 'res', A.zip(B, f)))})
        u.take_impl(P, 'impl<T> %s<T> for %s<T> where T: Copy + %s<Output = T>' % (tr, N, tr),
                    {m: C(ensures=eq_all(ms, 'res', A.map(lambda x: f(x, k))))})
    u.take_impl(P, 'impl<T> Neg for %s<T> where T: Neg<Output = T>' % N,
                {'neg': C(ensures=eq_all(ms, 'res', A.map(lambda x: -x)))})
    Mm = SM.of(ms, 'm')
    u.take(P, 'impl<T>%s<T>' % N, 'mul_memberwise', C(ensures=eq_all(ms, 'res', A.zip(Mm, lambda a, b: a * b))))


# ------------------------------------------------------------------ C03: element (i,j) everywhere
def add_mat_index(u, ms):
    P, N, n = ms.path, ms.name, ms.n
    idx = ['(t.0 == %d && t.1 == %d) ==> *res == %s' % (i, j, ms.at('self', i, j)) for i in range(n) for j in range(n)]
    u.take_impl(P, 'impl<T> Index<(usize, usize)> for %s<T>' % N, {'index': C(ensures=idx)}, mode='G')
    u.add(P, 'impl<T> IndexSpecImpl<(usize, usize)> for %s<T> {\n    open spec fn index_req(&self, t: &(usize, usize)) -> bool { t.0 < %d && t.1 < %d }\n}' % (N, n, n))
    ens = []
    for i in range(n):
        for j in range(n):
            frame = ' && '.join('%s == %s' % (ms.at('final(self)', a, b), ms.at('old(self)', a, b))
                                for a in range(n) for b in range(n) if (a, b) != (i, j))
            ens.append('(t.0 == %d && t.1 == %d) ==> (*res == %s && %s == *final(res) && %s)'
                       % (i, j, ms.at('old(self)', i, j), ms.at('final(self)', i, j), frame))
    u.take_impl(P, 'impl<T> IndexMut<(usize, usize)> for %s<T>' % N, {'index_mut': C(ensures=ens, external_body=True)}, mode='G')


def add_mat_movement(u, ms):
    P, N, n = ms.path, ms.name, ms.n
    V = ms.vec
    gh = 'impl<T>%s<T>' % N
    f = V.fields
    u.take(P, gh, 'transpose', C(ret=None, ensures=['%s == %s' % (ms.at('final(self)', i, j), ms.at('old(self)', j, i))
                                                    for i in range(n) for j in range(n)]), mode='G')
    u.take(P, gh, 'diagonal', C(ensures=['res.%s == %s' % (f[i], ms.at('self', i, i)) for i in range(n)]), mode='G')
    u.take(P, gh, 'with_diagonal', C(ensures=['%s.v@ == %s' % (ms.at('res', i, j), ('d.%s.v@' % f[i]) if i == j else '0real')
                                              for i in range(n) for j in range(n)]))
    u.take(P, gh, 'broadcast_diagonal', C(ensures=['%s.v@ == %s' % (ms.at('res', i, j), 'val.v@' if i == j else '0real')
                                                   for i in range(n) for j in range(n)]))
    tr = ' + '.join('%s.v@' % ms.at('self', i, i) for i in range(n))
    u.take(P, gh, 'trace', C(ensures=['res.v@ == ' + tr]))
    u.take_impl(P, 'impl<T: Zero + One> Default for %s<T>' % N,
                {'default': C(ensures=['%s.v@ == %dreal' % (ms.at('res', i, j), 1 if i == j else 0)
                                       for i in range(n) for j in range(n)])})
    u.take(P, gh, 'gl_should_transpose', C(ensures=['res == %s' % ('true' if ms.layout == 'rows' else 'false')]), mode='G')
    u.take(P, gh, 'map', C(
        requires=['forall|x: T| call_requires(f, (x,))'],
        ensures=['call_ensures(f, (%s,), %s)' % (ms.at('self', i, j), ms.at('res', i, j)) for i in range(n) for j in range(n)]),
        mode='G')
    u.take(P, gh, 'map2', C(
        requires=['forall|x: T, y: S| call_requires(f, (x, y))'],
        ensures=['call_ensures(f, (%s, %s), %s)' % (ms.at('self', i, j), ms.at('other', i, j), ms.at('res', i, j))
                 for i in range(n) for j in range(n)]), mode='G')


def add_mat_size_conversions(u, n_all=(2, 3, 4)):
    """From<MatK> for MatN (embedding in the identity / upper-left block), both layouts"""
    for layout in ('rows', 'cols'):
        for nd in n_all:
            for ns in n_all:
                if nd == ns:
                    continue
                md, msrc = mat(nd, layout), mat(ns, layout)
                bound = ' where T: Zero + One' if nd > ns else ''
                hdr = 'impl<T> From<%s<T>> for %s<T>%s' % (msrc.name, md.name, bound)
                u.take_impl(md.path, hdr, mode='G')
                u.from_given.add(norm(hdr))

                def el(i, j):
                    if i < ns and j < ns:
                        return msrc.at('m', i, j)
                    return 'T::one_spec()' if i == j else 'T::zero_spec()'
                u.add(md.path, 'impl<T> FromSpecImpl<%s<T>> for %s<T>%s {\n    open spec fn obeys_from_spec() -> bool { true }\n'
                      '    open spec fn from_spec(m: %s<T>) -> %s<T> { %s }\n}'
                      % (msrc.name, md.name, bound, msrc.name, md.name, mlit(md, md.name, el)))
