"""Contract templates for the matrix code (mat.rs: mat_impl_mat!, mat_impl_mat{2,3,4}!), instantiated
for the six (size, layout) expansions.  The postconditions are the textbook definitions over the
layout-aware element view `at(m,i,j)` (row i, column j): sym.SM."""
import re
from extract import Contract as C
from xparse import norm
from shapes import VEC, mat
import expr as X
from sym import SM, SV, leaf

MULB = 'impl<T: MulAdd<T, T, Output = T> + Mul<Output = T> + Copy>'


def other(ms):
    return mat(ms.n, 'cols' if ms.layout == 'rows' else 'rows')


def mlit(ms, name, f):
    """struct literal text for matrix type `name` of shape ms with element (i,j) = f(i,j) (text)"""
    n = ms.n
    vs = ms.vec
    if ms.layout == 'rows':
        inner = [vs.lit([f(i, j) for j in range(n)]) for i in range(n)]
    else:
        inner = [vs.lit([f(i, j) for i in range(n)]) for j in range(n)]
    return '%s { %s: %s }' % (name, ms.field, vs.lit(inner))


def eq_all(ms, res, sm):
    """ensures conjuncts: at(res,i,j) == sm[i,j] (real-valued)"""
    n = ms.n
    return ['%s.v@ == %s' % (ms.at(res, i, j), X.verus(sm[i, j])) for i in range(n) for j in range(n)]


def veq(sh, res, sv):
    return ['%s.%s.v@ == %s' % (res, sh.fields[i], X.verus(sv[i])) for i in range(sh.dim)]


def add_mat_struct(u, ms, conv=True):
    """new / zero / identity / transposed / From<Transpose>"""
    P, N, n = ms.path, ms.name, ms.n
    gh = 'impl<T>%s<T>' % N
    o = other(ms)
    names = ['m%d%d' % (i, j) for i in range(n) for j in range(n)]
    u.take(P, gh, 'new', C(ensures=['%s == m%d%d' % (ms.at('res', i, j), i, j) for i in range(n) for j in range(n)]),
           mode='G')
    u.take(P, gh, 'zero', C(ensures=['%s.v@ == 0real' % ms.at('res', i, j) for i in range(n) for j in range(n)]))
    u.take(P, gh, 'identity', C(ensures=['%s.v@ == %dreal' % (ms.at('res', i, j), 1 if i == j else 0)
                                         for i in range(n) for j in range(n)]))
    u.take(P, gh, 'transposed', C(ensures=['%s == %s' % (ms.at('res', i, j), ms.at('self', j, i))
                                           for i in range(n) for j in range(n)]), mode='G')
    if not conv:
        return
    hdr = 'impl<T> From<Transpose<T>> for %s<T>' % N
    u.take_impl(P, hdr, mode='G')
    u.from_given.add(norm(hdr))
    u.add(P, 'impl<T> FromSpecImpl<Transpose<T>> for %s<T> {\n    open spec fn obeys_from_spec() -> bool { true }\n'
             '    open spec fn from_spec(m: Transpose<T>) -> %s<T> { %s }\n}'
          % (N, N, mlit(ms, N, lambda i, j: o.at('m', i, j))))


def fold_invariants(n, out_sh, out, term):
    """invariants for `let mut out = t0; for i in 1..n { out = out + t_i }`:
    term(k, j) -> E : the k-th summand of element j"""
    inv = ['1 <= i <= %d' % n]
    for k in range(1, n + 1):
        for j in range(n):
            s = X.sum_([term(q, j) for q in range(k)])
            inv.append('i == %d ==> %s.%s.v@ == %s' % (k, out, out_sh.fields[j], X.verus(s)))
    return inv


def add_mat_mul(u, ms):
    """the four products of this layout + scalar / element-wise operators"""
    P, N, n = ms.path, ms.name, ms.n
    V = ms.vec
    VN = V.name
    o = other(ms)
    A = SM.of(ms, 'self')
    hb = MULB.replace(' ', '')
    if ms.layout == 'rows':
        # v * M : the real loop
        v = SV.of(V, 'self')
        M = SM.of(ms, 'rhs')
        u.take_impl(P, '%s Mul<%s<T>> for %s<T>' % (MULB, N, VN), {'mul': C(
            ret='out', ensures=veq(V, 'out', M.rmul_vec(v)),
            loops=[dict(iter='iter', invariant=fold_invariants(n, V, 'out', lambda k, j: v[k] * M[k, j]))])})
        # M * v : via the transpose
        w = SV.of(V, 'v')
        u.take_impl(P, '%s Mul<%s<T>> for %s<T>' % (MULB, VN, N), {'mul': C(ensures=veq(V, 'res', A @ w))})
    else:
        w = SV.of(V, 'v')
        u.take_impl(P, '%s Mul<%s<T>> for %s<T>' % (MULB, VN, N), {'mul': C(
            ret='out', ensures=veq(V, 'out', A @ w),
            loops=[dict(iter='iter', invariant=fold_invariants(n, V, 'out', lambda k, j: A[j, k] * w[k]))])})
        v = SV.of(V, 'self')
        M = SM.of(ms, 'rhs')
        u.take_impl(P, '%s Mul<%s<T>> for %s<T>' % (MULB, N, VN), {'mul': C(ensures=veq(V, 'res', M.rmul_vec(v)))})
    B = SM.of(ms, 'rhs')
    u.take_impl(P, '%s Mul for %s<T>' % (MULB, N), {'mul': C(ensures=eq_all(ms, 'res', A @ B))})
    Bo = SM.of(o, 'rhs')
    u.take_impl(P, '%s Mul<Transpose<T>> for %s<T>' % (MULB, N), {'mul': C(ensures=eq_all(o, 'res', A @ Bo))})


def add_mat_scalar_ops(u, ms):
    P, N, n = ms.path, ms.name, ms.n
    A = SM.of(ms, 'self')
    B = SM.of(ms, 'rhs')
    k = leaf('rhs.v@')
    u.take_impl(P, 'impl<T> Mul<T> for %s<T> where T: Copy + Zero + Add<Output = T> + Mul<Output = T>' % N,
                {'mul': C(ensures=eq_all(ms, 'res', A.map(lambda x: x * k)))})
    for tr, m, f in (('Add', 'add', lambda a, b: a + b), ('Sub', 'sub', lambda a, b: a - b),
                     ('Div', 'div', lambda a, b: a / b)):
        u.take_impl(P, 'impl<T> %s for %s<T> where T: %s<Output = T>' % (tr, N, tr),
                    {m: C(ensures=eq_all(ms, 'res', A.zip(B, f)))})
        u.take_impl(P, 'impl<T> %s<T> for %s<T> where T: Copy + %s<Output = T>' % (tr, N, tr),
                    {m: C(ensures=eq_all(ms, 'res', A.map(lambda x: f(x, k))))})
    u.take_impl(P, 'impl<T> Neg for %s<T> where T: Neg<Output = T>' % N,
                {'neg': C(ensures=eq_all(ms, 'res', A.map(lambda x: -x)))})
    Mm = SM.of(ms, 'm')
    u.take(P, 'impl<T>%s<T>' % N, 'mul_memberwise', C(ensures=eq_all(ms, 'res', A.zip(Mm, lambda a, b: a * b))))
    # compound assignment: final(self) == old(self) op rhs
    Ao = SM.of(ms, 'old(self)')
    u.take_impl(P, 'impl<T> MulAssign for %s<T> where T: Copy + Zero + Add<Output = T> + Mul<Output = T> + MulAdd<T, T, Output = T>' % N,
                {'mul_assign': C(ret=None, ensures=eq_all(ms, 'final(self)', Ao @ B))})
    u.take_impl(P, 'impl<T> MulAssign<T> for %s<T> where T: Copy + Zero + Add<Output = T> + Mul<Output = T>' % N,
                {'mul_assign': C(ret=None, ensures=eq_all(ms, 'final(self)', Ao.map(lambda x: x * k)))})
    for tr, m, f in (('Add', 'add', lambda a, b: a + b), ('Sub', 'sub', lambda a, b: a - b), ('Div', 'div', lambda a, b: a / b)):
        u.take_impl(P, 'impl<T: %s<Output = T> + Copy> %sAssign for %s<T>' % (tr, tr, N),
                    {m + '_assign': C(ret=None, ensures=eq_all(ms, 'final(self)', Ao.zip(B, f)))})
        u.take_impl(P, 'impl<T: %s<Output = T> + Copy> %sAssign<T> for %s<T>' % (tr, tr, N),
                    {m + '_assign': C(ret=None, ensures=eq_all(ms, 'final(self)', Ao.map(lambda x: f(x, k))))})
    n = ms.n
    one_h = 'impl<T: Zero + One + Copy + MulAdd<T, T, Output = T>> One for %s<T>' % N
    u.impl_extra[(P, norm(one_h))] = 'open spec fn one_spec() -> Self { %s }' % mlit(ms, N, lambda i, j: 'rr(%dreal)' % (1 if i == j else 0))
    u.take_impl(P, one_h, {'one': C(ensures=['%s.v@ == %dreal' % (ms.at('res', i, j), 1 if i == j else 0) for i in range(n) for j in range(n)])})


# ------------------------------------------------------------------ C03: element (i,j) everywhere
def add_mat_index(u, ms):
    P, N, n = ms.path, ms.name, ms.n
    idx = ['(t.0 == %d && t.1 == %d) ==> *res == %s' % (i, j, ms.at('self', i, j)) for i in range(n) for j in range(n)]
    u.take_impl(P, 'impl<T> Index<(usize, usize)> for %s<T>' % N, {'index': C(ensures=idx)}, mode='G')
    u.add(P, 'impl<T> IndexSpecImpl<(usize, usize)> for %s<T> {\n    open spec fn index_req(&self, t: &(usize, usize)) -> bool { t.0 < %d && t.1 < %d }\n}' % (N, n, n))
    ens = []
    for i in range(n):
        for j in range(n):
            frame = ' && '.join('%s == %s' % (ms.at('final(self)', a, b), ms.at('old(self)', a, b))
                                for a in range(n) for b in range(n) if (a, b) != (i, j))
            ens.append('(t.0 == %d && t.1 == %d) ==> (*res == %s && %s == *final(res) && %s)'
                       % (i, j, ms.at('old(self)', i, j), ms.at('final(self)', i, j), frame))
    u.take_impl(P, 'impl<T> IndexMut<(usize, usize)> for %s<T>' % N, {'index_mut': C(ensures=ens, external_body=True)}, mode='G')


def add_mat_movement(u, ms):
    P, N, n = ms.path, ms.name, ms.n
    V = ms.vec
    gh = 'impl<T>%s<T>' % N
    f = V.fields
    u.take(P, gh, 'transpose', C(ret=None, ensures=['%s == %s' % (ms.at('final(self)', i, j), ms.at('old(self)', j, i))
                                                    for i in range(n) for j in range(n)]), mode='G')
    u.take(P, gh, 'diagonal', C(ensures=['res.%s == %s' % (f[i], ms.at('self', i, i)) for i in range(n)]), mode='G')
    u.take(P, gh, 'with_diagonal', C(ensures=['%s.v@ == %s' % (ms.at('res', i, j), ('d.%s.v@' % f[i]) if i == j else '0real')
                                              for i in range(n) for j in range(n)]))
    u.take(P, gh, 'broadcast_diagonal', C(ensures=['%s.v@ == %s' % (ms.at('res', i, j), 'val.v@' if i == j else '0real')
                                                   for i in range(n) for j in range(n)]))
    tr = ' + '.join('%s.v@' % ms.at('self', i, i) for i in range(n))
    u.take(P, gh, 'trace', C(ensures=['res.v@ == ' + tr]))
    u.take_impl(P, 'impl<T: Zero + One> Default for %s<T>' % N,
                {'default': C(ensures=['%s.v@ == %dreal' % (ms.at('res', i, j), 1 if i == j else 0)
                                       for i in range(n) for j in range(n)])})
    u.take(P, gh, 'gl_should_transpose', C(ensures=['res == %s' % ('true' if ms.layout == 'rows' else 'false')]), mode='G')
    u.take(P, gh, 'map', C(
        requires=['forall|x: T| call_requires(f, (x,))'],
        ensures=['call_ensures(f, (%s,), %s)' % (ms.at('self', i, j), ms.at('res', i, j)) for i in range(n) for j in range(n)]),
        mode='G')
    u.take(P, gh, 'map2', C(
        requires=['forall|x: T, y: S| call_requires(f, (x, y))'],
        ensures=['call_ensures(f, (%s, %s), %s)' % (ms.at('self', i, j), ms.at('other', i, j), ms.at('res', i, j))
                 for i in range(n) for j in range(n)]), mode='G')


def add_mat_size_conversions(u, n_all=(2, 3, 4)):
    """From<MatK> for MatN (embedding in the identity / upper-left block), both layouts"""
    for layout in ('rows', 'cols'):
        for nd in n_all:
            for ns in n_all:
                if nd == ns:
                    continue
                md, msrc = mat(nd, layout), mat(ns, layout)
                bound = ' where T: Zero + One' if nd > ns else ''
                hdr = 'impl<T> From<%s<T>> for %s<T>%s' % (msrc.name, md.name, bound)
                u.take_impl(md.path, hdr, mode='G')
                u.from_given.add(norm(hdr))

                def el(i, j):
                    if i < ns and j < ns:
                        return msrc.at('m', i, j)
                    return 'T::one_spec()' if i == j else 'T::zero_spec()'
                u.add(md.path, 'impl<T> FromSpecImpl<%s<T>> for %s<T>%s {\n    open spec fn obeys_from_spec() -> bool { true }\n'
                      '    open spec fn from_spec(m: %s<T>) -> %s<T> { %s }\n}'
                      % (msrc.name, md.name, bound, msrc.name, md.name, mlit(md, md.name, el)))


# ------------------------------------------------------------------ C06: determinants, inverses
def add_determinant(u, ms):
    P, N = ms.path, ms.name
    A = SM.of(ms, 'self')
    u.take(P, 'impl<T>%s<T>' % N, 'determinant', C(ensures=['res.v@ == ' + X.verus(A.det())]))


def inv_spec(A):
    d = A.det()
    return A.adj().map(lambda x: x / d)


def add_inverted(u, ms, prologue=''):
    P, N, n = ms.path, ms.name, ms.n
    A = SM.of(ms, 'self')
    d = X.verus(A.det())
    I = inv_spec(A)
    ens = ['%s != 0real ==> %s.v@ == %s' % (d, ms.at('res', i, j), X.verus(I[i, j])) for i in range(n) for j in range(n)]
    u.take(P, 'impl<T>%s<T>' % N, 'inverted', C(ensures=ens, prologue=prologue))


def det4_code_shape(A):
    """mirror of mat.rs `determinant` for 4x4 (flat signed products, left-assoc), used only as a bridge:
    Verus matches it against the code, z3-nlsat proves it equal to the Leibniz expansion"""
    m = lambda i, j: A[i, j]
    P = lambda a, b, c, d: ((m(0, a) * m(1, b)) * m(2, c)) * m(3, d)
    terms = [(+1, (3, 2, 1, 0)), (-1, (2, 3, 1, 0)), (-1, (3, 1, 2, 0)), (+1, (1, 3, 2, 0)), (+1, (2, 1, 3, 0)),
             (-1, (1, 2, 3, 0)), (-1, (3, 2, 0, 1)), (+1, (2, 3, 0, 1)), (+1, (3, 0, 2, 1)), (-1, (0, 3, 2, 1)),
             (-1, (2, 0, 3, 1)), (+1, (0, 2, 3, 1)), (+1, (3, 1, 0, 2)), (-1, (1, 3, 0, 2)), (-1, (3, 0, 1, 2)),
             (+1, (0, 3, 1, 2)), (+1, (1, 0, 3, 2)), (-1, (0, 1, 3, 2)), (-1, (2, 1, 0, 3)), (+1, (1, 2, 0, 3)),
             (+1, (2, 0, 1, 3)), (-1, (0, 2, 1, 3)), (-1, (1, 0, 2, 3)), (+1, (0, 1, 2, 3))]
    r = None
    for s, (a, b, c, d) in terms:
        t = P(a, b, c, d)
        r = t if r is None else (r + t if s > 0 else r - t)
    return r


def _lanes(lo, hi, mask):
    return SV([lo[mask[0]], lo[mask[1]], hi[mask[2]], hi[mask[3]]])


def _ew(a, b, f):
    return SV([f(x, y) for x, y in zip(a.e, b.e)])


def inverted4_mirror(m):
    """mirror of mat.rs Mat4::inverted at the granularity of its callee contracts (a proof artifact:
    Verus checks it against the real body, z3-nlsat proves it equal to adj/det).
    m: the four stored vectors (rows or columns).  returns (four result vectors, det_m expression)"""
    import shufcore as S
    mul = lambda p, q: S.flat_rows(S.m2rows(p) @ S.m2rows(q))
    adj_mul = lambda p, q: S.flat_rows(S.m2rows(p).adj() @ S.m2rows(q))
    mul_adj = lambda p, q: S.flat_rows(S.m2rows(p) @ S.m2rows(q).adj())
    a = SV([m[0][0], m[0][1], m[1][0], m[1][1]])
    b = SV([m[0][2], m[0][3], m[1][2], m[1][3]])
    c = SV([m[2][0], m[2][1], m[3][0], m[3][1]])
    d = SV([m[2][2], m[2][3], m[3][2], m[3][3]])
    bc = lambda x: SV([x, x, x, x])
    det_a = bc(m[0][0] * m[1][1] - m[0][1] * m[1][0])
    det_b = bc(m[0][2] * m[1][3] - m[0][3] * m[1][2])
    det_c = bc(m[2][0] * m[3][1] - m[2][1] * m[3][0])
    det_d = bc(m[2][2] * m[3][3] - m[2][3] * m[3][2])
    d_c = adj_mul(d, c)
    a_b = adj_mul(a, b)
    mulv = lambda p, q: _ew(p, q, lambda x, y: x * y)
    subv = lambda p, q: _ew(p, q, lambda x, y: x - y)
    addv = lambda p, q: _ew(p, q, lambda x, y: x + y)
    x_ = subv(mulv(det_d, a), mul(b, d_c))
    w_ = subv(mulv(det_a, d), mul(c, a_b))
    y_ = subv(mulv(det_b, c), mul_adj(d, a_b))
    z_ = subv(mulv(det_c, b), mul_adj(a, d_c))
    tr = mulv(a_b, _lanes(d_c, d_c, (0, 2, 1, 3)))
    hadd = lambda p, q: SV([p[0] + p[1], p[2] + p[3], q[0] + q[1], q[2] + q[3]])
    tr = hadd(tr, tr)
    tr = hadd(tr, tr)
    det_m = subv(addv(mulv(det_a, det_d), mulv(det_b, det_c)), tr)
    one = X.const(1)
    sign = SV([one, -one, -one, one])
    r = _ew(sign, det_m, lambda s, dm: s / dm)
    x_, y_, z_, w_ = mulv(x_, r), mulv(y_, r), mulv(z_, r), mulv(w_, r)
    out = [_lanes(x_, y_, (3, 1, 3, 1)), _lanes(x_, y_, (2, 0, 2, 0)), _lanes(z_, w_, (3, 1, 3, 1)),
           _lanes(z_, w_, (2, 0, 2, 0))]
    return out, det_m


def inverted4_lemmas(ms, prop='C06'):
    """(lemmas, prologue text) bridging Mat4::inverted's block algorithm to adj/det"""
    import lemma as L
    n = 4
    A = SM.params('m', n)
    if ms.layout == 'rows':
        stored = [SV([A[i, j] for j in range(n)]) for i in range(n)]
    else:
        stored = [SV([A[i, j] for i in range(n)]) for j in range(n)]
    out, det_m = inverted4_mirror(stored)
    res = (lambda i, j: out[i][j]) if ms.layout == 'rows' else (lambda i, j: out[j][i])
    det = A.det()
    nm = 'inv4_%s' % ms.layout
    l1 = L.Lemma('lemma_%s_det' % nm, A.flat(), [], [det_m[k].eq(det) for k in range(4)],
                 doc='the block-wise determinant computed by Mat4::inverted equals the cofactor expansion')
    I = inv_spec(A)
    l2 = L.Lemma('lemma_%s_adj' % nm, A.flat(), [det.ne(0)] + [det_m[k].ne(0) for k in range(4)],
                 [res(i, j).eq(I[i, j]) for i in range(n) for j in range(n)],
                 doc='every entry produced by the 2x2-block inverse equals adj(M)(i,j)/det(M)')
    Au = SM.of(ms, 'self')
    args = ', '.join(X.verus(x) for x in Au.flat())
    pro = ('proof { crate::%s(%s); if %s != 0real { crate::%s(%s); } }'
           % (l1.name, args, X.verus(Au.det()), l2.name, args))
    return [l1, l2], pro


# ------------------------------------------------------------------ theorem functions (Layer 2 glue)
def thm_fn(name, params, requires, body, asserts, tagprefix):
    """an exec `theorem` function: calls the real API and asserts the property; verified modularly
    against the callee contracts (+ the arithmetic lemmas it invokes)"""
    s = '// @fn thm/%s\npub fn %s(%s)\n' % (name, name, ', '.join(params))
    if requires:
        s += '    requires\n' + ''.join('        %s,\n' % r for r in requires)
    s += '{\n' + body + '\n'
    for k, a in enumerate(asserts):
        s += '    assert(%s); // @thm %s/%s.%d\n' % (a, tagprefix, name, k)
    s += '}\n'
    if requires:
        # reachability twin: same preconditions and body; `assert(false)` must fail (the driver checks that it does)
        s += '// @fn thm/%s__reach\npub fn %s__reach(%s)\n    requires\n' % (name, name, ', '.join(params))
        s += ''.join('        %s,\n' % r for r in requires)
        s += '{\n' + body + '\n    assert(false); // @probe reach:%s\n}\n' % name
    return s


def lemma_args(sm):
    return ', '.join(X.verus(x) for x in sm.flat())


def c06_theorems(u, prop='C06'):
    """returns the list of lemmas; adds theorem fns to the unit"""
    import lemma as L
    lemmas = []
    for n in (2, 3, 4):
        A, B = SM.params('a', n), SM.params('b', n)
        lm_t = L.Lemma('lemma_det%d_transpose' % n, A.flat(), [], [A.T().det().eq(A.det())], doc='det(M^T) == det(M)')
        lm_m = L.Lemma('lemma_det%d_mul' % n, A.flat() + B.flat(), [], [(A @ B).det().eq(A.det() * B.det())],
                       doc='det(A*B) == det(A)*det(B)')
        lemmas += [lm_t, lm_m]
        for layout in ('rows', 'cols'):
            ms = mat(n, layout)
            o = other(ms)
            Au, Bu = SM.of(ms, 'a'), SM.of(ms, 'b')
            T = '%s<R>' % ms.name
            body = ('    let t = a.transposed();\n    let dt = t.determinant();\n    let da = a.determinant();\n'
                    '    let o = Transpose::from(a);\n    let d_o = o.determinant();\n'
                    '    let p = a * b;\n    let dp = p.determinant();\n    let db = b.determinant();\n'
                    '    proof { crate::%s(%s); crate::%s(%s, %s); }'
                    % (lm_t.name, lemma_args(Au), lm_m.name, lemma_args(Au), lemma_args(Bu)))
            u.add(ms.path, thm_fn('thm_det_%s%d' % (layout, n), ['a: %s' % T, 'b: %s' % T], [], body,
                                  ['dt.v@ == da.v@', 'd_o.v@ == da.v@', 'dp.v@ == da.v@ * db.v@'], prop))
    # two-sided inverse, 4x4
    A = SM.params('m', 4)
    I = inv_spec(A)
    Id = SM.identity(4)
    lm_r = L.Lemma('lemma_inv4_right', A.flat(), [A.det().ne(0)], (A @ I).eqs(Id), doc='M * (adj M / det M) == I')
    lm_l = L.Lemma('lemma_inv4_left', A.flat(), [A.det().ne(0)], (I @ A).eqs(Id), doc='(adj M / det M) * M == I')
    lemmas += [lm_r, lm_l]
    for layout in ('rows', 'cols'):
        ms = mat(4, layout)
        Mu = SM.of(ms, 'm')
        T = '%s<R>' % ms.name
        body = ('    let inv = m.inverted();\n    let p = m * inv;\n    let q = inv * m;\n'
                '    proof { crate::lemma_inv4_right(%s); crate::lemma_inv4_left(%s); }' % (lemma_args(Mu), lemma_args(Mu)))
        asserts = ['%s.v@ == %dreal' % (ms.at('p', i, j), 1 if i == j else 0) for i in range(4) for j in range(4)]
        asserts += ['%s.v@ == %dreal' % (ms.at('q', i, j), 1 if i == j else 0) for i in range(4) for j in range(4)]
        u.add(ms.path, thm_fn('thm_inverse_%s' % layout, ['m: %s' % T], ['%s != 0real' % X.verus(Mu.det())],
                              body, asserts, prop))
    lemmas += fast_inverse_theorems(u, prop)
    for lm in lemmas:
        u.add_root(lm.verus_text(prop))
    return lemmas


def fast_inverse_theorems(u, prop='C06'):
    """the rigid (rotation + translation) and TRS fast inverses really invert, on the class of matrices they are documented for"""
    import lemma as L
    A = SM.params('m', 4)
    Id = SM.identity(4)
    aff = [A[3, j].eq(1 if j == 3 else 0) for j in range(4)]
    col = lambda M, i: [M[k, i] for k in range(3)]
    dotc = lambda M, i, j: X.sum_([M[k, i] * M[k, j] for k in range(3)])
    ortho = [dotc(A, i, j).eq(1 if i == j else 0) for i in range(3) for j in range(i, 3)]
    RI = rigid_inverse_spec(A)
    lm_rl = L.Lemma('lemma_rigid_inverse_left', A.flat(), aff + ortho, (RI @ A).eqs(Id),
                    doc='[R^T | -R^T t] * [R | t] == I for orthonormal R')
    # right inverse: uses R R^T = I as well (equivalent to R^T R = I for square R; stated as a hypothesis to keep the goal polynomial)
    rowo = [X.sum_([A[i, k] * A[j, k] for k in range(3)]).eq(1 if i == j else 0) for i in range(3) for j in range(i, 3)]
    ARI = A @ RI
    rowdot = lambda M, i, j: X.sum_([M[i, k] * M[j, k] for k in range(3)])
    lm_rr = L.Lemma('lemma_rigid_inverse_right', A.flat(), aff + ortho + rowo,
                    [ARI[i, j].eq(Id[i, j]) for i in range(4) for j in range(4) if not (j == 3 and i < 3)],
                    doc='[R | t] * [R^T | -R^T t] == I for orthonormal R (all entries but the translation column)')
    lm_rt = L.Lemma('lemma_rigid_inverse_right_t', A.flat(), [],
                    [ARI[i, 3].eq(A[i, 3] * X.const(1) - X.sum_([rowdot(A, i, j) * A[j, 3] for j in range(3)])) for i in range(3)],
                    doc='translation column of [R | t] * [R^T | -R^T t]: t - (R R^T) t, re-associated (identity)')
    sv = [X.var('s%d' % i) for i in range(3)]
    AI = affine_inverse_spec(A, sv)
    orth2 = [dotc(A, i, j).eq(0) for i in range(3) for j in range(i + 1, 3)]
    sdef = [sv[i].eq(dotc(A, i, i)) for i in range(3)] + [sv[i].ne(0) for i in range(3)]
    lm_al = L.Lemma('lemma_affine_inverse_left', A.flat() + sv, aff + orth2 + sdef, (AI @ A).eqs(Id),
                    doc='rows of A^T divided by the squared column lengths invert [A | t] when the columns of A are mutually orthogonal')
    out = [lm_rl, lm_rr, lm_rt, lm_al]
    for layout in ('rows', 'cols'):
        ms = mat(4, layout)
        Mu = SM.of(ms, 'm')
        T = '%s<R>' % ms.name
        affu = [affine_last_row(ms, 'm')]
        orthu = ['%s == %dreal' % (X.verus(dotc(Mu, i, j)), 1 if i == j else 0) for i in range(3) for j in range(i, 3)]
        rowu = ['%s == %dreal' % (X.verus(X.sum_([Mu[i, k] * Mu[j, k] for k in range(3)])), 1 if i == j else 0)
                for i in range(3) for j in range(i, 3)]
        body = ('    let inv = m.inverted_affine_transform_no_scale();\n    let q = inv * m;\n    let p = m * inv;\n'
                '    let mut m2 = m;\n    m2.invert_affine_transform_no_scale();\n'
                '    proof { crate::lemma_rigid_inverse_left(%s); crate::lemma_rigid_inverse_right(%s); crate::lemma_rigid_inverse_right_t(%s); }'
                % (lemma_args(Mu), lemma_args(Mu), lemma_args(Mu)))
        asserts = ['%s.v@ == %dreal' % (ms.at('q', i, j), 1 if i == j else 0) for i in range(4) for j in range(4)]
        asserts += ['%s.v@ == %dreal' % (ms.at('p', i, j), 1 if i == j else 0) for i in range(4) for j in range(4)]
        asserts += ['%s.v@ == %s.v@' % (ms.at('m2', i, j), ms.at('inv', i, j)) for i in range(4) for j in range(4)]
        u.add(ms.path, thm_fn('thm_rigid_inverse_%s' % layout, ['m: %s' % T], affu + orthu + rowu, body, asserts, prop))
        # TRS: mutually orthogonal columns whose squared lengths are not negligible
        o2 = ['%s == 0real' % X.verus(dotc(Mu, i, j)) for i in range(3) for j in range(i + 1, 3)]
        big = ['abs_r(%s) > eps_r()' % X.verus(dotc(Mu, i, i)) for i in range(3)]
        body = ('    let inv = m.inverted_affine_transform();\n    let q = inv * m;\n'
                '    proof { axiom_eps(); crate::lemma_affine_inverse_left(%s, %s); }'
                % (lemma_args(Mu), ', '.join(X.verus(dotc(Mu, i, i)) for i in range(3))))
        asserts = ['%s.v@ == %dreal' % (ms.at('q', i, j), 1 if i == j else 0) for i in range(4) for j in range(4)]
        u.add(ms.path, thm_fn('thm_affine_inverse_%s' % layout, ['m: %s' % T], affu + o2 + big, body, asserts, prop))
    return out


def det4_shape_lemma():
    import lemma as L
    Pm = SM.params('m', 4)
    return L.Lemma('lemma_det4_shape', Pm.flat(), [], [det4_code_shape(Pm).eq(Pm.det())],
                   doc='the 24 signed products written in mat.rs equal the cofactor (Leibniz) expansion')


def add_determinant_any(u, ms):
    """determinant for any size (4x4 through the shape-bridge lemma, which the unit must add at root)"""
    if ms.n < 4:
        add_determinant(u, ms)
        return
    A = SM.of(ms, 'self')
    u.take(ms.path, 'impl<T>Mat4<T>', 'determinant', C(
        ensures=['res.v@ == ' + X.verus(A.det())],
        prologue='proof { crate::lemma_det4_shape(%s); }' % lemma_args(A)))


# ------------------------------------------------------------------ C06: rigid / affine fast inverses
def affine_last_row(ms, m):
    return ' && '.join('%s.v@ == %dreal' % (ms.at(m, 3, j), 1 if j == 3 else 0) for j in range(4))


def rigid_inverse_spec(A):
    """[R^T | -R^T t ; 0 0 0 1] for A = [R | t ; 0 0 0 1]"""
    e = [[None] * 4 for _ in range(4)]
    for i in range(3):
        for j in range(3):
            e[i][j] = A[j, i]
        e[i][3] = -X.sum_([A[k, i] * A[k, 3] for k in range(3)])
    for j in range(4):
        e[3][j] = X.const(1 if j == 3 else 0)
    return SM(e)


def affine_inverse_spec(A, S):
    """row i of R^T divided by S_i (the squared length of column i, or 1 when negligible)"""
    e = [[None] * 4 for _ in range(4)]
    for i in range(3):
        for j in range(3):
            e[i][j] = A[j, i] / S[i]
        e[i][3] = -X.sum_([(A[k, i] / S[i]) * A[k, 3] for k in range(3)])
    for j in range(4):
        e[3][j] = X.const(1 if j == 3 else 0)
    return SM(e)


CLOSURE_EPS = ('|x|', '|x: R| -> (r: R) ensures r.v@ == (if abs_r(x.v@) > epsilon.v@ { x.v@ } else { 1real })', '')


def add_affine_inverses(u, ms):
    P, N = ms.path, ms.name
    gh = 'impl<T>Mat4<T>'
    V4 = VEC['Vec4']
    u.take(V4.path, 'impl<T>Vec4<T>', 'unit_w', C(ensures=['res.x.v@ == 0real', 'res.y.v@ == 0real', 'res.z.v@ == 0real', 'res.w.v@ == 1real']))
    u.take(V4.path, 'impl<T>Vec4<T>', 'map', C(requires=['forall|x: T| call_requires(f, (x,))'],
                                               ensures=['call_ensures(f, (self.%s,), res.%s)' % (x, x) for x in V4.fields]), mode='G')
    A = SM.of(ms, 'self')
    aff = affine_last_row(ms, 'self')
    pro = 'proof { crate::vec::lemma_sm_new_all(); }'
    u.take(P, gh, 'inverted_affine_transform_no_scale', C(
        ensures=['(%s) ==> %s' % (aff, e) for e in eq_all(ms, 'res', rigid_inverse_spec(A))], prologue=pro))
    Ao = SM.of(ms, 'old(self)')
    u.take(P, gh, 'invert_affine_transform_no_scale', C(
        ret=None, ensures=['(%s) ==> %s' % (affine_last_row(ms, 'old(self)'), e) for e in eq_all(ms, 'final(self)', rigid_inverse_spec(Ao))]))
    sv = [X.var('s%d' % i, verus='s%d' % i) for i in range(3)]
    lets = ' '.join('let c%d = %s; let s%d = if abs_r(c%d) > eps_r() { c%d } else { 1real };'
                    % (i, X.verus(X.sum_([A[k, i] * A[k, i] for k in range(3)])), i, i, i) for i in range(3))
    spec = affine_inverse_spec(A, sv)
    ens = ['({ %s (%s) ==> %s })' % (lets, aff, e) for e in eq_all(ms, 'res', spec)]
    u.take(P, gh, 'inverted_affine_transform', C(ensures=ens, prologue='proof { crate::vec::lemma_sm_new_all(); axiom_eps(); }',
                                                 closures=[CLOSURE_EPS]))
    lets_o = ' '.join('let c%d = %s; let s%d = if abs_r(c%d) > eps_r() { c%d } else { 1real };'
                      % (i, X.verus(X.sum_([Ao[k, i] * Ao[k, i] for k in range(3)])), i, i, i) for i in range(3))
    u.take(P, gh, 'invert_affine_transform', C(
        ret=None, ensures=['({ %s (%s) ==> %s })' % (lets_o, affine_last_row(ms, 'old(self)'), e)
                           for e in eq_all(ms, 'final(self)', affine_inverse_spec(Ao, sv))]))
    u.take(P, gh, 'invert', C(ret=None, ensures=['%s != 0real ==> %s' % (X.verus(Ao.det()), e) for e in
                                                eq_all(ms, 'final(self)', inv_spec(Ao))]))
