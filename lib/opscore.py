"""vek::ops — Clamp / IsBetween / Wrap / Lerp / Slerp traits (default methods) and their f32 impls with f32 := R."""
from extract import Contract as C
from xparse import norm

P = 'ops'
F = ('f32',)     # the `f32` expansion of the float macros is instantiated with the exact scalar


def ext(fnname):
    return C(ret=None, external_body=True, tag='ops/' + fnname)


def add_partial_minmax(u):
    u.take_free_fn(P, 'partial_min', C(ensures=['res.v@ == min_r(a.v@, b.v@)'], tag='ops/partial_min'), mode='R')
    u.take_free_fn(P, 'partial_max', C(ensures=['res.v@ == max_r(a.v@, b.v@)'], tag='ops/partial_max'), mode='R')


CLAMP_EXTRA = '''spec fn clamped_req(self, lower: Bound, upper: Bound) -> bool;
spec fn clamped_spec(self, lower: Bound, upper: Bound) -> Self;'''
ISB_EXTRA = '''spec fn is_between_req(self, lower: Bound, upper: Bound) -> bool;
spec fn is_between_spec(self, lower: Bound, upper: Bound) -> Self::Output;'''
WRAP_EXTRA = '''spec fn wrapped_req(self, upper: Bound) -> bool;
spec fn wrapped_spec(self, upper: Bound) -> Self;
spec fn wrapped_between_req(self, lower: Bound, upper: Bound) -> bool;
spec fn wrapped_between_spec(self, lower: Bound, upper: Bound) -> Self;
spec fn pingpong_req(self, upper: Bound) -> bool;
spec fn pingpong_spec(self, upper: Bound) -> Self;'''
LERP_EXTRA = '''spec fn lerp_spec(from: Self, to: Self, factor: Factor) -> Self::Output;
spec fn lerp_req(from: Self, to: Self, factor: Factor) -> bool;'''
SLERP_EXTRA = '''spec fn slerp_spec(from: Self, to: Self, factor: Factor) -> Self::Output;
spec fn slerp_req(from: Self, to: Self, factor: Factor) -> bool;'''


def add_traits(u, which=('Clamp', 'IsBetween', 'Wrap', 'Lerp', 'Slerp')):
    if 'Clamp' in which:
        u.trait_extra[(P, 'Clamp')] = CLAMP_EXTRA
        z, o = 'Bound::zero_spec()', 'Bound::one_spec()'
        u.take_trait(P, 'Clamp', {
            'clamped': C(requires=['self.clamped_req(lower, upper)'], ensures=['res == self.clamped_spec(lower, upper)']),
            'clamp': C(requires=['val.clamped_req(lower, upper)'], ensures=['res == val.clamped_spec(lower, upper)']),
            'clamped01': C(requires=['self.clamped_req(%s, %s)' % (z, o)], ensures=['res == self.clamped_spec(%s, %s)' % (z, o)]),
            'clamp01': C(requires=['val.clamped_req(%s, %s)' % (z, o)], ensures=['res == val.clamped_spec(%s, %s)' % (z, o)]),
            'clamped_minus1_1': C(requires=['Bound::obeys_neg_spec()', '%s.neg_req()' % o, 'self.clamped_req(%s.neg_spec(), %s)' % (o, o)],
                                  ensures=['res == self.clamped_spec(%s.neg_spec(), %s)' % (o, o)]),
            'clamp_minus1_1': C(requires=['Bound::obeys_neg_spec()', '%s.neg_req()' % o, 'val.clamped_req(%s.neg_spec(), %s)' % (o, o)],
                                ensures=['res == val.clamped_spec(%s.neg_spec(), %s)' % (o, o)]),
            'clamped_to_inclusive_range': ext('Clamp::clamped_to_inclusive_range'),
            'clamp_to_inclusive_range': ext('Clamp::clamp_to_inclusive_range'),
        })
    if 'IsBetween' in which:
        u.trait_extra[(P, 'IsBetween')] = ISB_EXTRA
        z, o = 'Bound::zero_spec()', 'Bound::one_spec()'
        u.take_trait(P, 'IsBetween', {
            'is_between': C(requires=['self.is_between_req(lower, upper)'], ensures=['res == self.is_between_spec(lower, upper)']),
            'is_between01': C(requires=['self.is_between_req(%s, %s)' % (z, o)], ensures=['res == self.is_between_spec(%s, %s)' % (z, o)]),
            'is_between_inclusive_range_bounds': ext('IsBetween::is_between_inclusive_range_bounds'),
        })
    if 'Lerp' in which:
        u.trait_extra[(P, 'Lerp')] = LERP_EXTRA
        u.take_trait(P, 'Lerp', {
            'lerp_unclamped': C(requires=['Self::lerp_req(from, to, factor)'], ensures=['res == Self::lerp_spec(from, to, factor)']),
            'lerp_unclamped_precise': C(requires=['Self::lerp_req(from, to, factor)'], ensures=['res == Self::lerp_spec(from, to, factor)']),
            'lerp': C(requires=['factor.clamped_req(Factor::zero_spec(), Factor::one_spec())',
                                'Self::lerp_req(from, to, factor.clamped_spec(Factor::zero_spec(), Factor::one_spec()))'],
                      ensures=['res == Self::lerp_spec(from, to, factor.clamped_spec(Factor::zero_spec(), Factor::one_spec()))']),
            'lerp_precise': C(requires=['factor.clamped_req(Factor::zero_spec(), Factor::one_spec())',
                                        'Self::lerp_req(from, to, factor.clamped_spec(Factor::zero_spec(), Factor::one_spec()))'],
                              ensures=['res == Self::lerp_spec(from, to, factor.clamped_spec(Factor::zero_spec(), Factor::one_spec()))']),
            'lerp_unclamped_inclusive_range': ext('Lerp::lerp_unclamped_inclusive_range'),
            'lerp_unclamped_precise_inclusive_range': ext('Lerp::lerp_unclamped_precise_inclusive_range'),
            'lerp_inclusive_range': ext('Lerp::lerp_inclusive_range'),
            'lerp_precise_inclusive_range': ext('Lerp::lerp_precise_inclusive_range'),
        })
    if 'Slerp' in which:
        u.trait_extra[(P, 'Slerp')] = SLERP_EXTRA
        u.take_trait(P, 'Slerp', {
            'slerp_unclamped': C(requires=['Self::slerp_req(from, to, factor)'], ensures=['res == Self::slerp_spec(from, to, factor)']),
            'slerp': C(requires=['factor.clamped_req(Factor::zero_spec(), Factor::one_spec())',
                                 'Self::slerp_req(from, to, factor.clamped_spec(Factor::zero_spec(), Factor::one_spec()))'],
                       ensures=['res == Self::slerp_spec(from, to, factor.clamped_spec(Factor::zero_spec(), Factor::one_spec()))']),
        })
    if 'Wrap' in which:
        u.trait_extra[(P, 'Wrap')] = WRAP_EXTRA
        u.take_trait(P, 'Wrap', {
            'wrapped': C(requires=['self.wrapped_req(upper)'], ensures=['res == self.wrapped_spec(upper)']),
            'wrap': C(requires=['val.wrapped_req(upper)'], ensures=['res == val.wrapped_spec(upper)']),
            'wrapped_between': C(requires=['self.wrapped_between_req(lower, upper)'], ensures=['res == self.wrapped_between_spec(lower, upper)']),
            'wrap_between': C(requires=['val.wrapped_between_req(lower, upper)'], ensures=['res == val.wrapped_between_spec(lower, upper)']),
            'pingpong': C(requires=['self.pingpong_req(upper)'], ensures=['res == self.pingpong_spec(upper)']),
            'wrapped_2pi': ext('Wrap::wrapped_2pi'), 'wrap_2pi': ext('Wrap::wrap_2pi'),
            'delta_angle': ext('Wrap::delta_angle'), 'delta_angle_degrees': ext('Wrap::delta_angle_degrees'),
        })


def clamp_r(v, lo, hi):
    return '(if %s < %s { %s } else if %s > %s { %s } else { %s })' % (v, lo, lo, v, hi, hi, v)


def add_float_impls(u, which=('Clamp', 'IsBetween', 'Lerp')):
    """the f32 expansion with f32 := R (exact arithmetic)"""
    if 'Clamp' in which:
        add_partial_minmax(u)
        h = 'impl Clamp for f32'
        u.impl_extra[(P, norm(h))] = ('open spec fn clamped_req(self, lower: R, upper: R) -> bool { lower.v@ <= upper.v@ }\n'
                                      'open spec fn clamped_spec(self, lower: R, upper: R) -> R { rr(%s) }'
                                      % clamp_r('self.v@', 'lower.v@', 'upper.v@'))
        u.take_impl(P, h, {'clamped': C(ensures=['res.v@ == ' + clamp_r('self.v@', 'lower.v@', 'upper.v@')])}, tparams=F)
    if 'IsBetween' in which:
        h = 'impl IsBetween for f32'
        u.impl_extra[(P, norm(h))] = ('open spec fn is_between_req(self, lower: R, upper: R) -> bool { lower.v@ <= upper.v@ }\n'
                                      'open spec fn is_between_spec(self, lower: R, upper: R) -> bool { lower.v@ <= self.v@ && self.v@ <= upper.v@ }')
        u.take_impl(P, h, {'is_between': C(ensures=['res == (lower.v@ <= self.v@ && self.v@ <= upper.v@)'])}, tparams=F)
    if 'Lerp' in which:
        h = 'impl Lerp<f32> for f32'
        u.impl_extra[(P, norm(h))] = ('open spec fn lerp_req(from: R, to: R, factor: R) -> bool { true }\n'
                                      'open spec fn lerp_spec(from: R, to: R, factor: R) -> R { rr(from.v@ + factor.v@ * (to.v@ - from.v@)) }')
        u.take_impl(P, h, {'lerp_unclamped': C(ensures=['res.v@ == from.v@ + factor.v@ * (to.v@ - from.v@)']),
                           'lerp_unclamped_precise': C(ensures=['res.v@ == from.v@ + factor.v@ * (to.v@ - from.v@)'],
                                                       prologue='proof { crate::lemma_lerp_precise(from.v@, to.v@, factor.v@); }')}, tparams=F)
        h2 = "impl<'a> Lerp<f32> for &'a f32"
        u.impl_extra[(P, norm(h2))] = ('open spec fn lerp_req(from: Self, to: Self, factor: R) -> bool { true }\n'
                                       'open spec fn lerp_spec(from: Self, to: Self, factor: R) -> R { rr(from.v@ + factor.v@ * (to.v@ - from.v@)) }')
        u.take_impl(P, h2, {'lerp_unclamped': C(ensures=['res.v@ == from.v@ + factor.v@ * (to.v@ - from.v@)']),
                            'lerp_unclamped_precise': C(ensures=['res.v@ == from.v@ + factor.v@ * (to.v@ - from.v@)'])}, tparams=F)
        u.add_root(lerp_lemma().verus_text('ops'))
        u.extra_lemmas = getattr(u, 'extra_lemmas', []) + [lerp_lemma()]
    if 'Wrap' in which:
        h = 'impl Wrap for f32'
        w = 'self.v@ - floor_r(self.v@ / upper.v@) * upper.v@'
        wb = '((self.v@ - lower.v@) - floor_r((self.v@ - lower.v@) / (upper.v@ - lower.v@)) * (upper.v@ - lower.v@)) + lower.v@'
        t = '(self.v@ - floor_r(self.v@ / (upper.v@ + upper.v@)) * (upper.v@ + upper.v@))'
        pp = 'upper.v@ - abs_r(%s - upper.v@)' % t
        u.impl_extra[(P, norm(h))] = (
            'open spec fn wrapped_req(self, upper: R) -> bool { upper.v@ > 0real }\n'
            'open spec fn wrapped_spec(self, upper: R) -> R { rr(%s) }\n'
            'open spec fn wrapped_between_req(self, lower: R, upper: R) -> bool { lower.v@ < upper.v@ && lower.v@ >= 0real && upper.v@ > 0real }\n'
            'open spec fn wrapped_between_spec(self, lower: R, upper: R) -> R { rr(%s) }\n'
            'open spec fn pingpong_req(self, upper: R) -> bool { upper.v@ > 0real }\n'
            'open spec fn pingpong_spec(self, upper: R) -> R { rr(%s) }' % (w, wb, pp))
        u.take_impl(P, h, {'wrapped': C(ensures=['res.v@ == ' + w]), 'wrapped_between': C(ensures=['res.v@ == ' + wb]),
                           'pingpong': C(ensures=['res.v@ == ' + pp],
                                         # D2: a ghost `ensures` on the closure (Verus needs closure contracts spelled out)
                                         closures=[('||', '|| -> (r: R) ensures r == upper', '')])},
                    tparams=F)


def lerp_lemma():
    import lemma as L
    from expr import var, const
    a, b, f = var('a'), var('b'), var('f')
    return L.Lemma('lemma_lerp_precise', [a, b, f], [], [(a * (const(1) - f) + b * f).eq(a + f * (b - a))],
                   doc='the precise and the fast lerp formula agree: a(1-f) + b f == a + f(b-a)')
