"""Rotation builders (mat.rs, quaternion.rs, vec.rs) — contracts from the textbook definitions."""
from extract import Contract as C
from xparse import norm
from shapes import VEC, mat
import expr as X
from expr import const, app
from sym import SM, SV, leaf
from matcore import eq_all, veq, other, lemma_args, thm_fn

V3 = VEC['Vec3']


def rot_axis_spec(n, k, c, s):
    """rotation about coordinate axis k (0=x,1=y,2=z), right-handed, as n x n (n = 3 or 4; n = 2 only k = 2)"""
    if n == 2:
        return SM([[c, -s], [s, c]])
    I = SM.identity(n)
    i, j = [(1, 2), (2, 0), (0, 1)][k]      # the plane that turns: e_i -> c e_i + s e_j
    e = [[I[a, b] for b in range(n)] for a in range(n)]
    e[i][i], e[i][j], e[j][i], e[j][j] = c, -s, s, c
    return SM(e)


def rodrigues_spec(n, c, s, ax):
    """c*I + s*[n]x + (1-c) n n^T for the unit axis `ax` (SV of 3), embedded in n x n"""
    oc = const(1) - c
    x, y, z = ax[0], ax[1], ax[2]
    cr = [[None, -z, y], [z, None, -x], [-y, x, None]]
    R = [[None] * 3 for _ in range(3)]
    for i in range(3):
        for j in range(3):
            t = (oc * ax[i]) * ax[j]
            if i == j:
                R[i][j] = t + c
            else:
                sg = cr[i][j]
                # s * (+-axis component)
                if sg.op == 'neg':
                    R[i][j] = t - sg.args[0] * s
                else:
                    R[i][j] = t + sg * s
    return SM(R).embed(n)


def unit_axis(text):
    """normalised axis as Layer 1 sees it: axis.into_spec() / sqrt(|axis|^2)"""
    a = SV.of(V3, text)
    mag = app('sqrt_r', a.norm2())
    return SV([x / mag for x in a.e]), a, mag


def add_mat_rotations(u, ms, only=None, axes_only=None):
    P, N, n = ms.path, ms.name, ms.n
    gh = 'impl<T>%s<T>' % N
    c = app('cos_r', leaf('angle_radians.v@'))
    s = app('sin_r', leaf('angle_radians.v@'))
    S = SM.of(ms, 'self')
    axes = (2,) if n == 2 else (0, 1, 2)
    if only:
        axes = ()
    if axes_only is not None:
        axes = tuple(a for a in axes if a in axes_only)
    for k in axes:
        nm = 'xyz'[k]
        Rk = rot_axis_spec(n, k, c, s)
        u.take(P, gh, 'rotation_' + nm, C(ensures=eq_all(ms, 'res', Rk)))
        u.take(P, gh, 'rotated_' + nm, C(ensures=eq_all(ms, 'res', Rk @ S)))
        So = SM.of(ms, 'old(self)')
        u.take(P, gh, 'rotate_' + nm, C(ret=None, ensures=eq_all(ms, 'final(self)', Rk @ So)))
    if n >= 3 and axes_only is None:
        ax, raw, mag = unit_axis('axis.into_spec()')
        R = rodrigues_spec(n, c, s, ax)
        req = ['V::obeys_into_spec()']
        u.take(P, gh, 'rotation_3d', C(requires=req, ensures=eq_all(ms, 'res', R)))
        if only:
            return
        u.take(P, gh, 'rotated_3d', C(requires=req, ensures=eq_all(ms, 'res', R @ S)))
        So = SM.of(ms, 'old(self)')
        u.take(P, gh, 'rotate_3d', C(ret=None, requires=req, ensures=eq_all(ms, 'final(self)', R @ So)))


def quat_from_axis_angle(ch, sh, ax):
    """(x,y,z,w) = (axis*sin(a/2), cos(a/2))"""
    return [ax[0] * sh, ax[1] * sh, ax[2] * sh, ch]


def mat_from_quat_spec(n, q):
    x, y, z, w = q
    two = const(2)
    R = [[const(1) - (two * (y * y)) - (two * (z * z)), ((two * x) * y) - ((two * z) * w), ((two * x) * z) + ((two * y) * w)],
         [((two * x) * y) + ((two * z) * w), const(1) - (two * (x * x)) - (two * (z * z)), ((two * y) * z) - ((two * x) * w)],
         [((two * x) * z) - ((two * y) * w), ((two * y) * z) + ((two * x) * w), const(1) - (two * (x * x)) - (two * (y * y))]]
    return SM(R).embed(n)


def hamilton(p, q):
    """Hamilton product of (x,y,z,w) quadruples, from the definition w = pw qw - pv.qv, v = pw qv + qw pv + pv x qv"""
    pv, qv = SV(p[:3]), SV(q[:3])
    pw, qw = p[3], q[3]
    cr = pv.cross(qv)
    v = [qv[i] * pw + pv[i] * qw + cr[i] for i in range(3)]
    w = pw * qw - pv.dot(qv)
    return v + [w]


QF = ['x', 'y', 'z', 'w']


def qleaf(text):
    return [leaf('%s.%s.v@' % (text, f)) for f in QF]


def qeq(res, q):
    return ['%s.%s.v@ == %s' % (res, f, X.verus(e)) for f, e in zip(QF, q)]


def add_quat_core(u):
    import veccore
    veccore.add_spatial_basic(u, V3)
    P = 'quaternion::repr_c'
    gh = 'impl<T>Quaternion<T>'
    u.take(P, gh, 'into_scalar_and_vec3', C(ensures=['res.0 == self.w', 'res.1.x == self.x', 'res.1.y == self.y',
                                                     'res.1.z == self.z']), mode='G')
    p, q = qleaf('self'), qleaf('rhs')
    u.take_impl(P, 'impl<T> Mul for Quaternion<T> where T: Copy + Mul<Output = T> + Sub<Output = T> + Zero + Add<T, Output = T>',
                {'mul': C(ensures=qeq('res', hamilton(p, q)))})
    u.take(P, gh, 'identity', C(ensures=['res.x.v@ == 0real', 'res.y.v@ == 0real', 'res.z.v@ == 0real', 'res.w.v@ == 1real']))


def add_quat_rotations(u):
    P = 'quaternion::repr_c'
    gh = 'impl<T>Quaternion<T>'
    half = leaf('angle_radians.v@') / const(2)
    ch, sh = app('cos_r', half), app('sin_r', half)
    ax, raw, mag = unit_axis('axis.into_spec()')
    q = quat_from_axis_angle(ch, sh, ax)
    req = ['V::obeys_into_spec()']
    u.take(P, gh, 'rotation_3d', C(requires=req, ensures=qeq('res', q)))
    S = qleaf('self')
    u.take(P, gh, 'rotated_3d', C(requires=req, ensures=qeq('res', hamilton(q, S))))
    So = qleaf('old(self)')
    u.take(P, gh, 'rotate_3d', C(ret=None, requires=req, ensures=qeq('final(self)', hamilton(q, So))))
    for k, nm in enumerate('xyz'):
        e = [const(1 if i == k else 0) for i in range(3)]
        qk = [e[0] * sh, e[1] * sh, e[2] * sh, ch]
        # the unit axis normalises to itself: 1/sqrt(1) -- stated through the sqrt axiom sqrt_r(1) == 1
        qk_simpl = [(sh if i == k else const(0)) for i in range(3)] + [ch]
        u.take(P, gh, 'rotation_' + nm, C(ensures=qeq('res', qk_simpl),
                                          prologue='proof { crate::pre::lemma_sqrt_one(); }'))
        u.take(P, gh, 'rotated_' + nm, C(ensures=qeq('res', hamilton(qk_simpl, S))))
        u.take(P, gh, 'rotate_' + nm, C(ret=None, ensures=qeq('final(self)', hamilton(qk_simpl, So))))


def add_mat_from_quat(u, ms):
    P, N, n = ms.path, ms.name, ms.n
    hdr = 'impl<T> From<Quaternion<T>> for %s<T> where T: Copy + Zero + One + Mul<Output = T> + Add<Output = T> + Sub<Output = T>' % N
    q = qleaf('q')
    u.take_impl(P, hdr, {'from': C(ensures=eq_all(ms, 'res', mat_from_quat_spec(n, q)))})
