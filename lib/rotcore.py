"""Rotation builders (mat.rs, quaternion.rs, vec.rs) — contracts from the textbook definitions."""
from extract import Contract as C
from xparse import norm
from shapes import VEC, mat
import expr as X
from expr import const, app
from sym import SM, SV, leaf
from matcore import eq_all, veq, other, lemma_args, thm_fn

V3 = VEC['Vec3']


def rot_axis_spec(n, k, c, s):
    """rotation about coordinate axis k (0=x,1=y,2=z), right-handed, as n x n (n = 3 or 4; n = 2 only k = 2)"""
    if n == 2:
        return SM([[c, -s], [s, c]])
    I = SM.identity(n)
    i, j = [(1, 2), (2, 0), (0, 1)][k]      # the plane that turns: e_i -> c e_i + s e_j
    e = [[I[a, b] for b in range(n)] for a in range(n)]
    e[i][i], e[i][j], e[j][i], e[j][j] = c, -s, s, c
    return SM(e)


def rodrigues_spec(n, c, s, ax):
    """c*I + s*[n]x + (1-c) n n^T for the unit axis `ax` (SV of 3), embedded in n x n"""
    oc = const(1) - c
    x, y, z = ax[0], ax[1], ax[2]
    cr = [[None, -z, y], [z, None, -x], [-y, x, None]]
    R = [[None] * 3 for _ in range(3)]
    for i in range(3):
        for j in range(3):
            t = (oc * ax[i]) * ax[j]
            if i == j:
                R[i][j] = t + c
            else:
                sg = cr[i][j]
                # s * (+-axis component)
                if sg.op == 'neg':
                    R[i][j] = t - sg.args[0] * s
                else:
                    R[i][j] = t + sg * s
    return SM(R).embed(n)


def unit_axis(text):
    """normalised axis as Layer 1 sees it: axis.into_spec() / sqrt(|axis|^2)"""
    a = SV.of(V3, text)
    mag = app('sqrt_r', a.norm2())
    return SV([x / mag for x in a.e]), a, mag


def add_mat_rotations(u, ms, only=None, axes_only=None):
    P, N, n = ms.path, ms.name, ms.n
    gh = 'impl<T>%s<T>' % N
    c = app('cos_r', leaf('angle_radians.v@'))
    s = app('sin_r', leaf('angle_radians.v@'))
    S = SM.of(ms, 'self')
    axes = (2,) if n == 2 else (0, 1, 2)
    if only:
        axes = ()
    if axes_only is not None:
        axes = tuple(a for a in axes if a in axes_only)
    for k in axes:
        nm = 'xyz'[k]
        Rk = rot_axis_spec(n, k, c, s)
        u.take(P, gh, 'rotation_' + nm, C(ensures=eq_all(ms, 'res', Rk)))
        u.take(P, gh, 'rotated_' + nm, C(ensures=eq_all(ms, 'res', Rk @ S)))
        So = SM.of(ms, 'old(self)')
        u.take(P, gh, 'rotate_' + nm, C(ret=None, ensures=eq_all(ms, 'final(self)', Rk @ So)))
    if n >= 3 and axes_only is None:
        ax, raw, mag = unit_axis('axis.into_spec()')
        R = rodrigues_spec(n, c, s, ax)
        req = ['V::obeys_into_spec()']
        u.take(P, gh, 'rotation_3d', C(requires=req, ensures=eq_all(ms, 'res', R)))
        if only:
            return
        u.take(P, gh, 'rotated_3d', C(requires=req, ensures=eq_all(ms, 'res', R @ S)))
        So = SM.of(ms, 'old(self)')
        u.take(P, gh, 'rotate_3d', C(ret=None, requires=req, ensures=eq_all(ms, 'final(self)', R @ So)))


def quat_from_axis_angle(ch, sh, ax):
    """(x,y,z,w) = (axis*sin(a/2), cos(a/2))"""
    return [ax[0] * sh, ax[1] * sh, ax[2] * sh, ch]


def mat_from_quat_spec(n, q):
    x, y, z, w = q
    two = const(2)
    R = [[const(1) - (two * (y * y)) - (two * (z * z)), ((two * x) * y) - ((two * z) * w), ((two * x) * z) + ((two * y) * w)],
         [((two * x) * y) + ((two * z) * w), const(1) - (two * (x * x)) - (two * (z * z)), ((two * y) * z) - ((two * x) * w)],
         [((two * x) * z) - ((two * y) * w), ((two * y) * z) + ((two * x) * w), const(1) - (two * (x * x)) - (two * (y * y))]]
    return SM(R).embed(n)


def hamilton(p, q):
    """Hamilton product of (x,y,z,w) quadruples, from the definition w = pw qw - pv.qv, v = pw qv + qw pv + pv x qv"""
    pv, qv = SV(p[:3]), SV(q[:3])
    pw, qw = p[3], q[3]
    cr = pv.cross(qv)
    v = [qv[i] * pw + pv[i] * qw + cr[i] for i in range(3)]
    w = pw * qw - pv.dot(qv)
    return v + [w]


QF = ['x', 'y', 'z', 'w']


def qleaf(text):
    return [leaf('%s.%s.v@' % (text, f)) for f in QF]


def qeq(res, q):
    return ['%s.%s.v@ == %s' % (res, f, X.verus(e)) for f, e in zip(QF, q)]


def add_quat_core(u):
    import veccore
    veccore.add_spatial_basic(u, V3)
    P = 'quaternion::repr_c'
    gh = 'impl<T>Quaternion<T>'
    u.take(P, gh, 'into_scalar_and_vec3', C(ensures=['res.0 == self.w', 'res.1.x == self.x', 'res.1.y == self.y',
                                                     'res.1.z == self.z']), mode='G')
    # destructuring conversions (pure element movement): scalar + vector, xyzw, Vec4, Vec3
    u.take(P, gh, 'from_xyzw', C(ensures=['res.x == x', 'res.y == y', 'res.z == z', 'res.w == w']), mode='G')
    u.take(P, gh, 'from_scalar_and_vec3', C(requires=['V::obeys_into_spec()'],
                                            ensures=['res.w == pair.0', 'res.x == pair.1.into_spec().x', 'res.y == pair.1.into_spec().y',
                                                     'res.z == pair.1.into_spec().z']), mode='G')
    for hdr, arg, flds in (('impl<T> From<Vec4<T>> for Quaternion<T>', 'v', 'xyzw'), ('impl<T> From<Quaternion<T>> for Vec4<T>', 'v', 'xyzw'),
                           ('impl<T> From<Quaternion<T>> for Vec3<T>', 'v', 'xyz')):
        if u.exp.impls(P, hdr):
            f = u.exp.find_fn(P, hdr, 'from')[1]
            import re as _re
            an = _re.search(r'from\s*\(\s*(\w+)\s*:', ' '.join(f.header.split())).group(1)
            u.take_impl(P, hdr, {'from': C(ensures=['res.%s == %s.%s' % (c, an, c) for c in flds])}, mode='G')
    if u.exp.impls(P, 'impl<T> From<Vec4<T>> for Quaternion<T>'):
        u.take(P, gh, 'into_vec4', C(ensures=['res.%s == self.%s' % (c, c) for c in 'xyzw']), mode='G')
        u.take(P, gh, 'from_vec4', C(ensures=['res.%s == v.%s' % (c, c) for c in 'xyzw']), mode='G')
        u.take(P, gh, 'into_vec3', C(ensures=['res.%s == self.%s' % (c, c) for c in 'xyz']), mode='G')
    p, q = qleaf('self'), qleaf('rhs')
    u.take_impl(P, 'impl<T> Mul for Quaternion<T> where T: Copy + Mul<Output = T> + Sub<Output = T> + Zero + Add<T, Output = T>',
                {'mul': C(ensures=qeq('res', hamilton(p, q)))})
    u.take(P, gh, 'identity', C(ensures=['res.x.v@ == 0real', 'res.y.v@ == 0real', 'res.z.v@ == 0real', 'res.w.v@ == 1real']))


def add_quat_rotations(u):
    P = 'quaternion::repr_c'
    gh = 'impl<T>Quaternion<T>'
    half = leaf('angle_radians.v@') / const(2)
    ch, sh = app('cos_r', half), app('sin_r', half)
    ax, raw, mag = unit_axis('axis.into_spec()')
    q = quat_from_axis_angle(ch, sh, ax)
    req = ['V::obeys_into_spec()']
    u.take(P, gh, 'rotation_3d', C(requires=req, ensures=qeq('res', q)))
    S = qleaf('self')
    u.take(P, gh, 'rotated_3d', C(requires=req, ensures=qeq('res', hamilton(q, S))))
    So = qleaf('old(self)')
    u.take(P, gh, 'rotate_3d', C(ret=None, requires=req, ensures=qeq('final(self)', hamilton(q, So))))
    for k, nm in enumerate('xyz'):
        e = [const(1 if i == k else 0) for i in range(3)]
        qk = [e[0] * sh, e[1] * sh, e[2] * sh, ch]
        # the unit axis normalises to itself: 1/sqrt(1) -- stated through the sqrt axiom sqrt_r(1) == 1
        qk_simpl = [(sh if i == k else const(0)) for i in range(3)] + [ch]
        u.take(P, gh, 'rotation_' + nm, C(ensures=qeq('res', qk_simpl),
                                          prologue='proof { crate::pre::lemma_sqrt_one(); }'))
        u.take(P, gh, 'rotated_' + nm, C(ensures=qeq('res', hamilton(qk_simpl, S))))
        u.take(P, gh, 'rotate_' + nm, C(ret=None, ensures=qeq('final(self)', hamilton(qk_simpl, So))))


def add_mat_from_quat(u, ms):
    P, N, n = ms.path, ms.name, ms.n
    hdr = 'impl<T> From<Quaternion<T>> for %s<T> where T: Copy + Zero + One + Mul<Output = T> + Add<Output = T> + Sub<Output = T>' % N
    q = qleaf('q')
    u.take_impl(P, hdr, {'from': C(ensures=eq_all(ms, 'res', mat_from_quat_spec(n, q)))})


def qnorm2(q):
    return X.sum_([c * c for c in q])


def qconj(q):
    return [-q[0], -q[1], -q[2], q[3]]


def qrot(q, v):
    """vector part of q (v,0) conj(q)"""
    r = hamilton(hamilton(q, list(v.e) + [const(0)]), qconj(q))
    return SV(r[:3])


def qnormalized(q):
    m = app('sqrt_r', qnorm2(q))
    return [c / m for c in q]


def add_quat_algebra(u):
    """the rest of the quaternion algebra (C05), Layer 1"""
    P = 'quaternion::repr_c'
    gh = 'impl<T>Quaternion<T>'
    V4 = VEC['Vec4']
    S, Q, Rr = qleaf('self'), qleaf('q'), qleaf('rhs')
    for hdr in ('impl<T> From<Vec4<T>> for Quaternion<T>', 'impl<T> From<Quaternion<T>> for Vec4<T>',
                'impl<T> From<Quaternion<T>> for Vec3<T>'):
        u.take_impl(P, hdr, mode='G')
        u.from_given.add(norm(hdr))
    u.add(P, """impl<T> FromSpecImpl<Vec4<T>> for Quaternion<T> {
    open spec fn obeys_from_spec() -> bool { true }
    open spec fn from_spec(v: Vec4<T>) -> Quaternion<T> { Quaternion { x: v.x, y: v.y, z: v.z, w: v.w } }
}
impl<T> FromSpecImpl<Quaternion<T>> for Vec4<T> {
    open spec fn obeys_from_spec() -> bool { true }
    open spec fn from_spec(v: Quaternion<T>) -> Vec4<T> { Vec4 { x: v.x, y: v.y, z: v.z, w: v.w } }
}
impl<T> FromSpecImpl<Quaternion<T>> for Vec3<T> {
    open spec fn obeys_from_spec() -> bool { true }
    open spec fn from_spec(v: Quaternion<T>) -> Vec3<T> { Vec3 { x: v.x, y: v.y, z: v.z } }
}""")
    for fn in ('into_vec4', 'into_vec3'):
        n = 4 if fn == 'into_vec4' else 3
        u.take(P, gh, fn, C(ensures=['res.%s == self.%s' % (f, f) for f in QF[:n]]), mode='G')
    u.take(P, gh, 'from_vec4', C(ensures=['res.%s == v.%s' % (f, f) for f in QF]), mode='G')
    u.take(P, gh, 'from_xyzw', C(ensures=['res.%s == %s' % (f, f) for f in QF]), mode='G')
    u.take(P, gh, 'zero', C(ensures=['res.%s.v@ == 0real' % f for f in QF]))
    u.take(P, gh, 'conjugate', C(ensures=qeq('res', qconj(S))))
    n2 = qnorm2(S)
    u.take(P, gh, 'inverse', C(ensures=qeq('res', [c / n2 for c in qconj(S)])))
    u.take(P, gh, 'dot', C(ensures=['res.v@ == ' + X.verus(X.sum_([a * b for a, b in zip(S, Q)]))]))
    u.take(P, gh, 'magnitude_squared', C(ensures=['res.v@ == ' + X.verus(n2)]))
    u.take(P, gh, 'magnitude', C(ensures=['res.v@ == ' + X.verus(app('sqrt_r', n2))]))
    u.take(P, gh, 'normalized', C(ensures=qeq('res', qnormalized(S))))
    k = leaf('rhs.v@')
    u.take_impl(P, 'impl<T> Mul<T> for Quaternion<T> where T: Mul<Output = T> + Copy', {'mul': C(ensures=qeq('res', [c * k for c in S]))})
    u.take_impl(P, 'impl<T> Div<T> for Quaternion<T> where T: Copy + Div<Output = T>', {'div': C(ensures=qeq('res', [c / k for c in S]))})
    u.take_impl(P, 'impl<T> Add for Quaternion<T> where T: Add<Output = T>', {'add': C(ensures=qeq('res', [a + b for a, b in zip(S, Rr)]))})
    u.take_impl(P, 'impl<T> Sub for Quaternion<T> where T: Sub<Output = T>', {'sub': C(ensures=qeq('res', [a - b for a, b in zip(S, Rr)]))})
    u.take_impl(P, 'impl<T> Neg for Quaternion<T> where T: Neg<Output = T>', {'neg': C(ensures=qeq('res', [-a for a in S]))})
    v3 = SV.of(V3, 'rhs')
    u.take_impl(P, 'impl<T: Real + Add<T, Output = T>> Mul<Vec3<T>> for Quaternion<T>', {'mul': C(ensures=veq(V3, 'res', qrot(S, v3)))})
    v4 = SV.of(V4, 'rhs')
    u.take_impl(P, 'impl<T: Real + Add<T, Output = T>> Mul<Vec4<T>> for Quaternion<T>',
                {'mul': C(ensures=veq(V3, 'res', qrot(S, SV(v4.e[:3]))) + ['res.w == rhs.w'])})


def from_to_parts(uu, vv):
    nn = app('sqrt_r', uu.dot(uu) * vv.dot(vv))
    w0 = nn + uu.dot(vv)
    return nn, w0


def add_quat_from_to(u):
    P = 'quaternion::repr_c'
    gh = 'impl<T>Quaternion<T>'
    uu, vv = SV.of(V3, 'from.into_spec()'), SV.of(V3, 'to.into_spec()')
    nn, w0 = from_to_parts(uu, vv)
    eps = app('eps_r')
    near = X.verus(w0.lt(nn * X.E('app', (), 'eps_r')))
    generic = qnormalized(list(uu.cross(vv).e) + [w0])
    a1 = qnormalized([-uu[1], uu[0], const(0), const(0)])
    a2 = qnormalized([const(0), -uu[2], uu[1], const(0)])
    big = '(abs_r(%s) > abs_r(%s))' % (X.verus(uu[0]), X.verus(uu[2]))
    ens = []
    ens += ['(!%s) ==> %s' % (near, e) for e in qeq('res', generic)]
    ens += ['(%s && %s) ==> %s' % (near, big, e) for e in qeq('res', a1)]
    ens += ['(%s && !%s) ==> %s' % (near, big, e) for e in qeq('res', a2)]
    u.take(P, gh, 'rotation_from_to_3d', C(requires=['V::obeys_into_spec()'], ensures=ens))


def add_quat_angle_axis(u):
    P = 'quaternion::repr_c'
    gh = 'impl<T>Quaternion<T>'
    S = qleaf('self')
    w = S[3]
    s = app('sqrt_r', const(1) - w * w)
    small = X.verus(s.lt(X.E('app', (), 'eps_r')))
    ang = app('acos_r', w) + app('acos_r', w)
    ens = ['res.0.v@ == ' + X.verus(ang)]
    ens += ['%s ==> (res.1.x.v@ == 1real && res.1.y.v@ == 0real && res.1.z.v@ == 0real)' % small]
    ens += ['(!%s) ==> res.1.%s.v@ == %s' % (small, f, X.verus(S[i] / s)) for i, f in enumerate('xyz')]
    u.take(P, gh, 'into_angle_axis', C(ensures=ens))
