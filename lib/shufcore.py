"""ShuffleMask4, the Vec4 lane shuffles, hadd and the Vec4-as-2x2 helper products (vec.rs:2915-3100)."""
from extract import Contract as C
from xparse import norm
from shapes import VEC
import expr as X
from sym import SV, SM, leaf

SM_SPEC = '''
pub closed spec fn sm_idx(m: ShuffleMask4, k: int) -> usize {
    if k == 0 { (m.0 as usize) & 3 } else if k == 1 { ((m.0 as usize) >> 2) & 3 }
    else if k == 2 { ((m.0 as usize) >> 4) & 3 } else { ((m.0 as usize) >> 6) & 3 }
}
pub proof fn lemma_sm_idx_range(m: ShuffleMask4, k: int) ensures sm_idx(m, k) < 4 {
    assert(forall|x: usize| (x & 3) < 4) by(bit_vector);
}
pub closed spec fn sm_new(a: usize, b: usize, c: usize, d: usize) -> ShuffleMask4 {
    ShuffleMask4((((a&3) | ((b&3)<<2) | ((c&3)<<4) | ((d&3)<<6)) as u8))
}
pub proof fn lemma_sm_new(a: usize, b: usize, c: usize, d: usize)
    ensures sm_idx(sm_new(a, b, c, d), 0) == a % 4, sm_idx(sm_new(a, b, c, d), 1) == b % 4,
            sm_idx(sm_new(a, b, c, d), 2) == c % 4, sm_idx(sm_new(a, b, c, d), 3) == d % 4,
{
    assert(forall|a: usize, b: usize, c: usize, d: usize| {
        let p = #[trigger] (((a&3) | ((b&3)<<2) | ((c&3)<<4) | ((d&3)<<6)) as u8);
        &&& ((p as usize) & 3) == a % 4
        &&& (((p as usize) >> 2) & 3) == b % 4
        &&& (((p as usize) >> 4) & 3) == c % 4
        &&& (((p as usize) >> 6) & 3) == d % 4 }) by(bit_vector);
}
/// lane k of a 4-vector
pub open spec fn lane4<T>(v: Vec4<T>, k: usize) -> T {
    if k == 0 { v.x } else if k == 1 { v.y } else if k == 2 { v.z } else { v.w }
}
impl FromSpecImpl<(usize, usize, usize, usize)> for ShuffleMask4 {
    open spec fn obeys_from_spec() -> bool { true }
    open spec fn from_spec(t: (usize, usize, usize, usize)) -> ShuffleMask4 { sm_new(t.0, t.1, t.2, t.3) }
}
impl FromSpecImpl<usize> for ShuffleMask4 {
    open spec fn obeys_from_spec() -> bool { true }
    open spec fn from_spec(m: usize) -> ShuffleMask4 { sm_new(m, m, m, m) }
}
impl FromSpecImpl<[usize; 4]> for ShuffleMask4 {
    open spec fn obeys_from_spec() -> bool { true }
    open spec fn from_spec(m: [usize; 4]) -> ShuffleMask4 { sm_new(m[0], m[1], m[2], m[3]) }
}
'''


def add_shuffle_mask(u):
    P = 'vec'
    u.add(P, SM_SPEC)
    u.take(P, 'impl ShuffleMask4', 'new', C(
        ensures=['res == sm_new(m0, m1, m2, m3)', 'sm_idx(res, 0) == m0 % 4', 'sm_idx(res, 1) == m1 % 4',
                 'sm_idx(res, 2) == m2 % 4', 'sm_idx(res, 3) == m3 % 4'],
        prologue='proof { lemma_sm_new(m0, m1, m2, m3); }'), mode='G')
    u.take(P, 'impl ShuffleMask4', 'to_indices', C(
        ensures=['res.%d == sm_idx(*self, %d)' % (k, k) for k in range(4)] + ['res.%d < 4' % k for k in range(4)],
        prologue='proof { assert(forall|x: usize| (x & 3) < 4) by(bit_vector); }'), mode='G')
    for hdr in ('impl From<usize> for ShuffleMask4', 'impl From<(usize, usize, usize, usize)> for ShuffleMask4',
                'impl From<[usize; 4]> for ShuffleMask4'):
        u.take_impl(P, hdr, mode='G')
        u.from_given.add(norm(hdr))


def add_vec4_shuffles(u, sh=None):
    """shuffle_lo_hi / shuffled (generic mask), the fixed shuffles, hadd"""
    sh = sh or VEC['Vec4']
    P, N = sh.path, sh.name
    gh = 'impl<T>%s<T>' % N
    f = sh.fields
    lane = 'lane4'
    if N != 'Vec4':
        lane = 'lane4_%s' % N.lower()
        u.add(P, 'pub open spec fn %s<T>(v: %s<T>, k: usize) -> T {\n    if k == 0 { v.%s } else if k == 1 { v.%s } else if k == 2 { v.%s } else { v.%s }\n}'
              % (lane, N, f[0], f[1], f[2], f[3]))
    u.take(P, gh, 'shuffle_lo_hi', C(
        requires=['M::obeys_into_spec()'],
        ensures=['res.%s == %s(%s, sm_idx(mask.into_spec(), %d))' % (f[k], lane, 'lo' if k < 2 else 'hi', k) for k in range(4)]),
        mode='G')
    u.take(P, gh, 'shuffled', C(
        requires=['M::obeys_into_spec()'],
        ensures=['res.%s == %s(self, sm_idx(mask.into_spec(), %d))' % (f[k], lane, k) for k in range(4)]), mode='G')
    fixed = {
        'shuffle_lo_hi_0101': ('a', 'b', [('a', 0), ('a', 1), ('b', 0), ('b', 1)]),
        'shuffle_hi_lo_2323': ('a', 'b', [('b', 2), ('b', 3), ('a', 2), ('a', 3)]),
        'interleave_0011': ('a', 'b', [('a', 0), ('b', 0), ('a', 1), ('b', 1)]),
        'interleave_2233': ('a', 'b', [('a', 2), ('b', 2), ('a', 3), ('b', 3)]),
        'shuffled_0101': ('self', None, [('self', 0), ('self', 1), ('self', 0), ('self', 1)]),
        'shuffled_2323': ('self', None, [('self', 2), ('self', 3), ('self', 2), ('self', 3)]),
        'shuffled_0022': ('self', None, [('self', 0), ('self', 0), ('self', 2), ('self', 2)]),
        'shuffled_1133': ('self', None, [('self', 1), ('self', 1), ('self', 3), ('self', 3)]),
    }
    for fn, (_a, _b, lanes) in fixed.items():
        u.take(P, gh, fn, C(ensures=['res.%s == %s.%s' % (f[k], v, f[i]) for k, (v, i) in enumerate(lanes)]), mode='G')
    a = SV.of(sh, 'self')
    b = SV.of(sh, 'rhs')
    from matcore import veq
    u.take(P, gh, 'hadd', C(ensures=veq(sh, 'res', SV([a[0] + a[1], a[2] + a[3], b[0] + b[1], b[2] + b[3]]))))


def m2rows(v):
    return SM([[v[0], v[1]], [v[2], v[3]]])


def m2cols(v):
    return SM([[v[0], v[2]], [v[1], v[3]]])


def flat_rows(m):
    return SV([m[0, 0], m[0, 1], m[1, 0], m[1, 1]])


def flat_cols(m):
    return SV([m[0, 0], m[1, 0], m[0, 1], m[1, 1]])


def add_mat2_helpers(u, sh=None):
    """Vec4-as-2x2 products equal the 2x2 matrix expressions (row / column reading)"""
    sh = sh or VEC['Vec4']
    P, N = sh.path, sh.name
    hdr = 'impl<T: Copy + Add<T,Output=T> + Mul<T,Output=T> + Sub<T,Output=T>> %s<T>' % N
    a = SV.of(sh, 'self')
    b = SV.of(sh, 'rhs')
    from matcore import veq
    pro = 'proof { lemma_sm_new_all(); }'
    for rd, mk, fl in (('rows', m2rows, flat_rows), ('cols', m2cols, flat_cols)):
        A, B = mk(a), mk(b)
        u.take(P, hdr, 'mat2_%s_mul' % rd, C(ensures=veq(sh, 'res', fl(A @ B)), prologue=pro))
        u.take(P, hdr, 'mat2_%s_adj_mul' % rd, C(ensures=veq(sh, 'res', fl(A.adj() @ B)), prologue=pro))
        u.take(P, hdr, 'mat2_%s_mul_adj' % rd, C(ensures=veq(sh, 'res', fl(A @ B.adj())), prologue=pro))
    u.add('vec', '''
pub proof fn lemma_sm_new_all()
    ensures forall|a: usize, b: usize, c: usize, d: usize| #![trigger sm_new(a, b, c, d)]
        sm_idx(sm_new(a, b, c, d), 0) == a % 4 && sm_idx(sm_new(a, b, c, d), 1) == b % 4
        && sm_idx(sm_new(a, b, c, d), 2) == c % 4 && sm_idx(sm_new(a, b, c, d), 3) == d % 4
{
    assert forall|a: usize, b: usize, c: usize, d: usize| #![trigger sm_new(a, b, c, d)]
        sm_idx(sm_new(a, b, c, d), 0) == a % 4 && sm_idx(sm_new(a, b, c, d), 1) == b % 4
        && sm_idx(sm_new(a, b, c, d), 2) == c % 4 && sm_idx(sm_new(a, b, c, d), 3) == d % 4 by {
        lemma_sm_new(a, b, c, d);
    }
}
''')
