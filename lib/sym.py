"""Symbolic vectors / matrices / quaternions of expr trees, with the textbook definitions
(the postconditions of Layer 1 and the statements of Layer 2 are built from these)."""
import re
import expr as X
from expr import E, const, var, sum_


def ident(text):
    s = re.sub(r'\.v@', '', text)
    s = re.sub(r'[^A-Za-z0-9]+', '_', s).strip('_')
    return s


def leaf(text):
    """a real-valued term of the unit, e.g. `self.rows.x.y.v@`"""
    return var(ident(text), verus=text)


class SV:
    """symbolic vector"""

    def __init__(self, elems):
        self.e = list(elems)
        self.n = len(self.e)

    @staticmethod
    def of(sh, text):
        return SV([leaf('%s.%s.v@' % (text, f)) for f in sh.fields])

    @staticmethod
    def params(prefix, n):
        return SV([var('%s%d' % (prefix, i)) for i in range(n)])

    def __getitem__(self, i): return self.e[i]
    def __add__(self, o): return SV([a + b for a, b in zip(self.e, o.e)])
    def __sub__(self, o): return SV([a - b for a, b in zip(self.e, o.e)])
    def __neg__(self): return SV([-a for a in self.e])
    def scale(self, k): return SV([a * k for a in self.e])
    def div(self, k): return SV([a / k for a in self.e])
    def dot(self, o): return sum_([a * b for a, b in zip(self.e, o.e)])
    def norm2(self): return self.dot(self)

    def cross(self, o):
        a, b = self.e, o.e
        return SV([a[1] * b[2] - a[2] * b[1], a[2] * b[0] - a[0] * b[2], a[0] * b[1] - a[1] * b[0]])

    def eqs(self, o):
        """list of boolean trees: element-wise equality"""
        return [a.eq(b) for a, b in zip(self.e, o.e)]

    def ext(self, *more):
        return SV(self.e + [X.lift(m) for m in more])

    def head(self, k):
        return SV(self.e[:k])


class SM:
    """symbolic n x n matrix; e[i][j] = row i, column j"""

    def __init__(self, rows):
        self.e = [list(r) for r in rows]
        self.n = len(self.e)

    @staticmethod
    def of(ms, text):
        n = ms.n
        return SM([[leaf(ms.at(text, i, j) + '.v@') for j in range(n)] for i in range(n)])

    @staticmethod
    def params(prefix, n):
        return SM([[var('%s%d%d' % (prefix, i, j)) for j in range(n)] for i in range(n)])

    @staticmethod
    def identity(n):
        return SM([[const(1 if i == j else 0) for j in range(n)] for i in range(n)])

    @staticmethod
    def fn(n, f):
        return SM([[X.lift(f(i, j)) for j in range(n)] for i in range(n)])

    def __getitem__(self, ij): return self.e[ij[0]][ij[1]]
    def T(self): return SM([[self.e[j][i] for j in range(self.n)] for i in range(self.n)])

    def __matmul__(self, o):
        n = self.n
        if isinstance(o, SV):
            return SV([sum_([self.e[i][k] * o.e[k] for k in range(n)]) for i in range(n)])
        return SM([[sum_([self.e[i][k] * o.e[k][j] for k in range(n)]) for j in range(n)] for i in range(n)])

    def rmul_vec(self, v):
        """row vector times matrix"""
        n = self.n
        return SV([sum_([v.e[k] * self.e[k][j] for k in range(n)]) for j in range(n)])

    def map(self, f): return SM([[f(x) for x in r] for r in self.e])
    def zip(self, o, f): return SM([[f(a, b) for a, b in zip(r, s)] for r, s in zip(self.e, o.e)])
    def __add__(self, o): return self.zip(o, lambda a, b: a + b)
    def __sub__(self, o): return self.zip(o, lambda a, b: a - b)

    def eqs(self, o):
        return [self.e[i][j].eq(o.e[i][j]) for i in range(self.n) for j in range(self.n)]

    def flat(self):
        return [x for r in self.e for x in r]

    def minor(self, i, j):
        idx_r = [r for r in range(self.n) if r != i]
        idx_c = [c for c in range(self.n) if c != j]
        return SM([[self.e[r][c] for c in idx_c] for r in idx_r])

    def det(self):
        n = self.n
        if n == 1:
            return self.e[0][0]
        if n == 2:
            return self.e[0][0] * self.e[1][1] - self.e[0][1] * self.e[1][0]
        terms = []
        for j in range(n):
            t = self.e[0][j] * self.minor(0, j).det()
            terms.append(t if j % 2 == 0 else -t)
        return sum_(terms)

    def det_leibniz(self):
        """sum over permutations of sign * product (flat monomials)"""
        import itertools
        n = self.n
        terms = []
        for perm in itertools.permutations(range(n)):
            inv = sum(1 for a in range(n) for b in range(a + 1, n) if perm[a] > perm[b])
            t = self.e[0][perm[0]]
            for i in range(1, n):
                t = t * self.e[i][perm[i]]
            terms.append((inv % 2, t))
        r = None
        for sgn, t in terms:
            if r is None:
                r = t if sgn == 0 else -t
            else:
                r = r + t if sgn == 0 else r - t
        return r

    def adj(self):
        n = self.n

        def cof(i, j):
            d = self.minor(i, j).det()
            return d if (i + j) % 2 == 0 else -d
        return SM([[cof(j, i) for j in range(n)] for i in range(n)])

    def embed(self, n, one=True):
        """upper-left embedding into an n x n identity"""
        return SM([[self.e[i][j] if i < self.n and j < self.n else const(1 if i == j else 0)
                    for j in range(n)] for i in range(n)])

    def block(self, k):
        return SM([[self.e[i][j] for j in range(k)] for i in range(k)])
