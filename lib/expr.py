"""One definition, three renderings (DESIGN.md R3): small expression trees over the reals that print
as Verus spec text, as SMT-LIB (QF_NRA / NRA with uninterpreted functions) and as Rust f64 code.

Leaves are *terms of the unit being verified* (e.g. `m.rows.x.y.v@`) or lemma parameters; every
leaf carries the three spellings.
"""
from fractions import Fraction


class E:
    __slots__ = ('op', 'args', 'val')

    def __init__(self, op, args=(), val=None):
        self.op = op
        self.args = tuple(args)
        self.val = val

    # arithmetic
    def __add__(self, o): return _mk('+', self, lift(o))
    def __radd__(self, o): return _mk('+', lift(o), self)
    def __sub__(self, o): return _mk('-', self, lift(o))
    def __rsub__(self, o): return _mk('-', lift(o), self)
    def __mul__(self, o): return _mk('*', self, lift(o))
    def __rmul__(self, o): return _mk('*', lift(o), self)
    def __truediv__(self, o): return _mk('/', self, lift(o))
    def __rtruediv__(self, o): return _mk('/', lift(o), self)
    def __neg__(self): return E('neg', (self,))
    # relations (boolean-valued trees)
    def eq(self, o): return E('==', (self, lift(o)))
    def ne(self, o): return E('!=', (self, lift(o)))
    def lt(self, o): return E('<', (self, lift(o)))
    def le(self, o): return E('<=', (self, lift(o)))
    def gt(self, o): return E('>', (self, lift(o)))
    def ge(self, o): return E('>=', (self, lift(o)))

    def key(self):
        return (self.op, self.val, tuple(a.key() for a in self.args))


def _mk(op, a, b):
    return E(op, (a, b))


def lift(x):
    if isinstance(x, E):
        return x
    if isinstance(x, (int, Fraction)):
        return E('const', (), Fraction(x))
    raise TypeError(x)


def const(x):
    return lift(x)


def var(name, verus=None, smt=None, rust=None):
    """leaf; `name` is the SMT identifier, `verus`/`rust` the spellings in those languages"""
    return E('var', (), (name, verus or name, rust or name))


def app(fn, *args):
    """uninterpreted / prelude function application, e.g. app('sqrt_r', x)"""
    return E('app', tuple(lift(a) for a in args), fn)


def ite(c, a, b): return E('ite', (c, lift(a), lift(b)))
def and_(*cs): return E('and', tuple(cs)) if len(cs) != 1 else cs[0]
def or_(*cs): return E('or', tuple(cs)) if len(cs) != 1 else cs[0]
def not_(c): return E('not', (c,))
def implies(a, b): return E('==>', (a, b))
def true_(): return E('true')


def sum_(xs):
    xs = list(xs)
    r = xs[0]
    for x in xs[1:]:
        r = r + x
    return r


# ---------------------------------------------------------------- renderers
def verus(e):
    o = e.op
    if o == 'const':
        v = e.val
        if v.denominator == 1:
            return ('%dreal' % v.numerator) if v >= 0 else '(-%dreal)' % (-v.numerator)
        n = ('%dreal' % v.numerator) if v >= 0 else '(-%dreal)' % (-v.numerator)
        return '(%s / %dreal)' % (n, v.denominator)
    if o == 'var':
        return e.val[1]
    if o in ('+', '-', '*', '/'):
        return '(%s %s %s)' % (verus(e.args[0]), o, verus(e.args[1]))
    if o == 'neg':
        return '(-%s)' % verus(e.args[0])
    if o in ('==', '!=', '<', '<=', '>', '>='):
        return '(%s %s %s)' % (verus(e.args[0]), o, verus(e.args[1]))
    if o == 'app':
        return '%s(%s)' % (e.val, ', '.join(verus(a) for a in e.args))
    if o == 'ite':
        return '(if %s { %s } else { %s })' % (verus(e.args[0]), verus(e.args[1]), verus(e.args[2]))
    if o == 'and':
        return '(' + ' && '.join(verus(a) for a in e.args) + ')'
    if o == 'or':
        return '(' + ' || '.join(verus(a) for a in e.args) + ')'
    if o == 'not':
        return '(!%s)' % verus(e.args[0])
    if o == '==>':
        return '(%s ==> %s)' % (verus(e.args[0]), verus(e.args[1]))
    if o == 'true':
        return 'true'
    raise ValueError(o)


def smt(e, divmap=None):
    """SMT-LIB text.  divmap: dict key(divisor)->name of reciprocal variable (x/d -> x*inv_d)"""
    o = e.op
    if o == 'const':
        v = e.val
        s = '%d.0' % abs(v.numerator)
        if v.denominator != 1:
            s = '(/ %s %d.0)' % (s, v.denominator)
        return s if v >= 0 else '(- %s)' % s
    if o == 'var':
        return e.val[0]
    if o == '/':
        if divmap is not None and e.args[1].key() in divmap:
            return '(* %s %s)' % (smt(e.args[0], divmap), divmap[e.args[1].key()])
        return '(/ %s %s)' % (smt(e.args[0], divmap), smt(e.args[1], divmap))
    if o in ('+', '-', '*'):
        return '(%s %s %s)' % (o, smt(e.args[0], divmap), smt(e.args[1], divmap))
    if o == 'neg':
        return '(- %s)' % smt(e.args[0], divmap)
    if o == '==':
        return '(= %s %s)' % (smt(e.args[0], divmap), smt(e.args[1], divmap))
    if o == '!=':
        return '(not (= %s %s))' % (smt(e.args[0], divmap), smt(e.args[1], divmap))
    if o in ('<', '<=', '>', '>='):
        return '(%s %s %s)' % (o, smt(e.args[0], divmap), smt(e.args[1], divmap))
    if o == 'app':
        return '(%s %s)' % (e.val, ' '.join(smt(a, divmap) for a in e.args))
    if o == 'ite':
        return '(ite %s %s %s)' % tuple(smt(a, divmap) for a in e.args)
    if o == 'and':
        return '(and %s)' % ' '.join(smt(a, divmap) for a in e.args)
    if o == 'or':
        return '(or %s)' % ' '.join(smt(a, divmap) for a in e.args)
    if o == 'not':
        return '(not %s)' % smt(e.args[0], divmap)
    if o == '==>':
        return '(=> %s %s)' % (smt(e.args[0], divmap), smt(e.args[1], divmap))
    if o == 'true':
        return 'true'
    raise ValueError(o)


def leaves(e, acc=None):
    if acc is None:
        acc = {}
    if e.op == 'var':
        acc[e.val[0]] = e
    for a in e.args:
        leaves(a, acc)
    return acc


def apps(e, acc=None):
    if acc is None:
        acc = {}
    if e.op == 'app':
        acc[(e.val, len(e.args))] = True
    for a in e.args:
        apps(a, acc)
    return acc


def divisors(e, acc=None):
    if acc is None:
        acc = {}
    if e.op == '/':
        acc[e.args[1].key()] = e.args[1]
    for a in e.args:
        divisors(a, acc)
    return acc


def evalf(e, env, funcs=None):
    """evaluate with exact Fractions (or floats) given env: name -> number"""
    o = e.op
    if o == 'const':
        return e.val
    if o == 'var':
        return env[e.val[0]]
    if o == 'neg':
        return -evalf(e.args[0], env, funcs)
    if o in ('+', '-', '*', '/'):
        a, b = evalf(e.args[0], env, funcs), evalf(e.args[1], env, funcs)
        return a + b if o == '+' else a - b if o == '-' else a * b if o == '*' else a / b
    if o == 'app':
        return funcs[e.val](*[evalf(a, env, funcs) for a in e.args])
    if o == 'ite':
        return evalf(e.args[1], env, funcs) if evalf(e.args[0], env, funcs) else evalf(e.args[2], env, funcs)
    if o in ('==', '!=', '<', '<=', '>', '>='):
        a, b = evalf(e.args[0], env, funcs), evalf(e.args[1], env, funcs)
        return {'==': a == b, '!=': a != b, '<': a < b, '<=': a <= b, '>': a > b, '>=': a >= b}[o]
    if o == 'and':
        return all(evalf(a, env, funcs) for a in e.args)
    if o == 'or':
        return any(evalf(a, env, funcs) for a in e.args)
    if o == 'not':
        return not evalf(e.args[0], env, funcs)
    if o == '==>':
        return (not evalf(e.args[0], env, funcs)) or evalf(e.args[1], env, funcs)
    if o == 'true':
        return True
    raise ValueError(o)


def diff(e, name):
    """formal derivative with respect to the leaf called `name` (polynomial / rational trees only)"""
    o = e.op
    if o == 'const':
        return const(0)
    if o == 'var':
        return const(1) if e.val[0] == name else const(0)
    if o == 'neg':
        return -diff(e.args[0], name)
    a, b = (e.args + (None, None))[:2]
    if o == '+':
        return diff(a, name) + diff(b, name)
    if o == '-':
        return diff(a, name) - diff(b, name)
    if o == '*':
        return diff(a, name) * b + a * diff(b, name)
    if o == '/':
        return (diff(a, name) * b - a * diff(b, name)) / (b * b)
    raise ValueError('diff: ' + o)


def subst(e, name, by):
    """replace the leaf called `name` by tree `by`"""
    if e.op == 'var':
        return by if e.val[0] == name else e
    if not e.args:
        return e
    return E(e.op, tuple(subst(a, name, by) for a in e.args), e.val)
