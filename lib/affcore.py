"""Affine builders, point/direction helpers, Transform -> matrix (mat.rs, transform.rs)."""
from extract import Contract as C
from xparse import norm
from shapes import VEC, mat
import expr as X
from expr import const, app
from sym import SM, SV, leaf
from matcore import eq_all, veq, other, lemma_args, thm_fn

V2, V3, V4 = VEC['Vec2'], VEC['Vec3'], VEC['Vec4']


def translation_spec(n, t):
    """n x n homogeneous translation by the (n-1)- or shorter vector t"""
    I = SM.identity(n)
    e = [[I[i, j] for j in range(n)] for i in range(n)]
    for i in range(len(t.e)):
        e[i][n - 1] = t[i]
    return SM(e)


def scaling_spec(n, s):
    I = SM.identity(n)
    e = [[I[i, j] for j in range(n)] for i in range(n)]
    for i in range(len(s.e)):
        e[i][i] = s[i]
    return SM(e)


def shear_spec(axis, k):
    return SM([[const(1), k], [const(0), const(1)]]) if axis == 'x' else SM([[const(1), const(0)], [k, const(1)]])


def triple(u, ms, base, ctor, edname, inplace, spec, requires=()):
    """constructor / returning `*_ed` form / in-place form of one builder"""
    P, N = ms.path, ms.name
    gh = 'impl<T>%s<T>' % N
    S, So = SM.of(ms, 'self'), SM.of(ms, 'old(self)')
    u.take(P, gh, ctor, C(requires=requires, ensures=eq_all(ms, 'res', spec)))
    u.take(P, gh, edname, C(requires=requires, ensures=eq_all(ms, 'res', spec @ S)))
    u.take(P, gh, inplace, C(ret=None, requires=requires, ensures=eq_all(ms, 'final(self)', spec @ So)))


def add_affine(u, ms):
    n = ms.n
    rq = ['V::obeys_into_spec()']
    if n == 4:
        triple(u, ms, 'translation_3d', 'translation_3d', 'translated_3d', 'translate_3d',
               translation_spec(4, SV.of(V3, 'v.into_spec()')), rq)
        triple(u, ms, 'translation_2d', 'translation_2d', 'translated_2d', 'translate_2d',
               translation_spec(4, SV.of(V2, 'v.into_spec()')), rq)
        triple(u, ms, 'scaling_3d', 'scaling_3d', 'scaled_3d', 'scale_3d', scaling_spec(4, SV.of(V3, 'v.into_spec()')), rq)
        add_mul_point(u, ms, 'mul_point', V3, V4, 1)
        add_mul_point(u, ms, 'mul_direction', V3, V4, 0)
    if n == 3:
        triple(u, ms, 'translation_2d', 'translation_2d', 'translated_2d', 'translate_2d',
               translation_spec(3, SV.of(V2, 'v.into_spec()')), rq)
        triple(u, ms, 'scaling_3d', 'scaling_3d', 'scaled_3d', 'scale_3d', scaling_spec(3, SV.of(V3, 'v.into_spec()')), rq)
        add_mul_point(u, ms, 'mul_point_2d', V2, V3, 1)
        add_mul_point(u, ms, 'mul_direction_2d', V2, V3, 0)
    if n == 2:
        triple(u, ms, 'scaling_2d', 'scaling_2d', 'scaled_2d', 'scale_2d', scaling_spec(2, SV.of(V2, 'v.into_spec()')), rq)
        k = leaf('k.v@')
        triple(u, ms, 'shearing_x', 'shearing_x', 'sheared_x', 'shear_x', shear_spec('x', k))
        triple(u, ms, 'shearing_y', 'shearing_y', 'sheared_y', 'shear_y', shear_spec('y', k))


def add_mul_point(u, ms, fn, vs, vb, w):
    """mul_point / mul_direction: V::from(self * (rhs, w))"""
    P, N, n = ms.path, ms.name, ms.n
    A = SM.of(ms, 'self')
    p = SV.of(vs, 'rhs.into_spec()').ext(const(w))
    img = A @ p
    lit = vb.lit(['rr(%s)' % X.verus(e) for e in img.e])
    u.take(P, 'impl<T>%s<T>' % N, fn, C(
        requires=['V::obeys_into_spec()', '<V as FromSpec<%s<R>>>::obeys_from_spec()' % vb.name],
        ensures=['res == <V as FromSpec<%s<R>>>::from_spec(%s)' % (vb.name, lit)]))


def add_point_ctors(u):
    """Vec4::new_point/new_direction/from_point/from_direction, Vec3::*_2d"""
    g4, g3 = 'impl<T>Vec4<T>', 'impl<T>Vec3<T>'
    u.take(V4.path, g4, 'new_point', C(ensures=['res.x == x', 'res.y == y', 'res.z == z', 'res.w.v@ == 1real']))
    u.take(V4.path, g4, 'new_direction', C(ensures=['res.x == x', 'res.y == y', 'res.z == z', 'res.w.v@ == 0real']))
    rq = ['V::obeys_into_spec()']
    u.take(V4.path, g4, 'from_point', C(requires=rq, ensures=['res.x == v.into_spec().x', 'res.y == v.into_spec().y',
                                                               'res.z == v.into_spec().z', 'res.w.v@ == 1real']))
    u.take(V4.path, g4, 'from_direction', C(requires=rq, ensures=['res.x == v.into_spec().x', 'res.y == v.into_spec().y',
                                                                   'res.z == v.into_spec().z', 'res.w.v@ == 0real']))
    u.take(V3.path, g3, 'new_point_2d', C(ensures=['res.x == x', 'res.y == y', 'res.z.v@ == 1real']))
    u.take(V3.path, g3, 'new_direction_2d', C(ensures=['res.x == x', 'res.y == y', 'res.z.v@ == 0real']))
    u.take(V3.path, g3, 'from_point_2d', C(requires=rq, ensures=['res.x == v.into_spec().x', 'res.y == v.into_spec().y',
                                                                  'res.z.v@ == 1real']))
    u.take(V3.path, g3, 'from_direction_2d', C(requires=rq, ensures=['res.x == v.into_spec().x', 'res.y == v.into_spec().y',
                                                                      'res.z.v@ == 0real']))


def add_transform(u, ms):
    """Mat4::from(Transform): p -> position + orientation * (scale . p), i.e. T * R * S"""
    import rotcore
    P, N = ms.path, ms.name
    hdr = 'impl<T> From<Transform<T, T, T>> for Mat4<T> where T: Real + MulAdd<T, T, Output = T>'
    q = rotcore.qleaf('xform.orientation')
    Rm = rotcore.mat_from_quat_spec(4, q)
    Tm = translation_spec(4, SV.of(V3, 'xform.position'))
    Sm = scaling_spec(4, SV.of(V3, 'xform.scale'))
    # written out from the statement: column j of R is scaled by s_j, the last column is the position
    s = SV.of(V3, 'xform.scale')
    t = SV.of(V3, 'xform.position')
    e = [[None] * 4 for _ in range(4)]
    for i in range(4):
        for j in range(4):
            if i < 3 and j < 3:
                e[i][j] = Rm[i, j] * s[j]
            elif i < 3 and j == 3:
                e[i][j] = t[i]
            else:
                e[i][j] = const(1 if i == j else 0)
    u.take_impl(P, hdr, {'from': C(ensures=eq_all(ms, 'res', SM(e)))})
