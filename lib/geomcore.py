"""Axis-aligned boxes and rectangles (geom.rs: geom_impl_aabr_or_aabb!, geom_impl_rect_or_rect3!) — Layer 1."""
from extract import Contract as C
from xparse import norm
from shapes import VEC
import expr as X
from expr import const, app
from sym import SV, leaf

P = 'geom::repr_c'


class Box:
    def __init__(self, n):
        self.n = n
        self.name = 'Aabr' if n == 2 else 'Aabb'
        self.rect = 'Rect' if n == 2 else 'Rect3'
        self.vec = VEC['Vec%d' % n]
        self.ext = VEC['Extent%d' % n]
        self.ax = self.vec.fields
        self.ex = self.ext.fields
        self.lname = self.name.lower()
        self.rname = self.rect.lower()

    def mn(self, b, i):
        return '%s.min.%s.v@' % (b, self.ax[i])

    def mx(self, b, i):
        return '%s.max.%s.v@' % (b, self.ax[i])

    def contains(self, b, p):
        return ' && '.join('%s <= %s.%s.v@ && %s.%s.v@ <= %s' % (self.mn(b, i), p, self.ax[i], p, self.ax[i], self.mx(b, i))
                           for i in range(self.n))

    def valid(self, b):
        return ' && '.join('%s <= %s' % (self.mn(b, i), self.mx(b, i)) for i in range(self.n))

    def rpos(self, r, i):
        return '%s.%s.v@' % (r, self.ax[i])

    def rext(self, r, i):
        return '%s.%s.v@' % (r, self.ex[i])


def add_vec_minmax(u, sh):
    """Vec::partial_min / partial_max (element-wise) and the Clamp lift, mode R"""
    Pv, N = sh.path, sh.name
    gh = 'impl<T>%s<T>' % N
    rq = ['V0::obeys_into_spec()', 'V1::obeys_into_spec()']
    for fn, f in (('partial_min', 'min_r'), ('partial_max', 'max_r')):
        u.take(Pv, gh, fn, C(requires=rq, ensures=['res.%s.v@ == %s(a.into_spec().%s.v@, b.into_spec().%s.v@)' % (x, f, x, x)
                                                   for x in sh.fields]))
    import opscore
    hdr = 'impl<T: Clamp> Clamp<%s<T>> for %s<T>' % (N, N)
    cl = lambda x: opscore.clamp_r('self.%s.v@' % x, 'lower.%s.v@' % x, 'upper.%s.v@' % x)
    u.impl_extra[(Pv, norm(hdr))] = ('open spec fn clamped_req(self, lower: Self, upper: Self) -> bool { %s }\n'
                                     'open spec fn clamped_spec(self, lower: Self, upper: Self) -> Self { %s }'
                                     % (' && '.join('lower.%s.v@ <= upper.%s.v@' % (x, x) for x in sh.fields),
                                        sh.lit(['rr(%s)' % cl(x) for x in sh.fields])))
    u.take_impl(Pv, hdr, {'clamped': C(ensures=['res.%s.v@ == %s' % (x, cl(x)) for x in sh.fields])})


def add_box(u, B):
    N, n = B.name, B.n
    gh = 'impl<T>%s<T>' % N
    V = B.vec
    two = '2real'
    u.take(P, gh, 'is_valid', C(ensures=['res == (%s)' % B.valid('self')], external_body=True))
    mkv = []
    for i in range(n):
        a, b = B.mn('old(self)', i), B.mx('old(self)', i)
        mkv += ['%s == min_r(%s, %s)' % (B.mn('final(self)', i), a, b), '%s == max_r(%s, %s)' % (B.mx('final(self)', i), a, b)]
    u.take(P, gh, 'make_valid', C(ret=None, ensures=mkv))
    u.take(P, gh, 'made_valid', C(ensures=[e.replace('final(self)', 'res').replace('old(self)', 'self') for e in mkv]))
    u.take(P, gh, 'new_empty', C(ensures=['res.min == p', 'res.max == p']), mode='G')
    u.take(P, gh, 'center', C(ensures=['res.%s.v@ == (%s + %s) / %s' % (B.ax[i], B.mn('self', i), B.mx('self', i), two) for i in range(n)]))
    u.take(P, gh, 'size', C(ensures=['res.%s.v@ == %s - %s' % (B.ex[i], B.mx('self', i), B.mn('self', i)) for i in range(n)]))
    u.take(P, gh, 'half_size', C(ensures=['res.%s.v@ == (%s - %s) / %s' % (B.ex[i], B.mx('self', i), B.mn('self', i), two) for i in range(n)]))
    un, it = [], []
    for i in range(n):
        un += ['%s == min_r(%s, %s)' % (B.mn('res', i), B.mn('self', i), B.mn('other', i)),
               '%s == max_r(%s, %s)' % (B.mx('res', i), B.mx('self', i), B.mx('other', i))]
        it += ['%s == max_r(%s, %s)' % (B.mn('res', i), B.mn('self', i), B.mn('other', i)),
               '%s == min_r(%s, %s)' % (B.mx('res', i), B.mx('self', i), B.mx('other', i))]
    u.take(P, gh, 'union', C(ensures=un))
    u.take(P, gh, 'intersection', C(ensures=it))
    fin = lambda es: [e.replace('res', 'final(self)').replace('self.m', 'old(self).m').replace('final(old(self))', 'final(self)') for e in es]
    u.take(P, gh, 'expand_to_contain', C(ret=None, ensures=fin(un)))
    u.take(P, gh, 'intersect', C(ret=None, ensures=fin(it)))
    ep = []
    for i in range(n):
        ep += ['%s == min_r(%s, p.%s.v@)' % (B.mn('res', i), B.mn('self', i), B.ax[i]),
               '%s == max_r(%s, p.%s.v@)' % (B.mx('res', i), B.mx('self', i), B.ax[i])]
    u.take(P, gh, 'expanded_to_contain_point', C(ensures=ep))
    u.take(P, gh, 'expand_to_contain_point', C(ret=None, ensures=fin(ep)))
    u.take(P, gh, 'contains_point', C(ensures=['res == (%s)' % B.contains('self', 'p')]))
    u.take(P, gh, 'contains_%s' % B.lname, C(ensures=['res == (%s)' % ' && '.join(
        '%s <= %s && %s <= %s' % (B.mn('self', i), B.mn('other', i), B.mx('other', i), B.mx('self', i)) for i in range(n))]))
    u.take(P, gh, 'collides_with_%s' % B.lname, C(ensures=['res == (%s)' % ' && '.join(
        '%s > %s && %s < %s' % (B.mx('self', i), B.mn('other', i), B.mn('self', i), B.mx('other', i)) for i in range(n))]))
    cv = []
    for i in range(n):
        c1 = '(%s + %s) / %s' % (B.mn('self', i), B.mx('self', i), two)
        c2 = '(%s + %s) / %s' % (B.mn('other', i), B.mx('other', i), two)
        cv.append('res.%s.v@ == (if %s < %s { %s - %s } else { %s - %s })'
                  % (B.ax[i], c1, c2, B.mx('self', i), B.mn('other', i), B.mn('self', i), B.mx('other', i)))
    u.take(P, gh, 'collision_vector_with_%s' % B.lname, C(ensures=cv))
    import opscore
    pj = ['res.%s.v@ == %s' % (B.ax[i], opscore.clamp_r('p.%s.v@' % B.ax[i], B.mn('self', i), B.mx('self', i))) for i in range(n)]
    u.take(P, gh, 'projected_point', C(requires=[B.valid('self')], ensures=pj))
    d2 = ' + '.join('(%s - p.%s.v@) * (%s - p.%s.v@)' % ((opscore.clamp_r('p.%s.v@' % B.ax[i], B.mn('self', i), B.mx('self', i)), B.ax[i]) * 2)
                    for i in range(n))
    u.take(P, gh, 'distance_to_point', C(requires=[B.valid('self')], ensures=['res.v@ == sqrt_r(%s)' % d2]))
    for k in range(n):
        ax = B.ax[k]
        ens = []
        for i in range(n):
            ens += ['res@[0].min.%s == self.min.%s' % (B.ax[i], B.ax[i]), 'res@[1].max.%s == self.max.%s' % (B.ax[i], B.ax[i])]
            if i == k:
                ens += ['res@[0].max.%s == sp' % ax, 'res@[1].min.%s == sp' % ax]
            else:
                ens += ['res@[0].max.%s == self.max.%s' % (B.ax[i], B.ax[i]), 'res@[1].min.%s == self.min.%s' % (B.ax[i], B.ax[i])]
        u.take(P, gh, 'split_at_' + ax, C(requires=['sp.v@ >= %s' % B.mn('self', k), 'sp.v@ <= %s' % B.mx('self', k)], ensures=ens))
    # box <-> rect
    hdr = 'impl<T> From<%s<T>> for %s<T, T> where T: Copy + Sub<T, Output = T>' % (N, B.rect)
    e1 = ['%s == %s' % (B.rpos('res', i), B.mn('aab', i)) for i in range(n)] + \
         ['%s == %s - %s' % (B.rext('res', i), B.mx('aab', i), B.mn('aab', i)) for i in range(n)]
    u.take_impl(P, hdr, {'from': C(ensures=e1)})
    hdr = 'impl<T> From<%s<T, T>> for %s<T> where T: Copy + Add<T, Output = T>' % (B.rect, N)
    e2 = ['%s == %s' % (B.mn('res', i), B.rpos('rect', i)) for i in range(n)] + \
         ['%s == %s + %s' % (B.mx('res', i), B.rpos('rect', i), B.rext('rect', i)) for i in range(n)]
    u.take_impl(P, hdr, {'from': C(ensures=e2)})
    u.take(P, gh, 'into_' + B.rname, C(ensures=[e.replace('aab', 'self') for e in e1]))


def add_rect(u, B):
    n = B.n
    R, N = B.rect, B.name
    g0 = 'impl<P, E> %s<P, E>' % R
    ax, ex = B.ax, B.ex
    u.take(P, g0, 'new', C(ensures=['res.%s == %s' % (f, f) for f in list(ax) + list(ex)]), mode='G', tparams=())
    u.take(P, g0, 'position', C(ensures=['res.%s == self.%s' % (f, f) for f in ax]), mode='G', tparams=())
    u.take(P, g0, 'extent', C(ensures=['res.%s == self.%s' % (f, f) for f in ex]), mode='G', tparams=())
    g1 = 'impl<T> %s<T, T> where T: Copy + Add<T, Output = T>' % R
    g2 = 'impl<T> %s<T, T> where T: Copy + PartialOrd + Sub<T, Output = T> + Add<T, Output = T>' % R
    into = ['%s == %s' % (B.mn('res', i), B.rpos('self', i)) for i in range(n)] + \
           ['%s == %s + %s' % (B.mx('res', i), B.rpos('self', i), B.rext('self', i)) for i in range(n)]
    u.take(P, g1, 'into_' + B.lname, C(ensures=into))

    def lo(r, i): return B.rpos(r, i)
    def hi(r, i): return '(%s + %s)' % (B.rpos(r, i), B.rext(r, i))
    u.take(P, g1, 'contains_point', C(ensures=['res == (%s)' % ' && '.join(
        '%s <= p.%s.v@ && p.%s.v@ <= %s' % (lo('self', i), ax[i], ax[i], hi('self', i)) for i in range(n))]))
    u.take(P, g1, 'contains_' + B.rname, C(ensures=['res == (%s)' % ' && '.join(
        '%s <= %s && %s <= %s' % (lo('self', i), lo('other', i), hi('other', i), hi('self', i)) for i in range(n))]))
    u.take(P, g1, 'collides_with_' + B.rname, C(ensures=['res == (%s)' % ' && '.join(
        '%s > %s && %s < %s' % (hi('self', i), lo('other', i), lo('self', i), hi('other', i)) for i in range(n))]))
    u.take(P, g1, 'center', C(ensures=['res.%s.v@ == (%s + %s) / 2real' % (ax[i], lo('self', i), hi('self', i)) for i in range(n)]))
    un, it = [], []
    for i in range(n):
        un += ['%s == min_r(%s, %s)' % (B.rpos('res', i), lo('self', i), lo('other', i)),
               '%s == max_r(%s, %s) - min_r(%s, %s)' % (B.rext('res', i), hi('self', i), hi('other', i), lo('self', i), lo('other', i))]
        it += ['%s == max_r(%s, %s)' % (B.rpos('res', i), lo('self', i), lo('other', i)),
               '%s == min_r(%s, %s) - max_r(%s, %s)' % (B.rext('res', i), hi('self', i), hi('other', i), lo('self', i), lo('other', i))]
    u.take(P, g2, 'union', C(ensures=un))
    u.take(P, g2, 'intersection', C(ensures=it))
    ep = []
    for i in range(n):
        ep += ['%s == min_r(%s, p.%s.v@)' % (B.rpos('res', i), lo('self', i), ax[i]),
               '%s == max_r(%s, p.%s.v@) - min_r(%s, p.%s.v@)' % (B.rext('res', i), hi('self', i), ax[i], lo('self', i), ax[i])]
    u.take(P, g2, 'expanded_to_contain_point', C(ensures=ep))
    cv = []
    for i in range(n):
        c1 = '(%s + %s) / 2real' % (lo('self', i), hi('self', i))
        c2 = '(%s + %s) / 2real' % (lo('other', i), hi('other', i))
        cv.append('res.%s.v@ == (if %s < %s { %s - %s } else { %s - %s })'
                  % (ax[i], c1, c2, hi('self', i), lo('other', i), lo('self', i), hi('other', i)))
    u.take(P, g2, 'collision_vector_with_' + B.rname, C(ensures=cv))
    # in-place forms equal the returning forms
    fl = list(ax) + list(ex)
    def inplace(ens):
        out = []
        for e in ens:
            e2 = e.replace('self.', 'old(self).').replace('res.', 'final(self).')
            out.append(e2)
        return out
    u.take(P, g2, 'expand_to_contain_point', C(ret=None, ensures=inplace(ep)))
    u.take(P, g2, 'expand_to_contain', C(ret=None, ensures=inplace(un)))
    u.take(P, g2, 'intersect', C(ret=None, ensures=inplace(it)))
    # split_at_*: the two halves, as rectangles, of the box split (low keeps the position, high starts at sp)
    for k in range(n):
        ens = []
        for h in (0, 1):
            for i in range(n):
                if i == k:
                    lo_ = lo('self', i) if h == 0 else 'sp.v@'
                    hi_ = 'sp.v@' if h == 0 else hi('self', i)
                else:
                    lo_, hi_ = lo('self', i), hi('self', i)
                ens += ['%s == %s' % (B.rpos('res@[%d]' % h, i), lo_), '%s == %s - %s' % (B.rext('res@[%d]' % h, i), hi_, lo_)]
        u.take(P, g2, 'split_at_' + ax[k], C(requires=['sp.v@ >= %s' % lo('self', k), 'sp.v@ <= %s' % hi('self', k)], ensures=ens))
