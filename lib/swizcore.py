"""Named swizzles, with_* setters, unit / direction constructors, colour helpers (vec.rs:2915-3700)."""
from extract import Contract as C
from xparse import norm
from shapes import VEC
import expr as X
from expr import const, app
from sym import SV, leaf
from matcore import veq

V2, V3, V4 = VEC['Vec2'], VEC['Vec3'], VEC['Vec4']
RGBA, RGB = VEC['Rgba'], VEC['Rgb']


def perm(u, sh, fn, src):
    """res.field_k == self.<src[k]> (mode G)"""
    u.take(sh.path, 'impl<T>%s<T>' % sh.name, fn, C(ensures=['res.%s == self.%s' % (f, s) for f, s in zip(sh.fields, src)]), mode='G')


def add_swizzles(u):
    perm(u, V2, 'yx', ['y', 'x'])
    perm(u, V3, 'zyx', ['z', 'y', 'x'])
    perm(u, V4, 'wxyz', ['w', 'x', 'y', 'z'])
    perm(u, V4, 'wzyx', ['w', 'z', 'y', 'x'])
    perm(u, V4, 'zyxw', ['z', 'y', 'x', 'w'])
    perm(u, RGBA, 'shuffled_argb', ['a', 'r', 'g', 'b'])
    perm(u, RGBA, 'shuffled_bgra', ['b', 'g', 'r', 'a'])
    perm(u, RGB, 'shuffled_bgr', ['b', 'g', 'r'])
    u.take(V3.path, 'impl<T>Vec3<T>', 'xy', C(ensures=['res.x == self.x', 'res.y == self.y']), mode='G')
    u.take(V4.path, 'impl<T>Vec4<T>', 'xy', C(ensures=['res.x == self.x', 'res.y == self.y']), mode='G')
    u.take(V4.path, 'impl<T>Vec4<T>', 'xyz', C(ensures=['res.x == self.x', 'res.y == self.y', 'res.z == self.z']), mode='G')
    u.take(RGBA.path, 'impl<T>Rgba<T>', 'rgb', C(ensures=['res.r == self.r', 'res.g == self.g', 'res.b == self.b']), mode='G')
    for sh in (V2, V3, V4):
        gh = 'impl<T>%s<T>' % sh.name
        for f in 'xyzw':
            if f in sh.fields:
                u.take(sh.path, gh, 'with_' + f, C(ensures=['res.%s == %s' % (g, f if g == f else 'self.' + g) for g in sh.fields]), mode='G')
    u.take(V2.path, 'impl<T>Vec2<T>', 'with_z', C(ensures=['res.x == self.x', 'res.y == self.y', 'res.z == z']), mode='G')
    u.take(V2.path, 'impl<T>Vec2<T>', 'with_w', C(ensures=['res.x == self.x', 'res.y == self.y', 'res.z == T::zero_spec()', 'res.w == w']), mode='G')
    u.take(V3.path, 'impl<T>Vec3<T>', 'with_w', C(ensures=['res.x == self.x', 'res.y == self.y', 'res.z == self.z', 'res.w == w']), mode='G')


def unitv(sh, vals):
    return ['res.%s.v@ == %dreal' % (f, v) for f, v in zip(sh.fields, vals)]


def add_units_and_directions(u):
    names = {
        V2: dict(unit_x=(1, 0), unit_y=(0, 1), left=(-1, 0), right=(1, 0), up=(0, 1), down=(0, -1)),
        V3: dict(unit_x=(1, 0, 0), unit_y=(0, 1, 0), unit_z=(0, 0, 1), left=(-1, 0, 0), right=(1, 0, 0), up=(0, 1, 0),
                 down=(0, -1, 0), forward_lh=(0, 0, 1), forward_rh=(0, 0, -1), back_lh=(0, 0, -1), back_rh=(0, 0, 1)),
        V4: dict(unit_x=(1, 0, 0, 0), unit_y=(0, 1, 0, 0), unit_z=(0, 0, 1, 0), unit_w=(0, 0, 0, 1),
                 left=(-1, 0, 0, 0), right=(1, 0, 0, 0), up=(0, 1, 0, 0), down=(0, -1, 0, 0), forward_lh=(0, 0, 1, 0),
                 forward_rh=(0, 0, -1, 0), back_lh=(0, 0, -1, 0), back_rh=(0, 0, 1, 0),
                 unit_x_point=(1, 0, 0, 1), unit_y_point=(0, 1, 0, 1), unit_z_point=(0, 0, 1, 1), left_point=(-1, 0, 0, 1),
                 right_point=(1, 0, 0, 1), up_point=(0, 1, 0, 1), down_point=(0, -1, 0, 1), forward_point_lh=(0, 0, 1, 1),
                 forward_point_rh=(0, 0, -1, 1), back_point_lh=(0, 0, -1, 1), back_point_rh=(0, 0, 1, 1)),
    }
    for sh, d in names.items():
        gh = 'impl<T>%s<T>' % sh.name
        for fn, vals in d.items():
            u.take(sh.path, gh, fn, C(ensures=unitv(sh, vals)))


FULL = 'full_r()'


def add_colours(u):
    for sh in (RGBA, RGB):
        gh = 'impl<T: ColorComponent> %s<T>' % sh.name
        cols = dict(black=(0, 0, 0), white=(1, 1, 1), red=(1, 0, 0), green=(0, 1, 0), blue=(0, 0, 1), cyan=(0, 1, 1),
                    magenta=(1, 0, 1), yellow=(1, 1, 0))
        alpha = ['res.a.v@ == ' + FULL] if sh is RGBA else []
        for fn, (r, g, b) in cols.items():
            u.take(sh.path, gh, fn, C(ensures=['res.%s.v@ == %s' % (f, FULL if v else '0real') for f, v in zip('rgb', (r, g, b))] + alpha))
        for fn in ('gray', 'grey'):
            u.take(sh.path, gh, fn, C(ensures=['res.r == value', 'res.g == value', 'res.b == value'] + alpha))
        keep = ['res.a == self.a'] if sh is RGBA else []
        u.take(sh.path, gh, 'inverted_rgb', C(ensures=['res.%s.v@ == %s - self.%s.v@' % (f, FULL, f) for f in 'rgb'] + keep))
        u.take(sh.path, gh, 'average_rgb', C(ensures=['res.v@ == (self.r.v@ + self.g.v@ + self.b.v@) / 3real']))
    gh = 'impl<T: ColorComponent> Rgba<T>'
    P = RGBA.path
    u.take(P, gh, 'new_opaque', C(ensures=['res.r == r', 'res.g == g', 'res.b == b', 'res.a.v@ == ' + FULL]))
    u.take(P, gh, 'new_transparent', C(ensures=['res.r == r', 'res.g == g', 'res.b == b', 'res.a.v@ == 0real']))
    rq = ['V::obeys_into_spec()']
    c = 'color.into_spec()'
    u.take(P, gh, 'from_opaque', C(requires=rq, ensures=['res.r == %s.r' % c, 'res.g == %s.g' % c, 'res.b == %s.b' % c, 'res.a.v@ == ' + FULL]))
    u.take(P, gh, 'from_transparent', C(requires=rq, ensures=['res.r == %s.r' % c, 'res.g == %s.g' % c, 'res.b == %s.b' % c, 'res.a.v@ == 0real']))
    u.take(P, 'impl<T>Rgba<T>', 'from_translucent', C(requires=rq, ensures=['res.r == %s.r' % c, 'res.g == %s.g' % c, 'res.b == %s.b' % c, 'res.a == opacity']), mode='G')
    hdr = 'impl<T: ColorComponent> From<Rgb<T>> for Rgba<T>'
    u.take_impl(P, hdr, {'from': C(ensures=['res.r == v.r', 'res.g == v.g', 'res.b == v.b', 'res.a.v@ == ' + FULL])})
