"""Assemble a single-file Verus unit: prelude + module skeleton of the expansion + selected real
functions with contracts inserted."""
import re
from extract import (Expansion, Contract, render_fn, render_impl_header, subst_word, strip_T)
from xparse import norm
from extract import find_where as extract_find_where

EXTERNAL_USE_DROP = re.compile(r'^(pub\s+)?use\s+(num_traits|approx|crate::num_traits)\b')
STD_USE = re.compile(r'^(pub\s+)?use\s+(std|core)::')


class Unit:
    def __init__(self, exp, name, scalar='R'):
        self.exp = exp
        self.name = name
        self.scalar = scalar
        self.sel = {}          # id(impl item) -> dict(mode->list of (fn item, contract))
        self.impl_of = {}
        self.free_fns = []     # (path, fn item, mode, contract)
        self.extra = {}        # path -> list of text blocks (spec impls, lemmas) placed in that module
        self.root_extra = []   # text blocks at crate root (after prelude)
        self.traits = []       # (path, trait item, mode, contracts dict)
        self.obligations = []  # tags
        self.functions = []    # functions under contract (anchor strings)
        self.assumed = []      # external_body'd real functions (T1)
        self.struct_tparams = {}
        self.skip_structs = set()
        self.trait_extra = {}       # (path, trait name) -> ghost text inserted at the top of the trait body (D2)
        self.impl_extra = {}        # (path, normalised ORIGINAL impl header) -> ghost text inserted at the top of the impl (D2)
        self.no_companion = set()   # normalised rendered impl headers that get no auto companion
        self.from_given = set()     # rendered `impl From<..> for ..` headers whose FromSpecImpl the unit supplies
        self.module_prologue = []   # lines emitted at the top of every module (broadcast use ...)
        self.anchors = {}           # contract tag -> (module path, impl header, fn name, nth): used by the differential replay

    # ---- selection -------------------------------------------------------------------------
    def take(self, path, header, fn, contract=None, mode='R', nth=0, tparams=('T',)):
        impl, f = self.exp.find_fn(path, header, fn, nth)
        key = (id(impl), mode, tparams)
        self.impl_of[key] = impl
        for k2, l2 in self.sel.items():
            if k2[0] == id(impl) and any(g is f for (g, _c) in l2):
                return f    # already selected (first contract wins)
        lst = self.sel.setdefault(key, [])
        anchor = '%s :: %s :: %s' % (path, norm(header), fn)
        bare = contract is None
        if bare:
            contract = Contract(ret=None)     # no clauses: the function is only checked against vstd's spec traits / for panics
        if contract.tag is None:
            contract.tag = '%s/%s' % (self._short(path, header), fn)
        lst.append((f, contract))
        self.anchors[contract.tag] = (path, header, fn, nth, contract)
        if contract.external_body:
            self.assumed.append(anchor)
        elif not bare or ' for ' in norm(header).replace('for<', ''):
            self.functions.append(anchor)
        return f

    def take_impl(self, path, header, contracts=None, mode='R', nth=0, tparams=('T',), only=None):
        """select every fn of a (trait) impl; contracts: {fn name: Contract}"""
        impls = self.exp.impls(path, header)
        if len(impls) <= nth:
            raise LookupError('anchor-lost: %s :: %s' % (path, norm(header)))
        impl = impls[nth]
        contracts = contracts or {}
        for ch in impl.children:
            if ch.kind == 'fn' and (only is None or ch.name in only):
                self.take(path, header, ch.name, contracts.get(ch.name), mode, nth, tparams)
        for k in contracts:
            if not any(ch.kind == 'fn' and ch.name == k for ch in impl.children):
                raise LookupError('anchor-lost: %s :: %s :: fn %s' % (path, norm(header), k))
        return impl

    def take_trait(self, path, name, contracts=None, mode='G', tparams=('T',)):
        it = self.exp.find_item(path, 'trait', name)
        self.traits.append((path, it, mode, contracts or {}, tparams))

    def take_free_fn(self, path, name, contract=None, mode='G', tparams=('T',)):
        it = self.exp.find_item(path, 'fn', name)
        if any(x[1] is it for x in self.free_fns):
            return
        self.free_fns.append((path, it, mode, contract, tparams))
        if contract is not None and not contract.external_body:
            self.functions.append('%s :: fn %s' % (path, name))

    def add(self, path, text):
        self.extra.setdefault(path, []).append(text)

    def add_root(self, text):
        self.root_extra.append(text)

    def _short(self, path, header):
        from extract import match_angle
        p = path.split('::')
        h = ' '.join(header.split())
        m = re.match(r'impl\s*', h)
        i = m.end()
        if i < len(h) and h[i] == '<':
            i = match_angle(h, i) + 1
        h = h[i:]
        w = extract_find_where(h)
        if w >= 0:
            h = h[:w]
        h = norm(h).replace(' ', '')
        return '%s:%s' % ('.'.join(p[-2:]) if len(p) > 1 else path, h)

    # ---- rendering -------------------------------------------------------------------------
    def render(self, prelude_text, top_modules):
        self._tops = tuple(top_modules)
        out = []
        out.append('// GENERATED by /verif/lib/unit.py from the macro expansion of /repo -- do not edit\n')
        out.append(prelude_text)
        out.append('verus! {\n#[allow(unused_imports)] use crate::pre::*;\n')
        for t in self.root_extra:
            out.append(t)
        for m in top_modules:
            mod = self.exp.mods[m]
            out.append(self._render_mod(mod, m, ''))
            out.append('pub use crate::%s::*;\n' % m)
        out.append('\n} // verus!\nfn main() {}\n')
        return ''.join(out)

    def _render_mod(self, mod, path, ind):
        o = ['%spub mod %s {\n' % (ind, mod.name)]
        ind2 = ind + '    '
        o.append(ind2 + 'use vstd::prelude::*;\n')
        o.append(ind2 + '#[allow(unused_imports)] use crate::pre::*;\n')
        for l in self.module_prologue:
            o.append(ind2 + l + '\n')
        for ch in mod.children:
            if ch.kind == 'use':
                h = ' '.join(ch.header.split())
                if EXTERNAL_USE_DROP.match(h):
                    if h.startswith('pub use'):
                        # a re-export of a dependency item: re-export the prelude's stand-in under the same name (N3)
                        last = h.rstrip(';').split('::')[-1].strip()
                        if re.match(r'^\w+$', last):
                            o.append('%spub use crate::pre::%s;\n' % (ind2, last))
                    continue    # N3: supplied by crate::pre
                if re.search(r'\buse\s+(std|core)::prelude', h):
                    continue
                h = re.sub(r'\bstd::', 'core::', h)
                if re.search(r'crate::geom::\{\s*Rect\s*,\s*FrustumPlanes\s*\}', h) and 'geom' not in self._tops:
                    continue
                if self._use_target_missing(h):
                    continue
                o.append('%s#[allow(unused_imports)] %s;\n' % (ind2, h))
            elif ch.kind == 'mod':
                sub = path + '::' + ch.name
                if ch.name in ('tests', 'impl_num_traits') and not self._mod_has_content(sub):
                    continue
                o.append(self._render_mod(ch, sub, ind2))
            elif ch.kind == 'struct':
                if (path, ch.name) in self.skip_structs:
                    continue
                o.append(self._render_struct(ch, ind2))
            elif ch.kind == 'type' and re.match(r'\s*(pub\s+)?type\s+\w+\s*(<[^>]*>)?\s*=', ch.header):
                o.append('%s%s;\n' % (ind2, ' '.join(ch.header.split())))
        # traits
        for (p, it, mode, contracts, tparams) in self.traits:
            if p == path:
                o.append(self._render_trait(it, mode, contracts, tparams, ind2))
        # impls with selections in this module, source order
        keys = [k for k in self.sel if self.impl_of[k].path == path]
        keys.sort(key=lambda k: (self.impl_of[k].start, k[1]))
        for k in keys:
            o.append(self._render_impl(k, ind2))
        for (p, it, mode, contract, tparams) in self.free_fns:
            if p == path:
                txt, obl = render_fn(it, mode, contract, tparams, self.scalar, ind2)
                self.obligations += obl
                o.append(txt + '\n')
        for t in self.extra.get(path, []):
            o.append(t + '\n')
        o.append('%s}\n' % ind)
        return ''.join(o)

    def _mod_has_content(self, path):
        for k in self.sel:
            if self.impl_of[k].path.startswith(path):
                return True
        return any(p.startswith(path) for p in self.extra)

    _tops = ()

    def _use_target_missing(self, h):
        m = re.search(r'crate::(\w+)', h)
        if m and m.group(1) in ('vec', 'mat', 'geom', 'quaternion', 'transform', 'bezier', 'transition', 'ops') \
                and m.group(1) not in self._tops:
            return True
        m = re.search(r'use super::(vec|quaternion|transform)::', h)
        if m and m.group(1) not in self._tops:
            return True
        return False

    def _render_struct(self, it, ind):
        h = ' '.join(it.header.split())
        name = it.name
        gm = re.search(r'struct\s+\w+\s*(<[^>]*>)?', h)
        gens = gm.group(1) or ''
        gnames = [g.strip().split(':')[0].split('=')[0].strip() for g in gens.strip('<>').split(',')] if gens else []
        if it.body:
            # strip doc comments / attributes inside the body (D1)
            body = re.sub(r'^\s*///.*$', '', it.body, flags=re.M)
            body = re.sub(r'#\[[^\]]*\]', '', body)
            body = re.sub(r'\n\s*\n', '\n', body)
            txt = '%s%s %s\n' % (ind, h, body)
        else:
            hh = re.sub(r'///[^\n]*\n', '', it.header)
            hh = re.sub(r'#\[[^\]]*\]', '', hh)
            txt = '%s%s;\n' % (ind, ' '.join(hh.split()))
        if gnames:
            gl = ', '.join(gnames)
            txt += '%simpl<%s> Copy for %s<%s> {}\n' % (ind, ', '.join('%s: Copy' % g for g in gnames), name, gl)
            txt += ('%simpl<%s> Clone for %s<%s> { #[verifier::external_body] fn clone(&self) -> (r: Self) '
                    'ensures r == *self { unimplemented!() } }\n'
                    % (ind, ', '.join('%s: Copy' % g for g in gnames), name, gl))
        else:
            txt += '%simpl Copy for %s {}\n' % (ind, name)
            txt += ('%simpl Clone for %s { #[verifier::external_body] fn clone(&self) -> (r: Self) '
                    'ensures r == *self { unimplemented!() } }\n' % (ind, name))
        return txt

    def _render_impl(self, key, ind):
        impl = self.impl_of[key]
        _, mode, tparams = key
        h = render_impl_header(impl, mode, tparams, self.scalar)
        o = ['%s%s {\n' % (ind, h)]
        ex = self.impl_extra.get((impl.path, impl.nheader()))
        if ex:
            o.append(ind + '    ' + ex.replace('\n', '\n' + ind + '    ') + '\n')
        sels = self.sel[key]
        sel_ids = {id(f): c for (f, c) in sels}
        for ch in impl.children:
            if ch.kind == 'type' or ch.kind == 'const':
                t = ' '.join(ch.header.split())
                if mode == 'R':
                    for tp in tparams:
                        t = subst_word(t, tp, self.scalar)
                if ch.kind == 'const' and ' for ' not in norm(impl.header).replace('for<', ''):
                    # inherent associated consts are only emitted once (mode G block or first block)
                    continue
                o.append('%s    %s;\n' % (ind, t))
            elif ch.kind == 'fn' and id(ch) in sel_ids:
                txt, obl = render_fn(ch, mode, sel_ids[id(ch)], tparams, self.scalar, ind + '    ')
                self.obligations += obl
                o.append(txt + '\n')
        o.append('%s}\n' % ind)
        comp = self._companion(h, impl, mode, tparams)
        if comp:
            o.append(ind + comp.replace('\n', '\n' + ind) + '\n')
        return ''.join(o)

    OPS2 = {'Add': 'add', 'Sub': 'sub', 'Mul': 'mul', 'Div': 'div', 'Rem': 'rem', 'Shl': 'shl', 'Shr': 'shr',
            'BitAnd': 'bitand', 'BitOr': 'bitor', 'BitXor': 'bitxor'}

    def _companion(self, h, impl, mode, tparams):
        """vstd wants an XSpecImpl next to every impl of a core::ops trait; the contract of the real
        function lives in its `ensures`, so the companion says obeys_x_spec() == false"""
        from extract import match_angle, find_where
        if norm(h) in self.no_companion:
            return None
        m = re.match(r'impl\s*', h)
        i = m.end()
        gen = ''
        if h[i] == '<':
            e = match_angle(h, i)
            gen = h[i:e + 1]
            i = e + 1
        rest = h[i:].strip()
        w = find_where(rest)
        where = ''
        if w >= 0:
            where = rest[w:]
            rest = rest[:w].strip()
        mm = re.match(r'(\w+)\s*(<)?', rest)
        if not mm:
            return None
        tr = mm.group(1)
        j = mm.end(1)
        rhs = None
        k = j
        while k < len(rest) and rest[k].isspace():
            k += 1
        if k < len(rest) and rest[k] == '<':
            e = match_angle(rest, k)
            rhs = rest[k + 1:e].strip()
            j = e + 1
        fm = re.match(r'\s*for\s+(.*)$', rest[j:], re.S)
        if not fm:
            return None
        ty = fm.group(1).strip()
        base = tr[:-6] if tr.endswith('Assign') else tr
        if tr in self.OPS2:
            mth = self.OPS2[tr]
            r = rhs or 'Self'
            return ('impl%s %sSpecImpl<%s> for %s %s {\n    open spec fn obeys_%s_spec() -> bool { false }\n'
                    '    open spec fn %s_req(self, rhs: %s) -> bool { true }\n'
                    '    open spec fn %s_spec(self, rhs: %s) -> Self::Output { arbitrary() }\n}'
                    % (gen, tr, r, ty, where, mth, mth, r, mth, r))
        if tr.endswith('Assign') and base in self.OPS2:
            mth = self.OPS2[base] + '_assign'
            r = rhs or 'Self'
            return ('impl%s %sSpecImpl<%s> for %s %s {\n    open spec fn obeys_%s_spec() -> bool { false }\n'
                    '    open spec fn %s_req(&self, rhs: %s) -> bool { true }\n'
                    '    open spec fn %s_spec(&self, rhs: %s) -> &Self { arbitrary() }\n}'
                    % (gen, tr, r, ty, where, mth, mth, r, mth, r))
        if tr in ('Neg', 'Not'):
            mth = tr.lower()
            return ('impl%s %sSpecImpl for %s %s {\n    open spec fn obeys_%s_spec() -> bool { false }\n'
                    '    open spec fn %s_req(self) -> bool { true }\n'
                    '    open spec fn %s_spec(self) -> Self::Output { arbitrary() }\n}'
                    % (gen, tr, ty, where, mth, mth, mth))
        if tr == 'From' and norm(h) not in self.from_given:
            return ('impl%s FromSpecImpl<%s> for %s %s {\n    open spec fn obeys_from_spec() -> bool { false }\n'
                    '    open spec fn from_spec(v: %s) -> Self { arbitrary() }\n}'
                    % (gen, rhs, ty, where, rhs))
        return None

    def _render_trait(self, it, mode, contracts, tparams, ind):
        h = ' '.join(it.header.split())
        o = ['%s%s {\n' % (ind, h)]
        ex = self.trait_extra.get((it.path, it.name))
        if ex:
            o.append(ind + '    ' + ex.replace('\n', '\n' + ind + '    ') + '\n')
        for ch in it.children:
            if ch.kind in ('type', 'const'):
                o.append('%s    %s;\n' % (ind, ' '.join(ch.header.split())))
            elif ch.kind == 'fn':
                txt, obl = render_fn(ch, mode, contracts.get(ch.name), tparams, self.scalar, ind + '    ')
                self.obligations += obl
                o.append(txt + '\n')
        o.append('%s}\n' % ind)
        return ''.join(o)
