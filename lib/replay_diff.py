"""Differential replay of refuted Verus obligations on the real code.

Verus gives no counterexample.  For a refuted postcondition / invariant of a real function F this module builds a small binary that links
two copies of vek -- the committed HEAD of the repository (on which the registered check passed: F satisfied its contract there) and
the current working tree -- calls F in both with the same pseudo-random small dyadic inputs (exactly representable, so that polynomial
code is exact in f64), and reports the first input on which the two results differ beyond rounding noise.  For the functional
postconditions used here (res == definition(args)) such an input is a concrete violation of the refuted obligation by the working tree;
the replay file records input, the contract-satisfying result (HEAD) and the observed result.

Best effort: generic functions that cannot be instantiated mechanically (closures, casts, iterator parameters), compile errors or
timeouts simply leave the violation without an input (`no-failing-input-found`)."""
import os
import re
import shutil
import subprocess
import json
from extract import split_top, match_angle, find_where, fn_header_parts
from xparse import walk, norm
import vexpr

FEATURES = ['std', 'libm', 'vec8', 'vec16', 'vec32', 'vec64', 'rgb', 'rgba', 'uv', 'uvw']
TRIALS = 4800
PRIMS = {'f64', 'f32', 'u8', 'u16', 'u32', 'u64', 'usize', 'i8', 'i16', 'i32', 'i64', 'isize', 'bool'}


class Unsupported(Exception):
    pass


def _strip_lifetimes(t):
    t = re.sub(r"&\s*'\w+\s*", '&', t)
    t = re.sub(r"<\s*'\w+\s*,\s*", '<', t)
    t = re.sub(r"<\s*'\w+\s*>", '', t)
    return t


def _generics(text):
    """'<A: X, B>' -> [(name, bound text)]"""
    out = []
    for g in split_top(text):
        g = g.strip()
        if not g or g.startswith("'"):
            continue
        if g.startswith('const '):
            raise Unsupported('const generic')
        nm, _, bd = g.partition(':')
        out.append((nm.strip(), bd.strip()))
    return out


def _where_preds(where):
    preds = {}
    if where:
        for p in split_top(where[5:]):
            m = re.match(r'^\s*([A-Za-z_]\w*)\s*:(?!:)(.*)$', p.strip(), re.S)
            if m:
                preds.setdefault(m.group(1), []).append(m.group(2).strip())
    return preds


def _subst(t, env):
    for k, v in env.items():
        t = re.sub(r'(?<![A-Za-z0-9_:])%s(?![A-Za-z0-9_])' % re.escape(k), v, t)
    return t


def _into_target(bounds):
    for b in bounds:
        for part in split_top(b, '+'):
            m = re.match(r'^\s*Into\s*<(.*)>\s*$', part.strip(), re.S)
            if m:
                return m.group(1).strip()
    return None


def call_spec(impl, fnitem):
    """-> dict(self_ty, trait, name, params=[(name, type text, mode)], recv=None|'val'|'ref'|'mut') with every generic instantiated"""
    ih = _strip_lifetimes(' '.join(impl.header.split()))
    m = re.match(r'impl\s*', ih)
    i = m.end()
    igens = []
    if i < len(ih) and ih[i] == '<':
        e = match_angle(ih, i)
        igens = _generics(ih[i + 1:e])
        i = e + 1
    rest = ih[i:].strip()
    w = find_where(rest)
    iwhere = rest[w:] if w >= 0 else ''
    rest = rest[:w].strip() if w >= 0 else rest
    trait = None
    fm = None
    depth = 0
    for k in range(len(rest)):
        c = rest[k]
        if c in '<([':
            depth += 1
        elif c in '>)]':
            depth -= 1
        elif depth == 0 and rest.startswith(' for ', k):
            fm = k
            break
    if fm is not None:
        trait, self_ty = rest[:fm].strip(), rest[fm + 5:].strip()
    else:
        self_ty = rest
    env = {}
    ipreds = _where_preds(iwhere)
    for nm, bd in igens:
        bounds = ([bd] if bd else []) + ipreds.get(nm, [])
        if any('ProgressMapper' in b for b in bounds):
            env[nm] = 'IdentityProgressMapper'
        elif any(re.search(r'\bFn(Mut|Once)?\b', b) for b in bounds):
            raise Unsupported('closure-typed impl parameter')
        else:
            env[nm] = 'f64'
    fh = _strip_lifetimes(' '.join(fnitem.header.split()))
    pre, ret, fwhere = fn_header_parts(fh)
    mm = re.search(r'\bfn\s+(\w+)\s*', pre)
    name = mm.group(1)
    j = mm.end()
    fgens = []
    if pre[j] == '<':
        e = match_angle(pre, j)
        fgens = _generics(pre[j + 1:e])
        j = e + 1
    fpreds = _where_preds(fwhere)
    for nm, bd in fgens:
        bounds = ([bd] if bd else []) + fpreds.get(nm, [])
        tgt = _into_target(bounds)
        if tgt is None:
            raise Unsupported('generic parameter %s without an Into<..> bound' % nm)
        env[nm] = tgt
    # resolve nested references to other generics / Self
    self_ty = _subst(self_ty, env)
    env2 = dict(env)
    env2['Self'] = self_ty
    for _ in range(3):
        for k in list(env2):
            env2[k] = _subst(env2[k], {a: b for a, b in env2.items() if a != k})
    trait = _subst(trait, env2) if trait else None
    ps = pre[pre.index('(', j) + 1:pre.rindex(')')]
    params, recv = [], None
    for p in split_top(ps):
        p = p.strip()
        if not p:
            continue
        if re.match(r'^(mut\s+)?self$', p):
            recv = 'val'
            continue
        if re.match(r'^&\s*self$', p):
            recv = 'ref'
            continue
        if re.match(r'^&\s*mut\s+self$', p):
            recv = 'mut'
            continue
        m2 = re.match(r'^(mut\s+)?(\w+)\s*:(.*)$', p, re.S)
        if not m2:
            raise Unsupported('pattern parameter')
        ty = _subst(m2.group(3).strip(), env2)
        mode = 'val'
        if ty.startswith('&'):
            mode = 'mut' if re.match(r'^&\s*mut\b', ty) else 'ref'
            ty = re.sub(r'^&\s*(mut\s+)?', '', ty)
        if re.search(r'\b(Fn|FnMut|FnOnce|IntoIterator|Iterator|dyn)\b', ty) or 'impl ' in ty:
            raise Unsupported('closure / iterator parameter')
        params.append((m2.group(2), ty, mode))
    return dict(self_ty=self_ty, trait=trait, name=name, params=params, recv=recv)


def struct_gens(exp):
    """Rust text: `impl Gen for <every plain-data pub struct of vek>` (fields generated recursively)"""
    out = []
    for it in walk(exp.items):
        if it.kind != 'struct':
            continue
        top = it.path.split('::')[0]
        if top not in ('vec', 'mat', 'quaternion', 'geom', 'bezier', 'transform', 'transition'):
            continue
        if 'repr_simd' in it.path or it.name in ('IntoIter', 'ShuffleMask4', 'ProgressMapperFn'):
            continue
        h = ' '.join(it.header.split())
        gm = re.search(r'struct\s+\w+\s*(<[^>]*>)?', h)
        gens = [g.strip().split(':')[0].split('=')[0].strip() for g in (gm.group(1) or '').strip('<>').split(',') if g.strip()]
        mpath = it.path
        while mpath in exp.mods and not re.match(r'\s*pub\b', exp.mods[mpath].header or ''):
            mpath = mpath.rsplit('::', 1)[0]      # private inner module: the type is re-exported by its parent
        full = 'vek::%s::%s' % (mpath, it.name)
        ig = ('<%s>' % ', '.join('%s: Gen' % g for g in gens)) if gens else ''
        tg = ('<%s>' % ', '.join(gens)) if gens else ''
        if it.body:
            body = re.sub(r'///[^\n]*', '', it.body)
            body = re.sub(r'#\[[^\]]*\]', '', body)
            fields = re.findall(r'(pub\s+)?(\w+)\s*:', body.strip('{} \n'))
            names = []
            depth = 0
            cur = ''
            # field names at depth 0 of the body
            inner = body.strip()[1:-1]
            for part in split_top(inner):
                mm = re.match(r'^\s*(pub(\([^)]*\))?\s+)?(\w+)\s*:', part.strip())
                if mm:
                    if not mm.group(1):
                        names = None
                        break
                    names.append(mm.group(3))
            if not names:
                continue
            lit = 'Self { %s }' % ', '.join('%s: Gen::gen(r)' % n for n in names)
            eq = ' && '.join('self.%s.eqr(&o.%s)' % (n, n) for n in names)
        else:
            mt = re.search(r'struct\s+\w+\s*(<[^>]*>)?\s*\((.*)\)', h)
            if mt:
                fs = [f for f in split_top(mt.group(2)) if f.strip()]
                if any(not f.strip().startswith('pub') for f in fs):
                    continue
                lit = 'Self(%s)' % ', '.join('Gen::gen(r)' for _ in fs)
                eq = ' && '.join('self.%d.eqr(&o.%d)' % (q, q) for q in range(len(fs)))
            else:
                lit = 'Self'
                eq = 'true'
        if it.name == 'Mat4' and it.body:
            lit = ('{ let mut m = %s; if r.1 == 2 { for j in 0..4usize { m[(3usize, j)] = T::konst(if j == 3 { 1 } else { 0 }); } } m }' % lit)
        out.append('impl%s Gen for %s%s { fn gen(r: &mut Rng) -> Self { %s } }' % (ig, full, tg, lit))
        out.append('impl%s EqR for %s%s { fn eqr(&self, o: &Self) -> bool { %s } }' % (ig.replace(': Gen', ': EqR'), full, tg, eq))
    return '\n'.join(out)


PRELUDE = r'''
// mode 0: small dyadic values in [-3, 3]; mode 1: mostly 0 / 1 / -1 (reaches special-case branches and antecedents such as
// "the last row is (0,0,0,1)"); mode 2: like mode 0, with every 4x4 matrix made affine
// mode 3: every value repeats (possibly negated) one of the last values with probability 1/2 (equal end points, parallel / opposite vectors, symmetric matrices)
// mode 5: each value independently at scale 1, 1e-9 or 1e-5 (nearly coincident points next to ordinary radii)
// mode 4: mode 0 with every value scaled by 1e-4 or 1e-9 (reaches the epsilon-threshold branches: nearly degenerate segments, short axes)
pub struct Rng(pub u64, pub u8, pub [f64; 4], pub f64);
impl Rng { pub fn next(&mut self) -> u64 { self.0 = self.0.wrapping_mul(6364136223846793005).wrapping_add(1442695040888963407); (self.0 >> 33) } }
pub trait Gen: Sized { fn gen(r: &mut Rng) -> Self; fn konst(_v: i32) -> Self { unimplemented!() } }
fn gen_f(r: &mut Rng) -> f64 {
    let v = gen_f0(r) * (if r.1 == 5 { match r.next() % 4 { 0 | 1 => 1.0, 2 => 1e-9, _ => 1e-5 } } else { r.3 });
    let k = (r.next() % 4) as usize;
    if r.1 == 3 && r.next() % 2 == 0 { let w = r.2[k]; return if r.next() % 4 == 0 { -w } else { w }; }
    r.2[k] = v;
    v
}
fn gen_f0(r: &mut Rng) -> f64 {
    if r.1 == 1 { match r.next() % 8 { 0 | 1 | 2 => 0.0, 3 | 4 => 1.0, 5 => -1.0, 6 => 2.0, _ => 0.5 } } else { let v = ((r.next() % 13) as f64 - 6.0) / 2.0; if r.next() % 8 == 0 { v * 4.0 } else { v } }
}
impl Gen for f64 { fn gen(r: &mut Rng) -> f64 { gen_f(r) } fn konst(v: i32) -> f64 { v as f64 } }
impl Gen for f32 { fn gen(r: &mut Rng) -> f32 { gen_f(r) as f32 } fn konst(v: i32) -> f32 { v as f32 } }
macro_rules! gi { ($($t:ty)+) => { $(impl Gen for $t { fn gen(r: &mut Rng) -> $t { (r.next() % 5) as $t } fn konst(v: i32) -> $t { v as $t } })+ } }
gi!(u8 u16 u32 u64 usize i8 i16 i32 i64 isize);
impl Gen for bool { fn gen(r: &mut Rng) -> bool { r.next() % 2 == 0 } }
impl<A: Gen, B: Gen> Gen for (A, B) { fn gen(r: &mut Rng) -> Self { (A::gen(r), B::gen(r)) } }
impl<A: Gen, B: Gen, C: Gen> Gen for (A, B, C) { fn gen(r: &mut Rng) -> Self { (A::gen(r), B::gen(r), C::gen(r)) } }
impl<A: Gen, B: Gen, C: Gen, D: Gen> Gen for (A, B, C, D) { fn gen(r: &mut Rng) -> Self { (A::gen(r), B::gen(r), C::gen(r), D::gen(r)) } }
impl<A: Gen, const N: usize> Gen for [A; N] { fn gen(r: &mut Rng) -> Self { core::array::from_fn(|_| A::gen(r)) } }
impl<A: Gen> Gen for core::ops::Range<A> { fn gen(r: &mut Rng) -> Self { A::gen(r)..A::gen(r) } }
'''


def render_body(exp, specs, layouts, paths=None):
    """body.rs, included once per vek copy"""
    o = [PRELUDE, vexpr.RUST_SPEC_FNS, struct_gens(exp)]
    for k, (sp, layout) in enumerate(zip(specs, layouts)):
        uses = ['use super::vek::mat::repr_c::%s::*;' % layout, 'use super::vek::vec::repr_c::*;', 'use super::vek::quaternion::repr_c::*;',
                'use super::vek::geom::repr_c::*;', 'use super::vek::geom::FrustumPlanes;', 'use super::vek::bezier::repr_c::*;', 'use super::vek::transform::repr_c::*;',
                'use super::vek::transition::*;', 'use super::vek::ops::*;', 'use core::ops::*;', 'use super::vek::num_traits::{Zero, One};', 'use super::*;']
        for n_ in (2, 3, 4):      # the aliases bezier.rs / geom.rs use
            uses.append('use super::vek::mat::repr_c::row_major::Mat%d as Rows%d;' % (n_, n_))
            uses.append('use super::vek::mat::repr_c::column_major::Mat%d as Cols%d;' % (n_, n_))
        pm = re.search(r'mat::repr_c::(row_major|column_major)::mat(\d)', (paths or [''] * len(specs))[k])
        if pm:
            other = 'column_major' if pm.group(1) == 'row_major' else 'row_major'
            uses.append('use super::vek::mat::repr_c::%s::Mat%s as Transpose;' % (other, pm.group(2)))   # the module's own private alias
        lines = ['pub mod f%d {' % k] + ['    ' + x for x in uses]
        lines.append('    pub fn run(n: u32) -> Vec<(String, String, String, String)> {')
        lines.append('        let mut out = Vec::new();')
        lines.append('        for t in 0..n { let mut r = Rng(0x9E3779B97F4A7C15u64 ^ (t as u64 + 1).wrapping_mul(0xD1B54A32D192ED03), (t % 6) as u8, [0.0, 1.0, -1.0, 0.5], if t % 6 == 4 { if (t / 6) % 2 == 0 { 1e-4 } else { 1e-9 } } else { 1.0 });')
        names, ins, outs = [], [], []
        vn = {}
        if sp['recv']:
            lines.append('            let mut self__: %s = Gen::gen(&mut r); let self0__ = self__.clone();' % sp['self_ty'])
            ins.append('self0__')
            names.append({'val': 'self__.clone()', 'ref': '&self__', 'mut': '&mut self__'}[sp['recv']])
            vn['self'] = 'self0__'
            vn['old(self)'] = 'self0__'
            vn['final(self)'] = 'self__'
            if sp['recv'] == 'mut':
                outs.append('self__')
        for (nm, ty, mode) in sp['params']:
            lines.append('            let mut arg_%s__: %s = Gen::gen(&mut r); let arg_%s0__ = arg_%s__.clone();' % (nm, ty, nm, nm))
            ins.append('arg_%s0__' % nm)
            names.append({'val': 'arg_%s__.clone()', 'ref': '&arg_%s__', 'mut': '&mut arg_%s__'}[mode] % nm)
            vn[nm] = 'arg_%s0__' % nm
            vn['old(%s)' % nm] = 'arg_%s0__' % nm
            vn['final(%s)' % nm] = 'arg_%s__' % nm
            if mode == 'mut':
                outs.append('arg_%s__' % nm)
        c = sp.get('contract')
        if c is not None and c.ret:
            vn[c.ret] = 'res__'
        reqs, enss = [], []
        if sp.get('eval') and c is not None:
            for q in c.requires:
                if re.search(r'obeys_\w+_spec\(\)', q):
                    continue                      # specification plumbing of vstd's From/Into/operator traits: true at these instantiations
                try:
                    reqs.append(vexpr.to_rust(q, vn))
                except vexpr.Untranslatable:
                    reqs.append(None)
            for q in c.ensures:
                try:
                    enss.append(vexpr.to_rust(q, vn))
                except vexpr.Untranslatable:
                    enss.append(None)
        sp['n_req'], sp['n_ens'] = len(reqs), len(enss)
        callee = ('<%s as %s>::%s' % (sp['self_ty'], sp['trait'], sp['name'])) if sp['trait'] else ('<%s>::%s' % (sp['self_ty'], sp['name']))
        fmt_in = ', '.join('{:?}' for _ in ins)
        lines.append('            let inp = format!("%s"%s);' % (fmt_in, ''.join(', ' + x for x in ins)))
        ev = lambda e: ("match std::panic::catch_unwind(std::panic::AssertUnwindSafe(|| -> bool { %s })) { Ok(true) => '1', Ok(false) => '0', Err(_) => 'p' }" % e) \
            if e is not None else "'u'"
        lines.append('            let mut rq = String::new();')
        for e in reqs:
            lines.append('            rq.push(%s);' % ev(e))
        lines.append('            let res = std::panic::catch_unwind(std::panic::AssertUnwindSafe(|| {')
        lines.append('                let res__ = %s(%s);' % (callee, ', '.join(names)))
        lines.append('                let o = format!("{:?}%s", res__%s);' % (''.join(' | {:?}' for _ in outs), ''.join(', ' + x for x in outs)))
        lines.append('                let mut en = String::new();')
        for e in enss:
            lines.append('                en.push(%s);' % ev(e))
        lines.append('                (o, en) }));')
        lines.append('            let (o, en) = match res { Ok(x) => x, Err(_) => (String::from("PANIC"), String::new()) };')
        lines.append('            out.push((inp, o, rq, en));')
        lines.append('        }')
        lines.append('        out')
        lines.append('    }')
        lines.append('}')
        o.append('\n'.join(lines))
    return '\n'.join(o) + '\n'


def render_main(n):
    o = ['#![allow(unused, deprecated, ambiguous_glob_reexports, ambiguous_glob_imports)]', 'mod base { extern crate vek_base as vek; include!("body.rs"); }',
         'mod cur { extern crate vek_cur as vek; include!("body.rs"); }', 'fn main() {', '    std::panic::set_hook(Box::new(|_| {}));']
    for k in range(n):
        o.append('    { let a = base::f%d::run(%d); let b = cur::f%d::run(%d); for i in 0..a.len() { println!("%d\\t{}\\t{}\\t{}\\t{}\\t{}\\t{}", a[i].0, a[i].1, b[i].1, b[i].2, a[i].3, b[i].3); } }'
                 % (k, TRIALS, k, TRIALS, k))
    o.append('}')
    return '\n'.join(o) + '\n'


NUM_RX = re.compile(r'-?\d+(?:\.\d+)?(?:e[-+]?\d+)?|NaN|-?inf')


def differs(a, b):
    """textual difference beyond floating-point rounding noise"""
    if a == b:
        return False
    sa, sb = NUM_RX.split(a), NUM_RX.split(b)
    if sa != sb:
        return True
    for x, y in zip(NUM_RX.findall(a), NUM_RX.findall(b)):
        if x == y:
            continue
        try:
            fx, fy = float(x), float(y)
        except ValueError:
            return True
        if fx != fx and fy != fy:
            continue
        if fx != fx or fy != fy:
            return True
        if abs(fx - fy) > 1e-6 * max(1.0, abs(fx), abs(fy)):
            return True
    return False


def _huge(text):
    for x in NUM_RX.findall(text):
        try:
            if abs(float(x)) > 1e15:
                return True
        except ValueError:
            pass
    return False


def prepare_base(repo, workdir):
    base = os.path.join(workdir, 'base')
    shutil.rmtree(base, ignore_errors=True)
    os.makedirs(base)
    src = os.environ.get('VEKVERIF_BASE')
    if src:
        subprocess.run('cp -r %s/. %s/' % (src, base), shell=True, check=True)
    else:
        gitrepo = repo if os.path.exists(os.path.join(repo, '.git')) else '/repo'
        p = subprocess.run('git -C %s archive HEAD | tar -x -C %s' % (gitrepo, base), shell=True, capture_output=True, text=True)
        if p.returncode != 0:
            raise Unsupported('no baseline: ' + p.stderr[-300:])
    ct = os.path.join(base, 'Cargo.toml')
    t = open(ct).read()
    t = re.sub(r'(?m)^version\s*=\s*"([^"]*)"', lambda m: 'version = "%s-base"' % m.group(1).split('-')[0], t, count=1)
    open(ct, 'w').write(t)
    return base


def _top_level_implication(clause):
    try:
        toks = vexpr.tokenize(clause)
    except Exception:
        return True
    depth = 0
    for t in toks:
        if t in '([{':
            depth += 1
        elif t in ')]}':
            depth -= 1
        elif t == '==>' and depth <= 2:
            return True
    return False


def attempt(prop, violations, anchors, exp, repo, workdir, timeout=420):
    """-> list of dict(tag, found, ...) for the Verus violations whose function could be replayed"""
    todo = []
    seen = {}
    for v in violations:
        if v.get('backend') != 'verus':
            continue
        a = anchors.get(v.get('fn') or '') or anchors.get((v.get('tag') or '').rsplit('/', 1)[0])
        if not a:
            continue
        key = (a[0], a[1], a[2])
        m = re.search(r'/ens\.(\d+)$', v.get('tag') or '')
        if key in seen:
            if m:
                seen[key]['clauses'].add(int(m.group(1)))
            continue
        if len(todo) >= 40:
            continue
        rec = dict(v=v, a=a, clauses=set([int(m.group(1))] if m else []))
        seen[key] = rec
        todo.append(rec)
    if not todo:
        return []
    specs, layouts, metas, notes = [], [], [], []
    for rec in todo:
        v = rec['v']
        path, header, fname, nth = rec['a'][:4]
        contract = rec['a'][4] if len(rec['a']) > 4 else None
        try:
            impl, f = exp.find_fn(path, header, fname, nth)
            sp = call_spec(impl, f)
        except (Unsupported, LookupError, ValueError, AttributeError, IndexError) as e:
            notes.append(dict(tag=v['tag'], found=False, reason='not replayable mechanically: %s' % e))
            continue
        sp['contract'] = contract
        sp['eval'] = contract is not None
        sp['clauses'] = rec['clauses']
        specs.append(sp)
        layouts.append('row_major' if 'row_major' in path else 'column_major')
        metas.append((v, path, header, fname))
    if not specs:
        return notes
    rdir = os.path.join(workdir, 'replay_diff')
    shutil.rmtree(rdir, ignore_errors=True)
    os.makedirs(os.path.join(rdir, 'src'))
    try:
        base = prepare_base(repo, workdir)
    except Exception as e:
        return notes + [dict(tag=m[0]['tag'], found=False, reason=str(e)) for m in metas]
    feats = ', '.join('"%s"' % f for f in FEATURES)
    open(os.path.join(rdir, 'Cargo.toml'), 'w').write(
        '[package]\nname = "vek_replay"\nversion = "0.0.0"\nedition = "2021"\n[dependencies]\n'
        'vek_base = { package = "vek", path = "%s", default-features = false, features = [%s] }\n'
        'vek_cur = { package = "vek", path = "%s", default-features = false, features = [%s] }\n[workspace]\n[profile.dev]\ndebug = false\nopt-level = 0\n'
        % (base, feats, repo, feats))
    env = dict(os.environ, CARGO_NET_OFFLINE='true', CARGO_TARGET_DIR=os.path.join(os.environ.get('VEKVERIF_WORK', '/tmp/vekverif'), 'replay_target'))
    # a function whose harness does not compile first loses its clause evaluation (differential replay only), then is dropped
    alive = list(range(len(specs)))
    out = None
    for _round in range(2 * len(specs) + 1):
        if not alive:
            break
        open(os.path.join(rdir, 'src', 'body.rs'), 'w').write(render_body(exp, [specs[i] for i in alive], [layouts[i] for i in alive], [metas[i][1] for i in alive]))
        open(os.path.join(rdir, 'src', 'main.rs'), 'w').write(render_main(len(alive)))
        try:
            p = subprocess.run(['cargo', 'run', '--offline', '-q'], cwd=rdir, env=env, capture_output=True, text=True, timeout=timeout)
        except subprocess.TimeoutExpired:
            return notes + [dict(tag=m[0]['tag'], found=False, reason='replay build/run timed out') for m in metas]
        if p.returncode == 0:
            out = p.stdout
            break
        bad = set()
        body_lines = open(os.path.join(rdir, 'src', 'body.rs')).read().split('\n')
        starts = [i for i, l in enumerate(body_lines) if l.startswith('pub mod f')]
        for mm in re.finditer(r'src/body\.rs:(\d+):', p.stderr):
            ln = int(mm.group(1)) - 1
            k = max([q for q, s0 in enumerate(starts) if s0 <= ln] or [-1])
            if k >= 0:
                bad.add(k)
        if not bad:
            return notes + [dict(tag=m[0]['tag'], found=False, reason='replay harness did not build: ' + p.stderr[-600:]) for m in metas]
        for k in sorted(bad, reverse=True):
            i = alive[k]
            if specs[i].get('eval'):
                specs[i]['eval'] = False
                specs[i]['eval_dropped'] = 'the translated clauses did not type-check in Rust: ' + ' / '.join(re.findall(r'(?m)^error[^\n]*', p.stderr)[:3])[:400]
            else:
                notes.append(dict(tag=metas[i][0]['tag'], found=False, reason='replay harness for this function does not compile at f64: '
                                  + ' / '.join(re.findall(r'(?m)^error[^\n]*', p.stderr)[:3])[:400]))
                del alive[k]
    # keep the shared target directory small: the dependency builds stay cached, the per-run artefacts go
    try:
        tdir = os.path.join(env['CARGO_TARGET_DIR'], 'debug')
        shutil.rmtree(os.path.join(tdir, 'incremental'), ignore_errors=True)
        for sub in ('deps', '.fingerprint', ''):
            dd = os.path.join(tdir, sub) if sub else tdir
            if os.path.isdir(dd):
                for fn in os.listdir(dd):
                    if fn.startswith('vek_replay') or fn.startswith('libvek-') or fn.startswith('vek-'):
                        pth = os.path.join(dd, fn)
                        shutil.rmtree(pth, ignore_errors=True) if os.path.isdir(pth) else os.remove(pth)
    except OSError:
        pass
    if out is None:
        return notes
    rows = {}
    for line in out.split('\n'):
        parts = line.split('\t')
        if len(parts) != 7:
            continue
        rows.setdefault(int(parts[0]), []).append(parts[1:])
    for q, i in enumerate(alive):
        v, path, header, fname = metas[i]
        sp = specs[i]
        c = sp.get('contract')
        call = ('<%s as %s>::%s' % (sp['self_ty'], sp['trait'], sp['name'])) if sp['trait'] else ('<%s>::%s' % (sp['self_ty'], sp['name']))
        call += '(' + ', '.join((['self'] if sp['recv'] else []) + [p_[0] for p_ in sp['params']]) + ')'
        best, diff = None, None
        for (inp, ob, oc, rq, eb, ec) in rows.get(q, []):
            if re.search(r'NaN|inf', ob) or ob == 'PANIC' or _huge(ob):
                continue        # HEAD itself is singular on this input in f64 (division by ~0 or by rounding noise, overflow): not a usable witness either way
            req_ok = '0' not in rq and 'p' not in rq
            if sp.get('eval') and req_ok and 'u' not in rq and ec:
                bad_k = [k for k in range(len(ec)) if ec[k] == '0' and k < len(eb) and eb[k] == '1']
                pref = [k for k in bad_k if k in sp['clauses']] or bad_k
                if pref and best is None:
                    best = dict(input=inp, result_now=oc, result_at_HEAD=ob, clause_index=pref[0], clause=(c.ensures[pref[0]][:600] if c else ''))
            if diff is None and differs(ob, oc):
                diff = dict(input=inp, result_at_HEAD=ob, result_now=oc, requires_evaluated=rq)
            if best:
                break
        if best:
            notes.append(dict(tag=v['tag'], fn=v.get('fn'), found=True, call=call,
                              source='the refuted ensures clause evaluated on the real code (T = f64, tolerance 1e-6): true at HEAD, false in the working tree; '
                                     'every requires clause evaluated to true on this input', **best))
        elif diff and c is not None and not c.requires and not any(_top_level_implication(c.ensures[k]) for k in (sp['clauses'] or range(len(c.ensures)))
                                                                   if k < len(c.ensures)):
            notes.append(dict(tag=v['tag'], found=True, call=call,
                              source='differential replay on the real code (HEAD, which satisfies the unconditional functional postcondition, vs working tree; T = f64)',
                              **diff))
        elif diff:
            notes.append(dict(tag=v['tag'], found=False, call=call, behavioural_difference=diff,
                              reason='the result differs from HEAD on this input, but the precondition / antecedent of the refuted clause could not be evaluated on it'
                                     + ((' (' + sp['eval_dropped'] + ')') if sp.get('eval_dropped') else '')))
        else:
            rws = rows.get(q, [])
            n_req = len([1 for r_ in rws if '0' not in r_[3] and 'p' not in r_[3] and 'u' not in r_[3]])
            evaluated = bool(sp.get('eval')) and bool(rws) and any(ch in '01' for r_ in rws[:50] for ch in r_[5])
            no_panic_gap = not any((r_[1] == 'PANIC') != (r_[2] == 'PANIC') for r_ in rws)
            notes.append(dict(tag=v['tag'], fn=v.get('fn'), found=False, call=call,
                              indistinguishable=bool(len(rws) == TRIALS and no_panic_gap),   # equal to HEAD (which satisfies the contract) on every input
                              trials=len(rws), trials_with_requires_true=n_req, clauses_evaluated=evaluated, panic_on_one_side_only=not no_panic_gap,
                              clause_evaluation_dropped=sp.get('eval_dropped'),
                              reason='%d pseudo-random inputs (generic, special-value, affine, repeated-value and tiny-scale modes): no input refutes a clause, '
                                     'no difference from HEAD' % TRIALS))
    return notes
