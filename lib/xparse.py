"""Item-level reader for rustc's `-Zunpretty=expanded` output.

This is not a Rust parser.  It reads *items* (mod / impl / trait / fn / struct / use / const /
type / macro leftovers) by matching braces while skipping comments, strings, char literals and
lifetimes, and keeps for each item: its attributes, its header (text before the body), its body
(raw text for fn, child items for mod/impl/trait) and its line span in the expansion.
Bodies of functions are never re-printed or re-formatted: they are copied verbatim.
"""
import re

WS = re.compile(r'\s+')


def norm(s):
    """whitespace-normalised form used to compare headers"""
    s = WS.sub(' ', s).strip()
    # the pretty printer breaks lines inside generics; remove spaces around punctuation
    s = re.sub(r'\s*([<>(),:;=+&\[\]])\s*', r'\1', s)
    return s


class Item:
    __slots__ = ('kind', 'attrs', 'header', 'body', 'children', 'start', 'end', 'name', 'path', 'parent')

    def __init__(self, kind, attrs, header, body, children, start, end):
        self.kind = kind          # mod impl trait fn struct use const type other
        self.attrs = attrs        # list of attribute / doc strings (dropped on output: D1)
        self.header = header      # text up to (not including) the body's '{' or the final ';'
        self.body = body          # raw text including outer braces ('' if none)
        self.children = children  # list[Item] for mod/impl/trait
        self.start = start
        self.end = end
        self.name = None
        self.path = ''
        self.parent = None

    def nheader(self):
        return norm(self.header)

    def __repr__(self):
        return '<%s %s @%d>' % (self.kind, self.nheader()[:60], self.start)


class Scanner:
    def __init__(self, text):
        self.t = text
        self.n = len(text)

    def skip_trivia(self, i):
        """skip whitespace and non-doc comments; returns new index"""
        t, n = self.t, self.n
        while i < n:
            c = t[i]
            if c in ' \t\r\n':
                i += 1
            elif t.startswith('//', i) and not (t.startswith('///', i) and not t.startswith('////', i)) \
                    and not t.startswith('//!', i):
                j = t.find('\n', i)
                i = n if j < 0 else j + 1
            elif t.startswith('/*', i) and not t.startswith('/**', i):
                i = self.skip_block_comment(i)
            else:
                break
        return i

    def skip_block_comment(self, i):
        t, n = self.t, self.n
        depth = 0
        while i < n:
            if t.startswith('/*', i):
                depth += 1
                i += 2
            elif t.startswith('*/', i):
                depth -= 1
                i += 2
                if depth == 0:
                    return i
            else:
                i += 1
        return n

    def skip_string(self, i):
        """t[i] == '"'"""
        t, n = self.t, self.n
        i += 1
        while i < n:
            c = t[i]
            if c == '\\':
                i += 2
            elif c == '"':
                return i + 1
            else:
                i += 1
        return n

    def skip_raw_string(self, i):
        """t[i] == 'r' and looks like r#*" ; returns index after or None"""
        t = self.t
        j = i + 1
        hashes = 0
        while j < self.n and t[j] == '#':
            hashes += 1
            j += 1
        if j < self.n and t[j] == '"':
            close = '"' + '#' * hashes
            k = t.find(close, j + 1)
            return self.n if k < 0 else k + len(close)
        return None

    def skip_quote(self, i):
        """t[i] == "'" : char literal or lifetime"""
        t, n = self.t, self.n
        if i + 2 < n and t[i + 1] == '\\':
            j = t.find("'", i + 2)
            # '\'' case
            if t[i + 2] == "'":
                j = t.find("'", i + 3)
            return n if j < 0 else j + 1
        if i + 2 < n and t[i + 2] == "'":
            return i + 3
        # multi-byte char literal e.g. 'é' already covered (python str = code points); else lifetime
        return i + 1

    def skip_code_to(self, i, stops):
        """advance over code (handling strings/comments/nesting of (), [], {}) until a char in
        `stops` is met at nesting depth 0; returns its index (or n)"""
        t, n = self.t, self.n
        depth = 0
        while i < n:
            c = t[i]
            if c == '"':
                i = self.skip_string(i)
                continue
            if c == "'":
                i = self.skip_quote(i)
                continue
            if c == 'r' and i + 1 < n and t[i + 1] in '#"' and not (i > 0 and (t[i - 1].isalnum() or t[i - 1] == '_')):
                j = self.skip_raw_string(i)
                if j is not None:
                    i = j
                    continue
            if c == 'b' and i + 1 < n and t[i + 1] == '"' and not (i > 0 and (t[i - 1].isalnum() or t[i - 1] == '_')):
                i = self.skip_string(i + 1)
                continue
            if t.startswith('//', i):
                j = t.find('\n', i)
                i = n if j < 0 else j + 1
                continue
            if t.startswith('/*', i):
                i = self.skip_block_comment(i)
                continue
            if depth == 0 and c in stops:
                return i
            if c in '([{':
                depth += 1
            elif c in ')]}':
                depth -= 1
                if depth < 0:
                    return i
            i += 1
        return n

    def match_brace(self, i):
        """t[i] == '{' ; returns index just after the matching '}'"""
        j = self.skip_code_to(i + 1, '')
        return j + 1


KEYWORDS = ('mod', 'impl', 'trait', 'fn', 'struct', 'enum', 'union', 'use', 'const', 'static', 'type',
            'extern', 'macro_rules', 'macro')


def item_kind(header):
    h = header.strip()
    # strip visibility and qualifiers
    h = re.sub(r'^pub(\s*\([^)]*\))?\s+', '', h)
    toks = h.split()
    quals = {'unsafe', 'default', 'async', 'const', 'extern', 'pub'}
    # "const fn", "unsafe impl", "const X: .."
    k = 0
    while k < len(toks):
        tk = toks[k]
        base = re.match(r'[A-Za-z_]+', tk)
        base = base.group(0) if base else tk
        if base in ('mod', 'impl', 'trait', 'fn', 'struct', 'enum', 'union', 'use', 'static', 'type',
                    'macro_rules', 'macro'):
            return base
        if base == 'const':
            # const fn / const unsafe fn -> fn ; otherwise const item
            rest = toks[k + 1:k + 4]
            if any(re.match(r'fn\b', r) for r in rest[:3]) and not re.match(r'[A-Z_]', rest[0] if rest else ''):
                k += 1
                continue
            return 'const'
        if base in quals or tk.startswith('"'):
            k += 1
            continue
        break
    return 'other'


def item_name(kind, header):
    h = norm(header)
    if kind == 'fn':
        m = re.search(r'\bfn ([A-Za-z_][A-Za-z0-9_]*)', WS.sub(' ', header))
        return m.group(1) if m else None
    if kind in ('mod', 'struct', 'trait', 'enum', 'union', 'type', 'const', 'static'):
        m = re.search(r'\b%s ([A-Za-z_][A-Za-z0-9_]*)' % kind, WS.sub(' ', header))
        return m.group(1) if m else None
    return h


def parse_items(sc, i, end, line_of):
    """parse items in sc.t[i:end]"""
    items = []
    t = sc.t
    while True:
        i = sc.skip_trivia(i)
        if i >= end:
            break
        start = i
        attrs = []
        # attributes and doc comments
        while True:
            i = sc.skip_trivia(i)
            if i >= end:
                break
            if t.startswith('///', i) or t.startswith('//!', i):
                j = t.find('\n', i)
                j = end if j < 0 else j
                attrs.append(t[i:j])
                i = j + 1
            elif t.startswith('/**', i):
                j = sc.skip_block_comment(i)
                attrs.append(t[i:j])
                i = j
            elif t[i] == '#' and (t[i + 1] == '[' or t.startswith('#![', i)):
                k = t.index('[', i)
                j = sc.skip_code_to(k + 1, '') + 1
                attrs.append(t[i:j])
                i = j
            else:
                break
        if i >= end:
            break
        hstart = i
        # header: up to '{' or ';' at depth 0.  `use` and friends end at ';'
        m = re.match(r'(pub(\s*\([^)]*\))?\s+)?use\b', t[i:i + 40])
        if m:
            j = sc.skip_code_to(i, ';')
            it = Item('use', attrs, t[hstart:j], '', None, line_of(start), line_of(j))
            it.name = norm(it.header)
            items.append(it)
            i = j + 1
            continue
        j = sc.skip_code_to(i, '{;')
        if j >= end:
            # trailing junk
            break
        header = t[hstart:j]
        kind = item_kind(header)
        if t[j] == ';':
            it = Item(kind, attrs, header, '', None, line_of(start), line_of(j))
            it.name = item_name(kind, header)
            items.append(it)
            i = j + 1
            continue
        # '{'
        if kind in ('const', 'static') or (kind == 'type'):
            # initializer with braces: read to the terminating ';'
            k = sc.skip_code_to(j, ';')
            it = Item(kind, attrs, t[hstart:k], '', None, line_of(start), line_of(k))
            it.name = item_name(kind, header)
            items.append(it)
            i = k + 1
            continue
        k = sc.match_brace(j)
        body = t[j:k]
        children = None
        if kind in ('mod', 'impl', 'trait'):
            children = parse_items(sc, j + 1, k - 1, line_of)
        it = Item(kind, attrs, header, body, children, line_of(start), line_of(k))
        it.name = item_name(kind, header)
        items.append(it)
        i = k
        # struct with trailing ';' never has braces; macro_rules may have trailing ';'
        ii = sc.skip_trivia(i)
        if kind in ('macro_rules', 'other') and ii < end and t[ii] == ';':
            i = ii + 1
    return items


def parse_file(path):
    text = open(path, encoding='utf-8').read()
    # line lookup
    import bisect
    nl = [k for k, c in enumerate(text) if c == '\n']

    def line_of(pos):
        return bisect.bisect_left(nl, pos) + 1
    sc = Scanner(text)
    items = parse_items(sc, 0, len(text), line_of)
    _annotate(items, '', None)
    return items


def _annotate(items, path, parent):
    for it in items:
        it.path = path
        it.parent = parent
        if it.children is not None:
            sub = path
            if it.kind == 'mod':
                sub = (path + '::' if path else '') + (it.name or '?')
            _annotate(it.children, sub, it)


def walk(items):
    for it in items:
        yield it
        if it.children is not None:
            yield from walk(it.children)


if __name__ == '__main__':
    import sys
    items = parse_file(sys.argv[1])
    from collections import Counter
    c = Counter()
    for it in walk(items):
        c[it.kind] += 1
    print(c)
    if len(sys.argv) > 2:
        for it in walk(items):
            if it.path == sys.argv[2] and it.kind in ('impl', 'struct', 'trait'):
                print(it.start, it.kind, it.nheader()[:150], len(it.children or []))
