"""Replay of refuted obligations against the real code.

Verus gives no counterexample.  For a refuted obligation this module tries, in order:
  * the z3-nlsat model (lemma refuted): evaluated on the real code by the replay crate when a
    binding from lemma parameters to an API call is registered for that lemma;
  * Kani's concrete values (already extracted by kani_driver);
  * a seeded search over small rationals for units that registered a replay program.
When none reproduces, the replay file still names the obligation and carries the verifier's output and
the VIOLATION line ends with `no-failing-input-found`.
"""
import os
import json

REGISTRY = {}   # tag prefix -> callable(violation, workdir, seed) -> dict(found=bool, ...)


def register(prefix, fn):
    REGISTRY[prefix] = fn


def attempt(prop, violations, workdir, seed):
    found = False
    details = []
    for v in violations:
        if v.get('backend') == 'kani' and v.get('input'):
            found = True
            details.append(dict(tag=v['tag'], source='kani concrete playback', input=v['input']))
            continue
        for pre, fn in REGISTRY.items():
            if v['tag'].startswith(pre):
                try:
                    r = fn(v, workdir, seed)
                except Exception as e:  # replay is best effort
                    r = dict(found=False, error=repr(e))
                if r.get('found'):
                    found = True
                details.append(dict(tag=v['tag'], **r))
                break
    return dict(failing_input_found=found, details=details)
