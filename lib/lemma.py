"""Layer 2: arithmetic lemmas over real parameters, stated once (expr trees), used by Verus as
`external_body` proof fns and discharged here by z3 (nlsat) / cvc5 as QF_NRA queries."""
import os
import subprocess
import time
import re
from fractions import Fraction
import expr as X

Z3_VERUS = '/opt/veriftools/verus/z3'
SOLVERS = {
    'z3-nlsat': [Z3_VERUS, '-smt2'],
    'z3-5.1': ['z3-new', '-smt2'],
    'cvc5': ['cvc5', '--lang=smt2', '--produce-models'],
}


class Lemma:
    def __init__(self, name, params, hyps, concl, doc='', split=True):
        self.name = name
        self.params = params      # list of X.var
        self.hyps = list(hyps)    # boolean trees
        self.concl = list(concl)  # boolean trees (conjuncts)
        self.doc = doc
        self.split = split

    # ---- Verus side ------------------------------------------------------------------------
    def verus_text(self, prop):
        ps = ', '.join('%s: real' % p.val[0] for p in self.params)
        s = '/// @arith %s/L.%s   discharged outside Verus by z3-nlsat (cvc5 / z3 5.1 re-check)\n' % (prop, self.name)
        s += '#[verifier::external_body]\npub proof fn %s(%s)\n' % (self.name, ps)
        if self.hyps:
            s += '    requires\n' + ''.join('        %s,\n' % X.verus(h) for h in self.hyps)
        s += '    ensures\n' + ''.join('        %s,\n' % X.verus(c) for c in self.concl)
        s += '{}\n'
        return s

    # ---- SMT side --------------------------------------------------------------------------
    def _divmap(self):
        """divisors that a hypothesis states non-zero get a reciprocal variable"""
        divs = {}
        for t in self.hyps + self.concl:
            X.divisors(t, divs)
        known = {}
        for h in self.hyps:
            if h.op in ('!=', '>', '<') and h.args[1].op == 'const' and h.args[1].val == 0:
                known[h.args[0].key()] = h.args[0]
            if h.op == '<' and h.args[0].op == 'const' and h.args[0].val == 0:
                known[h.args[1].key()] = h.args[1]
        dm = {}
        defs = []
        for k, d in divs.items():
            if k in known:
                nm = 'inv__%d' % len(defs)
                dm[k] = nm
                defs.append((nm, d))
        # a divisor that a hypothesis equates with a known non-zero one shares its reciprocal
        # (sound: under `a == b`, x/a == x/b)
        for h in self.hyps:
            if h.op == '==':
                a, b = h.args
                for (p, q) in ((a, b), (b, a)):
                    if p.key() in divs and p.key() not in dm and q.key() in known:
                        if q.key() not in dm:
                            nm = 'inv__%d' % len(defs)
                            dm[q.key()] = nm
                            defs.append((nm, q))
                        dm[p.key()] = dm[q.key()]
        return dm, defs

    def query(self, goal_idx=None, negate=True):
        dm, defs = self._divmap()
        lines = ['(set-logic QF_NRA)']
        for p in self.params:
            lines.append('(declare-const %s Real)' % p.val[0])
        for nm, d in defs:
            lines.append('(declare-const %s Real)' % nm)
        for nm, d in defs:
            lines.append('(assert (= (* %s %s) 1.0))' % (nm, X.smt(d, dm)))
        for h in self.hyps:
            lines.append('(assert %s)' % X.smt(h, dm))
        if negate:
            goals = self.concl if goal_idx is None else [self.concl[goal_idx]]
            g = ' '.join(X.smt(c, dm) for c in goals)
            lines.append('(assert (not (and %s true)))' % g)
        lines.append('(check-sat)')
        lines.append('(get-model)')
        return '\n'.join(lines) + '\n'

    def goals(self):
        return list(range(len(self.concl))) if self.split else [None]


def run_solver(solver, text, timeout, workdir, tag):
    path = os.path.join(workdir, 'L_%s.smt2' % re.sub(r'[^A-Za-z0-9_.-]', '_', tag))
    with open(path, 'w') as f:
        f.write(text)
    cmd = list(SOLVERS[solver])
    if solver.startswith('z3'):
        cmd += ['-T:%d' % timeout, path]
    else:
        cmd += ['--tlimit=%d' % (timeout * 1000), path]
    t0 = time.time()
    try:
        p = subprocess.run(cmd, capture_output=True, text=True, timeout=timeout + 10)
        out = p.stdout + p.stderr
    except subprocess.TimeoutExpired:
        out = 'timeout'
    dt = time.time() - t0
    first = out.strip().split('\n')[0].strip() if out.strip() else 'unknown'
    if first not in ('sat', 'unsat'):
        first = 'unknown' if 'timeout' not in out else 'timeout'
    model = parse_model(out) if first == 'sat' else None
    return first, model, dt, out[:4000]


NUM = r'\(?\s*-?\s*[0-9.]+\s*\)?'


def parse_model(out):
    """best effort: rational / decimal values of declared consts"""
    m = {}
    for mm in re.finditer(r'\(define-fun\s+(\S+)\s+\(\)\s+Real\s+(.*?)\)\s*(?=\(define-fun|\)\s*$)', out, re.S):
        name, val = mm.group(1), mm.group(2).strip()
        v = _num(val)
        if v is not None:
            m[name] = v
        else:
            m[name] = val
    return m


def _num(s):
    s = s.strip()
    try:
        mm = re.fullmatch(r'\(-\s+(.*)\)', s, re.S)
        if mm:
            v = _num(mm.group(1))
            return -v if v is not None else None
        mm = re.fullmatch(r'\(/\s+(\S+)\s+(\S+)\)', s)
        if mm:
            return Fraction(mm.group(1).rstrip('.0') or '0') / Fraction(mm.group(2).rstrip('.0') or '0') \
                if False else Fraction(_dec(mm.group(1))) / Fraction(_dec(mm.group(2)))
        if re.fullmatch(r'-?[0-9]+(\.[0-9]+)?\??', s):
            return Fraction(_dec(s.rstrip('?')))
    except Exception:
        return None
    return None


def _dec(s):
    return s


PORTFOLIO = [
    ('z3-4.16 solve-eqs+smt', [Z3_VERUS, '-smt2'], '(check-sat-using (then simplify solve-eqs smt))'),
    ('z3-4.16 default(nlsat)', [Z3_VERUS, '-smt2'], None),
    ('z3-5.1 default', ['z3-new', '-smt2'], None),
]


def run_portfolio(text, timeout, workdir, tag):
    """run the z3 configurations in parallel; the first sat/unsat answer wins"""
    base = os.path.join(workdir, 'L_%s' % re.sub(r'[^A-Za-z0-9_.-]', '_', tag))
    procs = []
    t0 = time.time()
    for k, (name, cmd, tactic) in enumerate(PORTFOLIO):
        path = '%s.p%d.smt2' % (base, k)
        with open(path, 'w') as f:
            f.write(text.replace('(check-sat)', tactic) if tactic else text)
        try:
            pr = subprocess.Popen(cmd + ['-T:%d' % timeout, path], stdout=subprocess.PIPE, stderr=subprocess.STDOUT, text=True)
        except OSError:
            continue
        procs.append((name, pr))
    answer = ('unknown', None, 0.0, '', None)
    pending = list(procs)
    while pending and time.time() - t0 < timeout + 5:
        for (name, pr) in list(pending):
            if pr.poll() is not None:
                pending.remove((name, pr))
                out = pr.stdout.read()
                first = out.strip().split('\n')[0].strip() if out.strip() else 'unknown'
                if first in ('sat', 'unsat'):
                    model = parse_model(out) if first == 'sat' else None
                    answer = (first, model, time.time() - t0, out[:4000], name)
                    pending = []
                    break
        else:
            time.sleep(0.01)
    for (_n, pr) in procs:
        if pr.poll() is None:
            pr.kill()
            try:
                pr.wait(timeout=5)
            except Exception:
                pass
    if answer[0] == 'unknown':
        answer = ('timeout' if time.time() - t0 >= timeout else 'unknown', None, time.time() - t0, '', None)
    return answer


def discharge(lemma, workdir, timeout=60, solver='z3-nlsat'):
    """returns list of dict(goal, status, time, model, out) + vacuity dict"""
    res = []
    for g in lemma.goals():
        st, model, dt, out = run_solver(solver, lemma.query(g), timeout, workdir,
                                        '%s.%s.%s' % (lemma.name, 'all' if g is None else g, solver))
        res.append(dict(goal=g, status=st, time=dt, model=model, out=out if st != 'unsat' else ''))
    return res


def vacuity(lemma, workdir, timeout=30, solver='z3-nlsat'):
    st, model, dt, out = run_solver(solver, lemma.query(negate=False), timeout, workdir,
                                    '%s.hyps.%s' % (lemma.name, solver))
    return dict(status=st, time=dt)
