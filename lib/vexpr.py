"""Translation of the (restricted) Verus expression language used in the generated contracts into executable Rust over f64,
so that a refuted `ensures` clause can be *evaluated* on the real code for a concrete input (lib/replay_diff.py).

Supported: literals (`2real`, `0`), identifiers, field / tuple access, `.v@`, `x@[k]`, method calls, prelude spec functions
(sqrt_r, abs_r, min_r, ... provided as Rust functions by the replay harness), unary - and !, `* / % + -`, chained comparisons,
`== !=` (through the tolerant structural equality `eqr`), `&& || ==>`, `if .. { } else { }`, `({ let x = e; ... e })`,
`old(self)`, `final(self)`, `as real` / `as int`.  Anything else (quantifiers, call_ensures, spec-trait paths) raises Untranslatable."""
import re


class Untranslatable(Exception):
    pass


TOK = re.compile(r'\s*(==>|<==>|&&&|\|\|\||==|!=|<=|>=|&&|\|\||::|->|[A-Za-z_]\w*|\d+(?:\.\d+)?(?:real|int|nat|u8|u16|u32|u64|usize|i32|i64)?|.)', re.S)
KEYWORDS_UNSUPPORTED = {'forall', 'exists', 'call_ensures', 'call_requires', 'choose', 'seq', 'arbitrary', 'spec_index'}
SPEC_FNS = {'sqrt_r', 'abs_r', 'min_r', 'max_r', 'eps_r', 'pi_r', 'floor_r', 'ceil_r', 'round_r', 'trunc_r', 'fract_r', 'sin_r', 'cos_r',
            'tan_r', 'acos_r', 'asin_r', 'atan_r', 'atan2_r', 'rel_eq_r', 'signum_r', 'exp_r', 'ln_r', 'powf_r', 'full_r'}


def tokenize(s):
    out = []
    i = 0
    s = s.strip()
    while i < len(s):
        m = TOK.match(s, i)
        if not m:
            break
        t = m.group(1)
        i = m.end()
        if t.strip() == '':
            continue
        out.append(t)
    return out


class P:
    def __init__(self, text, names):
        self.t = tokenize(text)
        self.i = 0
        self.names = names      # identifier -> Rust expression (self, params, res, old/final handled separately)

    def peek(self, k=0):
        return self.t[self.i + k] if self.i + k < len(self.t) else None

    def eat(self, x=None):
        t = self.peek()
        if t is None or (x is not None and t != x):
            raise Untranslatable('expected %r, found %r' % (x, t))
        self.i += 1
        return t

    # precedence climbing ---------------------------------------------------------------------
    def expr(self):
        return self.implies()

    def implies(self):
        a = self.or_()
        if self.peek() == '==>':
            self.eat()
            b = self.implies()
            return '(!(%s) || (%s))' % (a, b)
        if self.peek() == '<==>':
            self.eat()
            b = self.implies()
            return '((%s) == (%s))' % (a, b)
        return a

    def or_(self):
        a = self.and_()
        while self.peek() == '||':
            self.eat()
            a = '(%s || %s)' % (a, self.and_())
        return a

    def and_(self):
        a = self.cmp()
        while self.peek() == '&&':
            self.eat()
            a = '(%s && %s)' % (a, self.cmp())
        return a

    def cmp(self):
        first = self.add()
        ops, terms = [], [first]
        while self.peek() in ('==', '!=', '<', '<=', '>', '>='):
            # `<` could open generics only after `::`/idents in type position, which this subset never has in expressions
            ops.append(self.eat())
            terms.append(self.add())
        if not ops:
            return first
        parts = []
        for k, op in enumerate(ops):
            a, b = terms[k], terms[k + 1]
            if op == '==':
                parts.append('eqr(&(%s), &(%s))' % (a, b))
            elif op == '!=':
                parts.append('!eqr(&(%s), &(%s))' % (a, b))
            else:
                parts.append('((%s) %s (%s))' % (a, op, b))
        return '(' + ' && '.join(parts) + ')'

    def add(self):
        a = self.mul()
        while self.peek() in ('+', '-'):
            op = self.eat()
            a = '(%s %s %s)' % (a, op, self.mul())
        return a

    def mul(self):
        a = self.cast()
        while self.peek() in ('*', '/', '%'):
            op = self.eat()
            a = '(%s %s %s)' % (a, op, self.cast())
        return a

    def cast(self):
        a = self.unary()
        while self.peek() == 'as':
            self.eat()
            ty = self.eat()
            if ty in ('real',):
                a = '((%s) as f64)' % a
            elif ty in ('int', 'nat'):
                a = '((%s) as i64)' % a
            else:
                a = '((%s) as %s)' % (a, ty)
        return a

    def unary(self):
        t = self.peek()
        if t == '-':
            self.eat()
            return '(-%s)' % self.unary()
        if t == '!':
            self.eat()
            return '(!%s)' % self.unary()
        return self.postfix()

    def postfix(self):
        a = self.primary()
        while True:
            t = self.peek()
            if t == '.':
                self.eat()
                f = self.eat()
                if f == 'v' and self.peek() == '@':
                    self.eat()
                    continue                      # `.v@`: the real value of the exact scalar is the f64 itself
                if re.fullmatch(r'\d+', f):
                    a = '%s.%s' % (a, f)
                    continue
                if f == 'into_spec' and self.peek() == '(':
                    self.args()                   # every `V: Into<X>` is instantiated at X itself: the conversion is the identity
                    continue
                if f in ('from_spec', 'view', 'spec_index'):
                    raise Untranslatable('spec-trait call .%s' % f)
                if self.peek() == '(':
                    args = self.args()
                    a = '%s.%s(%s)' % (a, f, ', '.join(args))
                else:
                    a = '%s.%s' % (a, f)
            elif t == '@':
                self.eat()
                if self.peek() == '[':
                    self.eat()
                    k = self.expr()
                    self.eat(']')
                    a = '%s[(%s) as usize]' % (a, k)
                # a bare `@` (view) of an array / exact scalar: identity
            elif t == '[':
                self.eat()
                k = self.expr()
                self.eat(']')
                a = '%s[(%s) as usize]' % (a, k)
            else:
                return a

    def args(self):
        self.eat('(')
        out = []
        while self.peek() != ')':
            out.append(self.expr())
            if self.peek() == ',':
                self.eat()
        self.eat(')')
        return out

    def block(self):
        self.eat('{')
        stmts = []
        while self.peek() == 'let':
            self.eat()
            if self.peek() == 'ghost':
                self.eat()
            nm = self.eat()
            self.eat('=')
            e = self.expr()
            self.eat(';')
            stmts.append('let %s = %s;' % (nm, e))
        e = self.expr()
        self.eat('}')
        return '{ %s %s }' % (' '.join(stmts), e)

    def primary(self):
        t = self.peek()
        if t is None:
            raise Untranslatable('unexpected end')
        if t == '(':
            self.eat()
            if self.peek() == '{':
                b = self.block()
                self.eat(')')
                return '(%s)' % b
            e = self.expr()
            if self.peek() == ',':          # tuple
                items = [e]
                while self.peek() == ',':
                    self.eat()
                    if self.peek() == ')':
                        break
                    items.append(self.expr())
                self.eat(')')
                return '(%s)' % ', '.join(items)
            self.eat(')')
            return '(%s)' % e
        if t == '{':
            return self.block()
        if t == 'if':
            self.eat()
            c = self.expr()
            a = self.block()
            self.eat('else')
            b = ('{ %s }' % self.primary()) if self.peek() == 'if' else self.block()
            return '(if %s %s else %s)' % (c, a, b)
        m = re.fullmatch(r'(\d+(?:\.\d+)?)(real|int|nat|u8|u16|u32|u64|usize|i32|i64)?', t)
        if m:
            self.eat()
            if m.group(2) == 'real':
                return '(%s_f64)' % (m.group(1) if '.' in m.group(1) else m.group(1) + '.0')
            if m.group(2) in ('int', 'nat'):
                return '(%s_i64)' % m.group(1)
            return t
        if re.fullmatch(r'[A-Za-z_]\w*', t):
            self.eat()
            if t in KEYWORDS_UNSUPPORTED:
                raise Untranslatable(t)
            if t in ('old', 'final') and self.peek() == '(':
                self.eat('(')
                inner = self.eat()
                self.eat(')')
                key = '%s(%s)' % (t, inner)
                if key not in self.names:
                    raise Untranslatable(key)
                return self.names[key]
            if t in ('true', 'false'):
                return t
            if t in ('Some', 'None'):
                if t == 'Some' and self.peek() == '(':
                    return 'Some(%s)' % ', '.join(self.args())
                return t
            if self.peek() == '::':
                raise Untranslatable('path expression %s::' % t)
            if self.peek() == '(':
                if t not in SPEC_FNS:
                    raise Untranslatable('call of %s' % t)
                return '%s(%s)' % (t, ', '.join(self.args()))
            if t in self.names:
                return self.names[t]
            return t        # a let-bound name of an enclosing block
        if t == '<':
            raise Untranslatable('qualified path')
        raise Untranslatable('token %r' % t)


def to_rust(text, names):
    p = P(text, names)
    e = p.expr()
    if p.peek() is not None:
        raise Untranslatable('trailing %r' % p.peek())
    return e


RUST_SPEC_FNS = r'''
pub fn sqrt_r(x: f64) -> f64 { x.sqrt() }
pub fn abs_r(x: f64) -> f64 { x.abs() }
pub fn min_r(a: f64, b: f64) -> f64 { if a < b { a } else { b } }
pub fn max_r(a: f64, b: f64) -> f64 { if a > b { a } else { b } }
pub fn eps_r() -> f64 { f64::EPSILON }
pub fn pi_r() -> f64 { core::f64::consts::PI }
pub fn floor_r(x: f64) -> f64 { x.floor() }
pub fn ceil_r(x: f64) -> f64 { x.ceil() }
pub fn round_r(x: f64) -> f64 { x.round() }
pub fn trunc_r(x: f64) -> f64 { x.trunc() }
pub fn fract_r(x: f64) -> f64 { x.fract() }
pub fn sin_r(x: f64) -> f64 { x.sin() }
pub fn cos_r(x: f64) -> f64 { x.cos() }
pub fn tan_r(x: f64) -> f64 { x.tan() }
pub fn acos_r(x: f64) -> f64 { x.acos() }
pub fn asin_r(x: f64) -> f64 { x.asin() }
pub fn atan_r(x: f64) -> f64 { x.atan() }
pub fn atan2_r(y: f64, x: f64) -> f64 { y.atan2(x) }
pub fn signum_r(x: f64) -> f64 { x.signum() }
pub fn exp_r(x: f64) -> f64 { x.exp() }
pub fn ln_r(x: f64) -> f64 { x.ln() }
pub fn powf_r(x: f64, y: f64) -> f64 { x.powf(y) }
pub fn rel_eq_r(a: f64, b: f64, eps: f64, max_rel: f64) -> bool {
    if a == b { return true; }
    let d = (a - b).abs();
    if d <= eps { return true; }
    let l = if a.abs() > b.abs() { a.abs() } else { b.abs() };
    d <= l * max_rel
}
pub trait EqR { fn eqr(&self, o: &Self) -> bool; }
pub fn eqr<A: EqR + ?Sized>(a: &A, b: &A) -> bool { a.eqr(b) }
impl EqR for f64 { fn eqr(&self, o: &f64) -> bool {
    if self == o || (self.is_nan() && o.is_nan()) { return true; }
    let m = if self.abs() > o.abs() { self.abs() } else { o.abs() };
    (self - o).abs() <= 1e-6 * (if m > 1.0 { m } else { 1.0 }) } }
impl EqR for f32 { fn eqr(&self, o: &f32) -> bool { (*self as f64).eqr(&(*o as f64)) } }
macro_rules! eqi { ($($t:ty)+) => { $(impl EqR for $t { fn eqr(&self, o: &$t) -> bool { self == o } })+ } }
eqi!(u8 u16 u32 u64 usize i8 i16 i32 i64 isize bool);
impl EqR for () { fn eqr(&self, _o: &()) -> bool { true } }
impl<A: EqR> EqR for Option<A> { fn eqr(&self, o: &Self) -> bool { match (self, o) { (Some(a), Some(b)) => a.eqr(b), (None, None) => true, _ => false } } }
impl<A: EqR, B: EqR> EqR for (A, B) { fn eqr(&self, o: &Self) -> bool { self.0.eqr(&o.0) && self.1.eqr(&o.1) } }
impl<A: EqR, B: EqR, C: EqR> EqR for (A, B, C) { fn eqr(&self, o: &Self) -> bool { self.0.eqr(&o.0) && self.1.eqr(&o.1) && self.2.eqr(&o.2) } }
impl<A: EqR, const N: usize> EqR for [A; N] { fn eqr(&self, o: &Self) -> bool { (0..N).all(|i| self[i].eqr(&o[i])) } }
impl<A: EqR> EqR for core::ops::Range<A> { fn eqr(&self, o: &Self) -> bool { self.start.eqr(&o.start) && self.end.eqr(&o.end) } }
'''
