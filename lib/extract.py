"""Mechanical extraction of real vek items from the macro expansion into a Verus unit.

Transformations applied (the complete list; see DESIGN.md 3.2):
  D1  doc comments and attributes are dropped
  D2  a named return value and requires/ensures/invariant/decreases clauses and ghost
      `proof { }` blocks are inserted; nothing executable is added
  D3  instantiation: in mode 'R' the element type parameter `T` is removed from generic lists,
      where-predicates whose subject is `T` are deleted, and the token `T` is replaced by the
      prelude scalar `R`
  N1  `mut self` receiver / `mut x` by-value parameters -> shadowing `let mut` at the top of the body
  N2  assert!/debug_assert! expansions are replaced by Verus `assert(..)` (plus `requires`)
  N3  `use num_traits::..` / `use approx::..` are redirected to the prelude's stand-in modules
  T1  listed unsafe functions become #[verifier::external_body] with an assumed contract
Function bodies are otherwise copied verbatim from the expansion.
"""
import re
from xparse import norm, parse_file, walk, Scanner

OPEN = '<([{'
CLOSE = '>)]}'


def split_top(s, sep=','):
    """split s at top-level `sep` (depth over <>()[]{}; '->' and '=>' are not brackets)"""
    out, depth, cur, i, n = [], 0, [], 0, len(s)
    while i < n:
        c = s[i]
        if c == '-' and i + 1 < n and s[i + 1] == '>':
            cur.append('->')
            i += 2
            continue
        if c == '=' and i + 1 < n and s[i + 1] == '>':
            cur.append('=>')
            i += 2
            continue
        if c in OPEN:
            depth += 1
        elif c in CLOSE:
            depth -= 1
        if c == sep and depth == 0:
            out.append(''.join(cur))
            cur = []
        else:
            cur.append(c)
        i += 1
    if ''.join(cur).strip():
        out.append(''.join(cur))
    return out


def match_angle(s, i):
    """s[i] == '<' -> index of matching '>' (handles '->')"""
    depth, n = 0, len(s)
    while i < n:
        c = s[i]
        if c == '-' and i + 1 < n and s[i + 1] == '>':
            i += 2
            continue
        if c in OPEN:
            depth += 1
        elif c in CLOSE:
            depth -= 1
            if depth == 0:
                return i
        i += 1
    raise ValueError('unbalanced <> in %r' % s)


def find_where(h):
    """index of top-level `where` keyword in header h, or -1"""
    depth, i, n = 0, 0, len(h)
    while i < n:
        c = h[i]
        if c == '-' and i + 1 < n and h[i + 1] == '>':
            i += 2
            continue
        if c in OPEN:
            depth += 1
        elif c in CLOSE:
            depth -= 1
        elif depth == 0 and h.startswith('where', i) and (i == 0 or not (h[i - 1].isalnum() or h[i - 1] == '_')) \
                and (i + 5 >= n or not (h[i + 5].isalnum() or h[i + 5] == '_')):
            return i
        i += 1
    return -1


SUBJ_T = re.compile(r"^(for\s*<[^>]*>\s*)?(&\s*('\w+\s+)?(mut\s+)?)*T(\s*::\s*\w+)*$")


def subject_is_T(pred, tparams):
    subj = split_top(pred, ':')[0].strip()
    # fix for `T::Epsilon : Copy` -> split_top on ':' splits '::' too; rebuild
    m = re.match(r"^(.*?)(?<!:):(?!:)", pred.strip(), re.S)
    subj = (m.group(1) if m else pred).strip()
    for tp in tparams:
        rx = re.compile(r"^(for\s*<[^>]*>\s*)?(&\s*('\w+\s+)?(mut\s+)?)*%s(\s*::\s*\w+)*$" % tp)
        if rx.match(subj):
            return True
    return False


def strip_T(header, tparams=('T',), after=None):
    """remove type parameters `tparams` from the generic list following `after` (regex for the
    keyword+name, e.g. r'\bimpl' or r'\bfn\s+\w+'), and where-predicates whose subject is one"""
    h = header
    m = re.search(after, h)
    if m:
        j = m.end()
        k = j
        while k < len(h) and h[k].isspace():
            k += 1
        if k < len(h) and h[k] == '<':
            e = match_angle(h, k)
            gens = split_top(h[k + 1:e])
            keep = []
            for g in gens:
                nm = g.strip().split(':')[0].strip()
                nm = re.sub(r'^const\s+', '', nm)
                if nm in tparams:
                    continue
                keep.append(g.strip())
            h = h[:k] + ('<' + ', '.join(keep) + '>' if keep else '') + h[e + 1:]
    w = find_where(h)
    if w >= 0:
        preds = split_top(h[w + 5:])
        keep = [p.strip() for p in preds if p.strip() and not subject_is_T(p, tparams)]
        h = h[:w].rstrip() + ((' where ' + ', '.join(keep)) if keep else '') + ' '
    return h


def subst_word(text, frm, to):
    return re.sub(r'(?<![A-Za-z0-9_])%s(?![A-Za-z0-9_])' % re.escape(frm), to, text)


class Contract:
    def __init__(self, ret='res', requires=(), ensures=(), loops=(), prologue='', external_body=False,
                 tag=None, decreases=None, opens=(), no_unwind=False, body_subst=(), assume_spec=False, inserts=(), closures=(),
                 tsubst=None, attrs=()):
        self.ret = ret
        self.requires = list(requires)
        self.ensures = list(ensures)      # strings; each becomes one tagged obligation
        self.loops = list(loops)          # list of dict(invariant=[...], decreases=str|None)
        self.prologue = prologue          # ghost text inserted at top of body
        self.external_body = external_body
        self.tag = tag
        self.decreases = decreases
        self.body_subst = list(body_subst)  # recorded, exceptional textual rewrites (N-rules)
        self.inserts = list(inserts)        # (anchor text, ghost text): ghost text inserted before the anchor (D2)
        self.closures = list(closures)      # (closure header as written e.g. '|p|', typed header with ghost ensures, let-prefix): D2 on a closure
        self.tsubst = dict(tsubst or {})    # D3 on a further type parameter of the fn: {'I': 'Vec<(R, Point<R>)>'} (removed from the generic list, bounds dropped, token replaced)
        self.attrs = list(attrs)            # verifier attributes (D2), e.g. exec_allows_no_decreases_clause: termination is then NOT claimed


def fn_header_parts(header):
    """split fn header into (pre_ret, ret, where) : text up to the closing paren of params,
    return type ('' if none), where clause text ('' if none, including 'where')"""
    h = header
    m = re.search(r'\bfn\s+\w+', h)
    i = m.end()
    while h[i].isspace():
        i += 1
    if h[i] == '<':
        i = match_angle(h, i) + 1
    while h[i].isspace():
        i += 1
    assert h[i] == '(', header
    depth = 0
    j = i
    while True:
        if h[j] in '([{':
            depth += 1
        elif h[j] in ')]}':
            depth -= 1
            if depth == 0:
                break
        j += 1
    pre = h[:j + 1]
    rest = h[j + 1:]
    w = find_where(rest)
    where = ''
    if w >= 0:
        where = rest[w:]
        rest = rest[:w]
    rest = rest.strip()
    ret = ''
    if rest.startswith('->'):
        ret = rest[2:].strip()
    return pre, ret, where.strip()


def rewrite_mut_params(pre, body):
    """N1: `mut self` and `mut x: T` by-value parameters -> shadowing lets"""
    lets = []
    m = re.search(r'\(\s*mut\s+self\b', pre)
    if m:
        pre = pre[:m.start()] + '(self' + pre[m.end():]
        lets.append('let mut this = self;')
        body = subst_word(body, 'self', 'this')
    # other params
    i = pre.index('(', re.search(r'\bfn\s+\w+', pre).end())
    params = split_top(pre[i + 1:pre.rindex(')')])
    newp = []
    for p in params:
        mm = re.match(r'^\s*mut\s+(\w+)\s*:(.*)$', p, re.S)
        if mm:
            newp.append('%s:%s' % (mm.group(1), mm.group(2)))
            lets.append('let mut %s = %s;' % (mm.group(1), mm.group(1)))
        else:
            newp.append(p)
    pre = pre[:i + 1] + ','.join(newp) + ')'
    if lets:
        k = body.index('{')
        body = body[:k + 1] + ' ' + ' '.join(lets) + body[k + 1:]
    return pre, body


LOOP_RX = re.compile(r'(?<![A-Za-z0-9_])(for|while|loop)(?![A-Za-z0-9_])')


def insert_loop_specs(body, loops):
    """insert `invariant`/`decreases` for the k-th loop (source order) of a fn body"""
    if not loops:
        return body
    sc = Scanner(body)
    out = []
    pos = 0
    k = 0
    i = 0
    n = len(body)
    while i < n and k < len(loops):
        # advance over strings/comments
        c = body[i]
        if c == '"':
            i = sc.skip_string(i)
            continue
        if c == "'":
            i = sc.skip_quote(i)
            continue
        if body.startswith('//', i):
            j = body.find('\n', i)
            i = n if j < 0 else j + 1
            continue
        m = LOOP_RX.match(body, i)
        if m and (i == 0 or not (body[i - 1].isalnum() or body[i - 1] == '_' or body[i - 1] == "'")):
            kw = m.group(1)
            # find the '{' opening the loop body
            j = sc.skip_code_to(m.end(), '{')
            spec = loops[k]
            head = body[i:j]
            if kw == 'for' and spec.get('iter'):
                # `for x in EXPR` -> `for x in NAME: EXPR`
                head = re.sub(r'\bin\b', 'in %s:' % spec['iter'], head, count=1)
            ins = ''
            if spec.get('invariant'):
                ins += '\n invariant\n' + ''.join('   %s, // @inv loop%d.%d\n' % (s, k, q) for q, s in enumerate(spec['invariant']))
            if spec.get('invariant_except_break'):
                ins += '\n invariant_except_break\n' + ''.join('   %s,\n' % s for s in spec['invariant_except_break'])
            if spec.get('ensures'):
                ins += '\n ensures\n' + ''.join('   %s,\n' % s for s in spec['ensures'])
            if spec.get('decreases'):
                ins += ' decreases %s,\n' % spec['decreases']
            out.append(body[pos:i])
            out.append(head + ins)
            pos = j
            i = j
            # optional ghost text at the top of the loop body
            if spec.get('prologue'):
                out.append('{ ' + spec['prologue'])
                pos = j + 1
                i = j + 1
            k += 1
            continue
        i += 1
    out.append(body[pos:])
    if k < len(loops):
        raise LookupError('loop #%d not found' % k)
    return ''.join(out)


def rewrite_asserts(body):
    """N2: the panic call inside an expanded assert!/debug_assert!/panic! is replaced by `crate::pre::vpanic()`
    (external_body, `requires false`): Verus must prove the panic unreachable under the contract's `requires`.
    Only the call expression `::core::panicking::panic*(...)` is replaced; the guarding `if` stays as written."""
    sc = Scanner(body)
    out = []
    pos = 0
    n = 0
    for m in re.finditer(r'::core::panicking::(panic_fmt|panic|panic_display|panic_explicit|unreachable_display)\s*\(', body):
        if m.start() < pos:
            continue
        j = sc.skip_code_to(m.end(), '')   # index of the closing paren of the call
        out.append(body[pos:m.start()])
        out.append('crate::pre::vpanic()')
        pos = j + 1
        n += 1
    out.append(body[pos:])
    return ''.join(out), n


def annotate_closure(body, hdr, newhdr, prefix=''):
    """D2 on a closure: `|p| EXPR` (the only closure with that header in the body) becomes `NEWHDR { PREFIX EXPR }`;
    EXPR is copied verbatim and extends to the end of the enclosing call argument"""
    rx = re.compile(r'\s*'.join(re.escape(tok) for tok in re.findall(r'\w+|[^\w\s]', hdr)))
    ms = list(rx.finditer(body))
    if len(ms) != 1:
        raise LookupError('anchor-lost: closure header %r occurs %d times' % (hdr, len(ms)))
    m = ms[0]
    sc = Scanner(body)
    end = sc.skip_code_to(m.end(), ',;')       # stops at ',' ';' at depth 0 or at the closing bracket of the enclosing call
    expr = body[m.end():end].strip()
    return body[:m.start()] + newhdr + ' { ' + prefix + ' ' + expr + ' }' + body[end:]


class Selection:
    """one function (or whole item) selected for a unit"""

    def __init__(self, item, impl, mode, contract, tparams=('T',)):
        self.item = item
        self.impl = impl
        self.mode = mode          # 'G' or 'R'
        self.contract = contract
        self.tparams = tparams


class Expansion:
    def __init__(self, path):
        self.items = parse_file(path)
        self.by_path = {}
        for it in walk(self.items):
            self.by_path.setdefault(it.path, []).append(it)
        self.mods = {}
        for it in walk(self.items):
            if it.kind == 'mod':
                self.mods[(it.path + '::' if it.path else '') + it.name] = it

    def impls(self, path, header):
        hn = norm(header)
        return [it for it in self.by_path.get(path, []) if it.kind == 'impl' and it.nheader() == hn]

    def find_fn(self, path, header, name, nth=0):
        found = []
        for im in self.impls(path, header):
            for ch in im.children:
                if ch.kind == 'fn' and ch.name == name:
                    found.append((im, ch))
        if len(found) <= nth:
            raise LookupError('anchor-lost: %s :: %s :: fn %s' % (path, norm(header), name))
        return found[nth]

    def find_item(self, path, kind, name):
        for it in self.by_path.get(path, []):
            if it.kind == kind and it.name == name:
                return it
        raise LookupError('anchor-lost: %s :: %s %s' % (path, kind, name))


def render_fn(fnitem, mode, contract, tparams=('T',), scalar='R', indent='    '):
    """returns text of the function with D2/D3/N1 applied"""
    header = fnitem.header
    body = fnitem.body
    drops = []
    if mode == 'R':
        header = strip_T(header, tparams, after=r'\bfn\s+\w+')
        for tp in tparams:
            header = subst_word(header, tp, scalar)
            body = subst_word(body, tp, scalar)
    c = contract or Contract(ret=None)
    for tp, ty in c.tsubst.items():
        header = strip_T(header, (tp,), after=r'\bfn\s+\w+')
        header = subst_word(header, tp, ty)
        body = subst_word(body, tp, ty)
    is_decl = (body == '')
    pre, ret, where = fn_header_parts(header)
    if not is_decl:
        if re.search(r'\bmut\s+\w+\s*:', pre) or re.search(r'\(\s*mut\s+self\b', pre):
            pre, body = rewrite_mut_params(pre, body)
    for (a, b) in c.body_subst:
        if a in body:
            body = body.replace(a, b)
            continue
        # the pretty printer may break the anchor across lines: match it modulo whitespace
        rx = re.compile(r'\s*'.join(re.escape(tok) for tok in re.findall(r'\w+|[^\w\s]', a)))
        if len(rx.findall(body)) != 1:
            raise LookupError('anchor-lost: body_subst anchor %r' % a)
        body = rx.sub(lambda _m: b, body, count=1)
    for (hdr, newhdr, prefix) in c.closures:
        body = annotate_closure(body, hdr, newhdr, prefix)
    for (anchor, ghost) in c.inserts:
        if body.count(anchor) != 1:
            raise LookupError('anchor-lost: insert anchor %r occurs %d times' % (anchor, body.count(anchor)))
        body = body.replace(anchor, ghost + '\n' + anchor)
    if 'panicking::' in body:
        body, _ = rewrite_asserts(body)
    body = insert_loop_specs(body, c.loops)
    if c.prologue and not is_decl:
        k = body.index('{')
        body = body[:k + 1] + '\n' + indent + '    ' + c.prologue + body[k + 1:]
    s = indent + '// @fn %s\n' % (c.tag or fnitem.name) + indent
    if c.external_body:
        s += '#[verifier::external_body]\n' + indent
    for a in c.attrs:
        s += '#[verifier::%s]\n' % a + indent
    s += pre.strip()
    if ret:
        if c.ret:
            s += ' -> (%s: %s)' % (c.ret, ret)
        else:
            s += ' -> ' + ret
    if where:
        s += ' ' + where
    lines = []
    if c.requires:
        lines.append(indent + '  requires')
        for r in c.requires:
            lines.append(indent + '    %s,' % r)
    obl = []
    if c.ensures:
        lines.append(indent + '  ensures')
        for k, e in enumerate(c.ensures):
            tag = '%s/ens.%d' % (c.tag or fnitem.name, k)
            lines.append(indent + '    %s, // @obl %s' % (e, tag))
            obl.append(tag)
    if c.decreases:
        lines.append(indent + '  decreases %s,' % c.decreases)
    if lines:
        s += '\n' + '\n'.join(lines) + '\n' + indent
    else:
        s += ' '
    if is_decl:
        s = s.rstrip() + '\n' + indent + ';'
    elif c.external_body:
        s += '{ unimplemented!() }'
    else:
        s += body
    return s, obl


def render_impl_header(impl, mode, tparams=('T',), scalar='R'):
    h = impl.header
    if mode == 'R':
        h = strip_T(h, tparams, after=r'\bimpl')
        for tp in tparams:
            h = subst_word(h, tp, scalar)
    return ' '.join(h.split())
