"""Contract templates for the vector core (vec.rs: vec_impl_vec!, vec_impl_binop!, ...), instantiated
with the same parameter lists as the macros (shapes.VECS).  Mode R unless stated."""
from extract import Contract
from shapes import VEC, VECS
from xparse import norm

C = Contract


def ev(sh, v, i):
    """real value of element i of vector expression v"""
    return '%s.%s.v@' % (v, sh.fields[i])


def each(sh, fmt):
    """one conjunct per element; fmt is a function i -> str"""
    return [fmt(i) for i in range(sh.dim)]


def into_axioms(types):
    """reflexive Into axioms for concrete types (broadcast, triggered on into_spec)"""
    o = []
    names = []
    for k, t in enumerate(types):
        nm = 'axiom_into_refl_%d' % k
        names += [nm, nm + '_obeys']
        o.append(f"""
#[verifier::external_body]
pub broadcast proof fn {nm}_obeys()
    ensures #[trigger] <{t} as IntoSpec<{t}>>::obeys_into_spec() {{}}
#[verifier::external_body]
pub broadcast proof fn {nm}(a: {t})
    ensures #[trigger] <{t} as IntoSpec<{t}>>::into_spec(a) == a {{}}
""")
        names += [nm + '_from', nm + '_from_obeys']
        o.append(f"""
#[verifier::external_body]
pub broadcast proof fn {nm}_from_obeys()
    ensures #[trigger] <{t} as FromSpec<{t}>>::obeys_from_spec() {{}}
#[verifier::external_body]
pub broadcast proof fn {nm}_from(a: {t})
    ensures #[trigger] <{t} as FromSpec<{t}>>::from_spec(a) == a {{}}
""")
    o.append('pub broadcast group group_into_refl { %s }\n' % ', '.join(names))
    return ''.join(o)


BIN = {'Add': ('add', '+'), 'Sub': ('sub', '-'), 'Mul': ('mul', '*'), 'Div': ('div', '/')}
UN = {'Rem': ('rem', 'rem_r'), 'Shl': ('shl', 'shl_r'), 'Shr': ('shr', 'shr_r'), 'BitAnd': ('bitand', 'bitand_r'),
      'BitOr': ('bitor', 'bitor_r'), 'BitXor': ('bitxor', 'bitxor_r')}


def opx(tr, a, b):
    if tr in BIN:
        return '%s %s %s' % (a, BIN[tr][1], b)
    return '%s(%s, %s)' % (UN[tr][1], a, b)


def spec_companion(tr, m, gen, rhs, lhs, where='', out='Self::Output'):
    """AddSpecImpl companion that carries no meaning (the contract lives in `ensures`)"""
    return f"""impl{gen} {tr}SpecImpl<{rhs}> for {lhs} {where} {{
    open spec fn obeys_{m}_spec() -> bool {{ false }}
    open spec fn {m}_req(self, rhs: {rhs}) -> bool {{ true }}
    open spec fn {m}_spec(self, rhs: {rhs}) -> {out} {{ arbitrary() }}
}}"""


def add_struct_core(u, sh):
    """new / broadcast / zero / one / Deref (as_slice is T1) / From<T> for one vector type"""
    N, P = sh.name, sh.path
    T = '%s<R>' % N
    gh = 'impl<T>%s<T>' % N
    f = sh.fields
    params = ['_%s' % x if sh.tuple else x for x in f]
    # `new` has parameters named like the fields (m0.. for tuple kinds? read from the header)
    fn_new = u.exp.find_fn(P, gh, 'new')[1]
    import re
    pm = re.search(r'new\s*\((.*?)\)\s*->', ' '.join(fn_new.header.split()))
    pnames = [p.split(':')[0].strip() for p in pm.group(1).split(',') if p.strip()]
    u.take(P, gh, 'new', C(ensures=['res.%s == %s' % (f[i], pnames[i]) for i in range(sh.dim)]), mode='G')
    u.take(P, gh, 'broadcast', C(ensures=['res.%s == val' % x for x in f]), mode='G')
    u.take(P, gh, 'zero', C(ensures=['res.%s.v@ == 0real' % x for x in f]))
    u.take(P, gh, 'one', C(ensures=['res.%s.v@ == 1real' % x for x in f]))
    seq = 'seq![%s]' % ', '.join('self.%s' % x for x in f)
    u.take(P, gh, 'as_slice', C(ret='s', ensures=['s@ == %s' % seq], external_body=True), mode='G')
    u.take_impl(P, 'impl<T> Deref for %s<T>' % N, {'deref': C(ret='s', ensures=['s@ == %s' % seq])}, mode='G')
    u.take(P, gh, 'into_tuple', C(ensures=['res.%d == self.%s' % (i, f[i]) for i in range(sh.dim)]), mode='G')
    u.take(P, gh, 'into_array', C(ensures=['res@ == %s' % seq]), mode='G')
    if sh.dim > 1:
        tup = '(%s)' % ', '.join(['T'] * sh.dim)
        u.take_impl(P, 'impl<T> From<%s> for %s<T>' % (tup, N),
                    {'from': C(ensures=['res.%s == tuple.%d' % (f[i], i) for i in range(sh.dim)])}, mode='G')
    # the derived PartialEq (real expansion of #[derive(PartialEq)]): element-wise equality, so that code comparing vectors is decided
    hpe = 'impl<T: ::core::cmp::PartialEq> ::core::cmp::PartialEq for %s<T>' % N
    if u.exp.impls(P, hpe):
        u.take_impl(P, hpe, {'eq': C(ensures=['res == (%s)' % ' && '.join('self.%s.v@ == other.%s.v@' % (x, x) for x in f)])})
        u.add(P, 'impl PartialEqSpecImpl for %s<R> {\n    open spec fn obeys_eq_spec() -> bool { true }\n'
                 '    open spec fn eq_spec(&self, other: &%s<R>) -> bool { %s }\n}'
              % (N, N, ' && '.join('self.%s.v@ == other.%s.v@' % (x, x) for x in f)))
    # From<T>: the meaning of a scalar operand
    u.take_impl(P, 'impl<T: Copy> From<T> for %s<T>' % N, mode='G')
    u.from_given.add(norm('impl<T: Copy> From<T> for %s<T>' % N))
    u.add(P, f"""impl<T: Copy> FromSpecImpl<T> for {N}<T> {{
    open spec fn obeys_from_spec() -> bool {{ true }}
    open spec fn from_spec(val: T) -> {N}<T> {{ {sh.lit(['val'] * sh.dim)} }}
}}""")


def add_arith_core(u, sh, ops=('Add', 'Sub', 'Mul', 'Div'), refs=False):
    """element-wise operators with a generic right operand, Neg, mul_add, sum, product, dot"""
    N, P = sh.name, sh.path
    T = '%s<R>' % N
    gh = 'impl<T>%s<T>' % N
    n = sh.dim
    for tr in ops:
        m = (BIN.get(tr) or UN.get(tr))[0]
        hdr = 'impl<V, T> %s<V> for %s<T> where V: Into<%s<T>>, T: %s<T, Output = T>' % (tr, N, N, tr)
        u.take_impl(P, hdr, {m: C(ensures=[
            'V::obeys_into_spec() ==> ' + ev(sh, 'res', i) + ' == ' + opx(tr, ev(sh, 'self', i), ev(sh, 'rhs.into_spec()', i))
            for i in range(n)])})
    hdr = 'impl<T> Neg for %s<T> where T: Neg<Output = T>' % N
    u.take_impl(P, hdr, {'neg': C(ensures=[ev(sh, 'res', i) + ' == -' + ev(sh, 'self', i) for i in range(n)])})
    u.take(P, gh, 'mul_add', C(
        requires=['V0::obeys_into_spec()', 'V1::obeys_into_spec()'],
        ensures=[ev(sh, 'res', i) + ' == ' + ev(sh, 'self', i) + ' * ' + ev(sh, 'mul.into_spec()', i) + ' + ' +
                 ev(sh, 'add.into_spec()', i) for i in range(n)]))
    u.take(P, gh, 'sum', C(ensures=['res.v@ == ' + fold(sh, 'self', '+')]))
    u.take(P, gh, 'product', C(ensures=['res.v@ == ' + fold(sh, 'self', '*')]))
    if sh.spatial:
        u.take(P, gh, 'dot', C(ensures=['res.v@ == ' + dot_expr(sh, 'self', 'v')]))
        u.take(P, gh, 'magnitude_squared', C(ensures=['res.v@ == ' + dot_expr(sh, 'self', 'self')]))


def fold(sh, v, op):
    e = ev(sh, v, 0)
    for i in range(1, sh.dim):
        e = '(%s %s %s)' % (e, op, ev(sh, v, i))
    return e


def dot_expr(sh, a, b):
    e = '%s * %s' % (ev(sh, a, 0), ev(sh, b, 0))
    for i in range(1, sh.dim):
        e = '(%s + %s * %s)' % (e, ev(sh, a, i), ev(sh, b, i))
    return e


# ------------------------------------------------------------------ kind / size conversions (mode G)
import re as _re


def add_conversions(u, only=None):
    """every `impl From<Src<T>> for Dst<T>` between vector kinds/sizes (vec.rs:3219-3693) in mode G, with
    the meaning taken from the property text: equal size keeps order, shrinking drops trailing
    elements, growing appends zeros; (Smaller<T>, T) appends the scalar; tuples keep order."""
    done = []
    for dst in VECS:
        if only and dst.name not in only:
            continue
        for it in u.exp.by_path.get(dst.path, []):
            if it.kind != 'impl':
                continue
            h = it.nheader()
            m = _re.match(r'^impl<T(:[A-Za-z]+)?>From<(\w+)<T>>for %s<T>$' % dst.name, h)
            if m and m.group(2) in VEC and (not only or m.group(2) in only):
                src = VEC[m.group(2)]
                bound = (m.group(1) or '')
                if bound not in ('', ':Zero'):
                    continue   # ColorComponent-based ones are handled by the colour unit
                hdr = ' '.join(it.header.split())
                u.take_impl(dst.path, hdr, mode='G')
                u.from_given.add(norm(hdr))
                elems = []
                for i in range(dst.dim):
                    elems.append('v.%s' % src.fields[i] if i < src.dim else 'T::zero_spec()')
                u.add(dst.path, 'impl<T%s> FromSpecImpl<%s<T>> for %s<T> {\n    open spec fn obeys_from_spec() -> bool { true }\n'
                      '    open spec fn from_spec(v: %s<T>) -> %s<T> { %s }\n}'
                      % (bound.replace(':', ': '), src.name, dst.name, src.name, dst.name, dst.lit(elems)))
                done.append((src.name, dst.name))
                continue
            m = _re.match(r'^impl<T>From<\((\w+)<T>,T\)>for %s<T>$' % dst.name, h)
            if m and m.group(1) in VEC and (not only or m.group(1) in only):
                src = VEC[m.group(1)]
                hdr = ' '.join(it.header.split())
                u.take_impl(dst.path, hdr, mode='G')
                u.from_given.add(norm(hdr))
                elems = ['t.0.%s' % src.fields[i] if i < src.dim else 't.1' for i in range(dst.dim)]
                u.add(dst.path, 'impl<T> FromSpecImpl<(%s<T>, T)> for %s<T> {\n    open spec fn obeys_from_spec() -> bool { true }\n'
                      '    open spec fn from_spec(t: (%s<T>, T)) -> %s<T> { %s }\n}'
                      % (src.name, dst.name, src.name, dst.name, dst.lit(elems)))
                done.append(('(%s,T)' % src.name, dst.name))
                continue
            tup = '(' + ','.join(['T'] * dst.dim) + ')'
            if h == 'impl<T>From<%s>for %s<T>' % (tup, dst.name):
                hdr = ' '.join(it.header.split())
                u.take_impl(dst.path, hdr, mode='G')
                u.from_given.add(norm(hdr))
                elems = ['t.%d' % i for i in range(dst.dim)]
                tt = '(' + ', '.join(['T'] * dst.dim) + ')'
                u.add(dst.path, 'impl<T> FromSpecImpl<%s> for %s<T> {\n    open spec fn obeys_from_spec() -> bool { true }\n'
                      '    open spec fn from_spec(t: %s) -> %s<T> { %s }\n}'
                      % (tt, dst.name, tt, dst.name, dst.lit(elems)))
                done.append(('tuple', dst.name))
    return done


# ------------------------------------------------------------------ spatial core (mode R)
def add_spatial_basic(u, sh):
    """magnitude, distance(_squared), normalized, (Vec3) cross — definitions"""
    from sym import SV
    from matcore import veq
    import expr as X
    P, N = sh.path, sh.name
    gh = 'impl<T>%s<T>' % N
    a, b = SV.of(sh, 'self'), SV.of(sh, 'v')
    n2 = a.norm2()
    u.take(P, gh, 'magnitude', C(ensures=['res.v@ == sqrt_r(%s)' % dot_expr(sh, 'self', 'self')]))
    d2 = sub_dot(sh, 'self', 'v')
    u.take(P, gh, 'distance_squared', C(ensures=['res.v@ == ' + d2]))
    u.take(P, gh, 'distance', C(ensures=['res.v@ == sqrt_r(%s)' % d2]))
    mag = 'sqrt_r(%s)' % dot_expr(sh, 'self', 'self')
    u.take(P, gh, 'normalized', C(ensures=['res.%s.v@ == self.%s.v@ / %s' % (f, f, mag) for f in sh.fields]))
    # the sibling normalisation forms (commonly called instead of normalized + magnitude: keeps units deciding)
    from expr import app as _app
    f = sh.fields
    mags = X.verus(_app('sqrt_r', n2))
    u.take(P, gh, 'normalized_and_get_magnitude', C(ensures=['res.0.%s.v@ == self.%s.v@ / %s' % (x, x, mags) for x in f] + ['res.1.v@ == ' + mags]))
    ao = SV.of(sh, 'old(self)')
    mo = X.verus(_app('sqrt_r', ao.norm2()))
    u.take(P, gh, 'normalize', C(ret=None, ensures=['final(self).%s.v@ == old(self).%s.v@ / %s' % (x, x, mo) for x in f]))
    u.take(P, gh, 'normalize_and_get_magnitude', C(ensures=['final(self).%s.v@ == old(self).%s.v@ / %s' % (x, x, mo) for x in f] + ['res.v@ == ' + mo]))
    if N == 'Vec3':
        bb = SV.of(sh, 'b')
        u.take(P, gh, 'cross', C(ensures=veq(sh, 'res', a.cross(bb))))


def sub_dot(sh, a, b):
    e = None
    for i in range(sh.dim):
        t = '(%s - %s) * (%s - %s)' % (ev(sh, a, i), ev(sh, b, i), ev(sh, a, i), ev(sh, b, i))
        e = t if e is None else '(%s + %s)' % (e, t)
    return e


def add_spatial_full(u, sh):
    """the rest of vec_impl_spatial! (needs the ops Clamp trait + R impl in the unit for angle_between)"""
    from sym import SV
    from matcore import veq
    import expr as X
    from expr import app, const
    add_spatial_basic(u, sh)
    P, N = sh.path, sh.name
    gh = 'impl<T>%s<T>' % N
    a = SV.of(sh, 'self')
    n2 = a.norm2()
    mag = app('sqrt_r', n2)
    n2s, mags = X.verus(n2), X.verus(mag)
    f = sh.fields
    E2 = ('T', 'E')
    close = lambda xx: 'rel_eq_r(%s, %s, eps_r() + eps_r() + eps_r() + eps_r(), eps_r() + eps_r() + eps_r() + eps_r())' % (n2s, xx)
    u.take(P, gh, 'is_magnitude_close_to', C(ensures=['res == ' + close('x.v@ * x.v@')]), tparams=E2)
    u.take(P, gh, 'is_normalized', C(ensures=['res == ' + close('1real * 1real')]), tparams=E2)
    u.take(P, gh, 'is_approx_zero', C(ensures=['res == ' + close('0real * 0real')]), tparams=E2)
    u.take(P, gh, 'try_normalized', C(ensures=[
        '%s ==> res.is_none()' % close('0real * 0real'),
        '(!%s) ==> (res.is_some() && %s)' % (close('0real * 0real'), ' && '.join('res.unwrap().%s.v@ == self.%s.v@ / %s' % (x, x, mags) for x in f))]),
        tparams=E2)
    # shared sub-terms (the dot products) are bound once with `let`: the printed contract stays linear in the dimension
    nrm = SV.of(sh, 'surface_normal')
    dv = X.var('d', verus='d')
    u.take(P, gh, 'reflected', C(ensures=['({ let d = %s; %s })' % (
        X.verus(a.dot(nrm)), ' && '.join('res.%s.v@ == %s' % (f[i], X.verus(a[i] - nrm[i] * (dv + dv))) for i in range(sh.dim)))]))
    eta = X.var('eta', verus='eta.v@')
    ndv, kv = X.var('nd', verus='nd'), X.var('k', verus='k')
    kexpr = const(1) - (eta * eta) * (const(1) - ndv * ndv)
    refr = [a[i] * eta - nrm[i] * (eta * ndv + app('sqrt_r', kv)) for i in range(sh.dim)]
    u.take(P, gh, 'refracted', C(ensures=['({ let nd = %s; let k = %s; ((k < 0real) ==> (%s)) && ((!(k < 0real)) ==> (%s)) })' % (
        X.verus(nrm.dot(a)), X.verus(kexpr), ' && '.join('res.%s.v@ == 0real' % x for x in f),
        ' && '.join('res.%s.v@ == %s' % (f[i], X.verus(refr[i])) for i in range(sh.dim)))]))
    inc, ref = SV.of(sh, 'incident'), SV.of(sh, 'reference')
    u.take(P, gh, 'face_forward', C(ensures=['({ let rd = %s; ((rd < 0real) ==> (%s)) && ((rd > 0real) ==> (%s)) })' % (
        X.verus(ref.dot(inc)), ' && '.join('res.%s.v@ == self.%s.v@' % (x, x) for x in f),
        ' && '.join('res.%s.v@ == -self.%s.v@' % (x, x) for x in f))]))
    v = SV.of(sh, 'v')
    ma, mb = X.var('ma', verus='ma'), X.var('mb', verus='mb')
    cosang = X.sum_([(a[i] / ma) * (v[i] / mb) for i in range(sh.dim)])
    lets = 'let ma = %s; let mb = %s; let c = %s; let cl = if c < -1real { -1real } else if c > 1real { 1real } else { c };' % (
        X.verus(mag), X.verus(app('sqrt_r', v.norm2())), X.verus(cosang))
    u.take(P, gh, 'angle_between', C(ensures=['({ %s res.v@ == acos_r(cl) })' % lets]))
    u.take(P, gh, 'angle_between_degrees', C(ensures=['({ %s res.v@ == acos_r(cl) * 180real / pi_r() })' % lets]))
    if N == 'Vec2':
        aa, bb = SV.of(sh, 'a'), SV.of(sh, 'b')
        side = (bb[0] - aa[0]) * (a[1] - aa[1]) - (bb[1] - aa[1]) * (a[0] - aa[0])
        u.take(P, gh, 'determine_side', C(ensures=['res.v@ == ' + X.verus(side)]))
        cc = SV.of(sh, 'c')
        area = ((bb[0] - aa[0]) * (cc[1] - aa[1]) - (bb[1] - aa[1]) * (cc[0] - aa[0])) / const(2)
        u.take(P, gh, 'signed_triangle_area', C(ensures=['res.v@ == ' + X.verus(area)]))
        u.take(P, gh, 'triangle_area', C(ensures=['res.v@ == abs_r(%s)' % X.verus(area)]))
    if N == 'Vec4':
        u.take(P, gh, 'homogenized', C(ensures=['res.%s.v@ == self.%s.v@ / self.w.v@' % (x, x) for x in f]))
        u.take(P, gh, 'homogenize', C(ret=None, ensures=['final(self).%s.v@ == old(self).%s.v@ / old(self).w.v@' % (x, x) for x in f]))
        u.take(P, gh, 'is_point', C(ensures=['res == rel_eq_r(self.w.v@, 1real, eps_r(), eps_r())']))
        u.take(P, gh, 'is_direction', C(ensures=['res == rel_eq_r(self.w.v@, 0real, eps_r(), eps_r())']))
        u.take(P, gh, 'is_homogeneous', C(ensures=['res == (rel_eq_r(self.w.v@, 1real, eps_r(), eps_r()) || rel_eq_r(self.w.v@, 0real, eps_r(), eps_r()))']))


def add_vec_zero_one(u, sh):
    """impl Zero / One for the vector (needed where a vector is itself used as a scalar-like factor)"""
    pass


# ------------------------------------------------------------------ every operator form (C02)
ALLOPS = dict(BIN)
ALLOPS.update(UN)
OPRX = _re.compile(r"^impl(<[^>]*>)?(Add|Sub|Mul|Div|Rem|Shl|Shr|BitAnd|BitOr|BitXor)(Assign)?<(.+?)>for(&'\w )?(\w+)<T>(where.*)?$")


def add_all_operator_forms(u, sh, scalar_left=('f32',)):
    """scan the vector module for every impl of a core::ops binary operator and contract it per element"""
    N, P = sh.name, sh.path
    count = 0
    for it in u.exp.by_path.get(P, []):
        if it.kind != 'impl':
            continue
        h = it.nheader()
        m = OPRX.match(h)
        if not m or m.group(6) != N:
            continue
        tr, assign, rhs = m.group(2), bool(m.group(3)), m.group(4)
        mth = ALLOPS[tr][0]
        if rhs == 'V':
            sel = lambda f: 'rhs.into_spec().%s.v@' % f
            guard = 'V::obeys_into_spec() ==> '
        elif _re.match(r"^(&'\w )?%s<T>$" % N, rhs):
            sel = lambda f: 'rhs.%s.v@' % f
            guard = ''
        elif _re.match(r"^(&'\w )?T$", rhs):
            sel = lambda f: 'rhs.v@'
            guard = ''
        else:
            continue
        hdr = ' '.join(it.header.split())
        if assign:
            ens = [guard + 'final(self).%s.v@ == %s' % (f, opx(tr, 'old(self).%s.v@' % f, sel(f))) for f in sh.fields]
            u.take_impl(P, hdr, {mth + '_assign': C(ret=None, ensures=ens)})
        else:
            ens = [guard + 'res.%s.v@ == %s' % (f, opx(tr, 'self.%s.v@' % f, sel(f))) for f in sh.fields]
            u.take_impl(P, hdr, {mth: C(ensures=ens)})
        count += 1
    # commutative scalar-left impls (one of the ten identical macro arms, with the primitive := R)
    for tr in ('Add', 'Mul'):
        for prim in scalar_left:
            hdr = 'impl %s<%s<%s>> for %s' % (tr, N, prim, prim)
            if u.exp.impls(P, hdr):
                mth = ALLOPS[tr][0]
                # the code evaluates `rhs op self` (the operators are commutative on the scalar); spell the commuted facts out
                pro = 'proof { %s }' % ' '.join('assert(%s == %s);' % (opx(tr, 'self.v@', 'rhs.%s.v@' % f), opx(tr, 'rhs.%s.v@' % f, 'self.v@'))
                                               for f in sh.fields)
                u.take_impl(P, hdr, {mth: C(ensures=['res.%s.v@ == %s' % (f, opx(tr, 'self.v@', 'rhs.%s.v@' % f)) for f in sh.fields],
                                            prologue=pro)}, tparams=(prim,))
                count += 1
    # Not
    hdr = 'impl<T> Not for %s<T> where T: Not<Output = T>' % N
    if u.exp.impls(P, hdr):
        u.take_impl(P, hdr, {'not': C(ensures=['res.%s.v@ == not_r(self.%s.v@)' % (f, f) for f in sh.fields])})
        count += 1
    # the eight MulAdd impls
    for it in u.exp.by_path.get(P, []):
        if it.kind == 'impl' and _re.match(r"^impl<.*>MulAdd<.*>for(&'\w )?%s<T>where" % N, it.nheader()):
            hdr = ' '.join(it.header.split())
            mm = _re.match(r"^impl<.*?>MulAdd<(.+),(.+?)>for", it.nheader())
            ta, tb = [x.replace('<T>', '<R>') for x in (mm.group(1), mm.group(2))]
            u.impl_extra[(P, it.nheader())] = ('open spec fn mul_add_spec(self, a: %s, b: %s) -> %s<R> { %s }'
                                               % (ta, tb, N, sh.lit(['rr(self.%s.v@ * a.%s.v@ + b.%s.v@)' % (f, f, f) for f in sh.fields])))
            u.take_impl(P, hdr, {'mul_add': C(ensures=['res.%s.v@ == self.%s.v@ * a.%s.v@ + b.%s.v@' % (f, f, f, f) for f in sh.fields])})
            count += 1
    return count


def add_reductions_and_maps(u, sh):
    N, P = sh.name, sh.path
    gh = 'impl<T>%s<T>' % N
    f = sh.fields
    n = sh.dim

    def foldtxt(fn, terms):
        e = terms[0]
        for t in terms[1:]:
            e = '%s(%s, %s)' % (fn, e, t)
        return e
    vs = ['self.%s.v@' % x for x in f]
    u.take(P, gh, 'reduce_partial_min', C(ensures=['res.v@ == ' + foldtxt('min_r', vs)]))
    u.take(P, gh, 'reduce_partial_max', C(ensures=['res.v@ == ' + foldtxt('max_r', vs)]))
    for fn, sp in (('reduce_bitand', 'bitand_r'), ('reduce_bitor', 'bitor_r'), ('reduce_bitxor', 'bitxor_r')):
        u.take(P, gh, fn, C(ensures=['res.v@ == ' + foldtxt(sp, vs)]))
    # the dropped bound `T: From<u8>` fixed the type of `N as _`; state it (recorded rewrite, N-rule D3')
    u.take(P, gh, 'average', C(ensures=['res.v@ == %s / %dreal' % (fold(sh, 'self', '+'), n)],
                               body_subst=[('(%d as _)' % n, '(%d as u8)' % n)]))
    u.take(P, gh, 'iota', C(ensures=['res.%s.v@ == %dreal' % (x, i) for i, x in enumerate(f)]))
    rq = ['V0::obeys_into_spec()', 'V1::obeys_into_spec()']
    for fn, sp in (('partial_min', 'min_r'), ('partial_max', 'max_r')):
        u.take(P, gh, fn, C(requires=rq, ensures=['res.%s.v@ == %s(a.into_spec().%s.v@, b.into_spec().%s.v@)' % (x, sp, x, x) for x in f]))
    # generic element movement with closures
    u.take(P, gh, 'map', C(requires=['forall|x: T| call_requires(f, (x,))'],
                           ensures=['call_ensures(f, (self.%s,), res.%s)' % (x, x) for x in f]), mode='G')
    u.take(P, gh, 'map2', C(requires=['forall|x: T, y: S| call_requires(f, (x, y))'],
                            ensures=['call_ensures(f, (self.%s, other.%s), res.%s)' % (x, x, x) for x in f]), mode='G')
    u.take(P, gh, 'map3', C(requires=['forall|x: T, y: S1, z: S2| call_requires(f, (x, y, z))'],
                            ensures=['call_ensures(f, (self.%s, a.%s, b.%s), res.%s)' % (x, x, x, x) for x in f]), mode='G')
    u.take(P, gh, 'apply', C(ret=None, requires=['forall|x: T| call_requires(f, (x,))'],
                             ensures=['call_ensures(f, (old(self).%s,), final(self).%s)' % (x, x) for x in f]), mode='G')
    u.take(P, gh, 'apply2', C(ret=None, requires=['forall|x: T, y: S| call_requires(f, (x, y))'],
                              ensures=['call_ensures(f, (old(self).%s, other.%s), final(self).%s)' % (x, x, x) for x in f]), mode='G')
    u.take(P, gh, 'apply3', C(ret=None, requires=['forall|x: T, y: S1, z: S2| call_requires(f, (x, y, z))'],
                              ensures=['call_ensures(f, (old(self).%s, a.%s, b.%s), final(self).%s)' % (x, x, x, x) for x in f]), mode='G')
    # per-element lifts of the real-number functions
    for fn, sp in (('sqrt', 'sqrt_r(%s)'), ('recip', '(1real / %s)'), ('rsqrt', '(1real / sqrt_r(%s))'), ('ceil', 'ceil_r(%s)'),
                   ('floor', 'floor_r(%s)'), ('round', 'round_r(%s)')):
        u.take(P, gh, fn, C(ensures=['res.%s.v@ == %s' % (x, sp % ('self.%s.v@' % x)) for x in f]))
    # horizontal add: adjacent pairs of the concatenation self ++ rhs
    cat = ['self.%s.v@' % x for x in f] + ['rhs.%s.v@' % x for x in f]
    u.take(P, gh, 'hadd', C(ensures=['res.%s.v@ == %s + %s' % (x, cat[2 * i], cat[2 * i + 1]) for i, x in enumerate(f)]))
    if n >= 2:
        # user fold: left to right
        chain = []
        prev = 'self.%s' % f[0]
        names = []
        for i in range(1, n):
            nm = 'a%d' % i
            names.append(nm)
            chain.append('call_ensures(f, (%s, self.%s), %s)' % (prev, f[i], nm if i < n - 1 else 'res'))
            prev = nm
        if n == 2:
            ens = ['call_ensures(f, (self.%s, self.%s), res)' % (f[0], f[1])]
        else:
            # nested existentials, one intermediate value each, triggered on its own call_ensures
            inner = 'call_ensures(f, (a%d, self.%s), res)' % (n - 2, f[n - 1])
            for i in range(n - 2, 0, -1):
                prev = 'self.%s' % f[0] if i == 1 else 'a%d' % (i - 1)
                inner = '(exists|a%d: T| #[trigger] call_ensures(f, (%s, self.%s), a%d) && %s)' % (i, prev, f[i], i, inner)
            ens = [inner]
        u.take(P, gh, 'reduce', C(requires=['forall|x: T, y: T| call_requires(f, (x, y))'], ensures=ens), mode='G')
    hb = 'impl %s<bool>' % N
    if u.exp.impls(P, hb):
        u.take(P, hb, 'reduce_and', C(ensures=['res == (%s)' % ' && '.join('self.%s' % x for x in f)]), mode='G')
        u.take(P, hb, 'reduce_or', C(ensures=['res == (%s)' % ' || '.join('self.%s' % x for x in f)]), mode='G')


def add_unit_ctors(u):
    """Vec2/3/4::unit_x .. unit_w (commonly used helpers: keeps units decidable when a change starts calling them)"""
    from shapes import VEC
    for nm in ('Vec2', 'Vec3', 'Vec4'):
        sh = VEC[nm]
        for f in sh.fields:
            u.take(sh.path, 'impl<T>%s<T>' % nm, 'unit_' + f,
                   C(ensures=['res.%s.v@ == %dreal' % (g, 1 if g == f else 0) for g in sh.fields]))
