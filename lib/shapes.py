"""The parameter lists the vek macros were instantiated with (vec.rs: vec_impl_all_vecs! etc.)."""


class VecShape:
    def __init__(self, name, mod, fields, tuple_kind=False, spatial=False, color=False, feature=None):
        self.name = name
        self.mod = mod
        self.path = 'vec::repr_c::' + mod
        self.fields = fields
        self.dim = len(fields)
        self.tuple = tuple_kind
        self.spatial = spatial
        self.color = color

    def el(self, v, i):
        return '%s.%s' % (v, self.fields[i])

    def lit(self, elems):
        """struct literal text from element expressions"""
        if self.tuple:
            return '%s(%s)' % (self.name, ', '.join(elems))
        return '%s { %s }' % (self.name, ', '.join('%s: %s' % (f, e) for f, e in zip(self.fields, elems)))


def _t(n):
    return [str(i) for i in range(n)]


VECS = [
    VecShape('Vec2', 'vec2', ['x', 'y'], spatial=True),
    VecShape('Vec3', 'vec3', ['x', 'y', 'z'], spatial=True),
    VecShape('Vec4', 'vec4', ['x', 'y', 'z', 'w'], spatial=True),
    VecShape('Vec8', 'vec8', _t(8), True, spatial=True),
    VecShape('Vec16', 'vec16', _t(16), True, spatial=True),
    VecShape('Vec32', 'vec32', _t(32), True, spatial=True),
    VecShape('Vec64', 'vec64', _t(64), True, spatial=True),
    VecShape('Extent3', 'extent3', ['w', 'h', 'd'], spatial=True),
    VecShape('Extent2', 'extent2', ['w', 'h'], spatial=True),
    VecShape('Rgba', 'rgba', ['r', 'g', 'b', 'a'], color=True),
    VecShape('Rgb', 'rgb', ['r', 'g', 'b'], color=True),
    VecShape('Uvw', 'uvw', ['u', 'v', 'w']),
    VecShape('Uv', 'uv', ['u', 'v']),
]
VEC = {v.name: v for v in VECS}


class MatShape:
    def __init__(self, n, layout):
        self.n = n
        self.layout = layout                      # 'rows' | 'cols'
        self.name = 'Mat%d' % n
        self.major = 'row_major' if layout == 'rows' else 'column_major'
        self.path = 'mat::repr_c::%s::mat%d' % (self.major, n)
        self.field = layout                       # struct field: rows / cols
        self.vec = VEC['Vec%d' % n]
        self.q = 'crate::mat::repr_c::%s::Mat%d' % (self.major, n)

    def at(self, m, i, j):
        """text of element (i,j) (row i, col j) of matrix expression m"""
        f = self.vec.fields
        if self.layout == 'rows':
            return '%s.rows.%s.%s' % (m, f[i], f[j])
        return '%s.cols.%s.%s' % (m, f[j], f[i])


MATS = [MatShape(n, l) for l in ('rows', 'cols') for n in (2, 3, 4)]


def mat(n, layout):
    for m in MATS:
        if m.n == n and m.layout == layout:
            return m
