"""C18 — element containers never duplicate, leak or touch a moved-out element (Kani on the real unsafe code)."""
from kani_common import kani_plan


def plan(exp, tier):
    p = kani_plan('C18', 'c18', tier)
    p.not_decided += ['repr_simd types (nightly only)', 'Debug observers for dimension > 4 (core::fmt cost in CBMC)',
                      'initialisation of MaybeUninit slots in the matrix array conversions (Kani -Z uninit-checks crashes on this crate)']
    return p
