"""C01 — matrix products are the linear-algebra product in both storage layouts."""
import driver
import matcore
from common import vec_unit
from shapes import VEC, MATS, mat


def mat_unit(exp, name, n):
    import shufcore
    shapes = [VEC['Vec%d' % k] for k in (2, 3, 4)]
    u = vec_unit(exp, name, shapes)
    if n == 4:
        # the Vec4-as-2x2 helper products (through the real shuffle / ShuffleMask4 code)
        shufcore.add_shuffle_mask(u)
        shufcore.add_vec4_shuffles(u)
        shufcore.add_mat2_helpers(u)
    for layout in ('rows', 'cols'):
        ms = mat(n, layout)
        matcore.add_mat_struct(u, ms)
        matcore.add_mat_mul(u, ms)
        matcore.add_mat_scalar_ops(u, ms)
    return u


def plan(exp, tier):
    p = driver.Plan('C01')
    for n in (2, 3, 4):
        u = mat_unit(exp, 'c01_mat%d' % n, n)
        p.add_unit('c01_mat%d' % n, u, ['vec', 'mat'])
    return p
