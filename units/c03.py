"""C03 — element (i,j) means row i, column j in every matrix API, whatever the layout."""
import driver
import matcore
import veccore
from common import vec_unit
from shapes import VEC, MATS, mat


def plan(exp, tier):
    p = driver.Plan('C03')
    shapes = [VEC['Vec%d' % k] for k in (2, 3, 4)]
    u = vec_unit(exp, 'c03', shapes)
    veccore.add_conversions(u, only=('Vec2', 'Vec3', 'Vec4'))
    for ms in MATS:
        matcore.add_mat_struct(u, ms)
        matcore.add_mat_index(u, ms)
        matcore.add_mat_movement(u, ms)
    matcore.add_mat_size_conversions(u)
    p.add_unit('c03', u, ['vec', 'mat'])
    import kani_driver
    p.kani = kani_driver.load_specs('c03')
    p.assumptions += ['IndexMut<(usize,usize)> (unsafe slice views), Display (core::fmt) and the casts as_/numcast are outside the Verus unit; they are '
                      'proved by Kani on the real code (/verif/kani/c03): IndexMut and casts for every u8 / i16 matrix, Display through a recording '
                      'element type and sink under a Formatter with a non-default precision (nightly Formatter::new of Kani\'s toolchain)']
    p.not_decided += ['flat / nested array conversions and slice views: Kani under C18', 'Display of element types whose own fmt fails (error propagation)']
    return p
