"""C05 — quaternions form the Hamilton algebra and rotate vectors like their matrix."""
import driver
import matcore
import rotcore as RC
import veccore
import expr as X
import lemma as L
from expr import const, var, app
from extract import Contract as C
from sym import SM, SV, leaf
from common import vec_unit
from shapes import VEC, MATS, mat
from matcore import thm_fn, lemma_args, eq_all, veq

V3, V4 = VEC['Vec3'], VEC['Vec4']
ONE, ZERO = const(1), const(0)
QP = 'quaternion::repr_c'


def qparams(p):
    return [var(p + f) for f in 'xyzw']


def qargs(name):
    return ', '.join('%s.%s.v@' % (name, f) for f in 'xyzw')


def v3args(name):
    return ', '.join('%s.%s.v@' % (name, f) for f in 'xyz')


def qeqs(a, b):
    return [x.eq(y) for x, y in zip(a, b)]


def algebra_lemmas():
    p, q, r = qparams('p'), qparams('q'), qparams('r')
    H = RC.hamilton
    out = {}
    out['assoc'] = L.Lemma('lemma_quat_assoc', p + q + r, [], qeqs(H(H(p, q), r), H(p, H(q, r))), doc='(pq)r == p(qr)')
    out['norm'] = L.Lemma('lemma_quat_norm_mul', p + q, [], [RC.qnorm2(H(p, q)).eq(RC.qnorm2(p) * RC.qnorm2(q))],
                          doc='|pq|^2 == |p|^2 |q|^2')
    out['conj'] = L.Lemma('lemma_quat_conj_mul', p + q, [], qeqs(RC.qconj(H(p, q)), H(RC.qconj(q), RC.qconj(p))),
                          doc='conj(pq) == conj(q) conj(p)')
    n2 = RC.qnorm2(q)
    qi = [c / n2 for c in RC.qconj(q)]
    one = [ZERO, ZERO, ZERO, ONE]
    out['inv'] = L.Lemma('lemma_quat_inverse', q, [n2.ne(0)], qeqs(H(q, qi), one) + qeqs(H(qi, q), one),
                         doc='q q^-1 == q^-1 q == 1 for |q|^2 != 0')
    v = SV.params('v', 3)
    M3 = RC.mat_from_quat_spec(3, q)
    out['rotmat'] = L.Lemma('lemma_quat_rot_is_matrix', q + v.e, [n2.eq(1)], RC.qrot(q, v).eqs(M3 @ v),
                            doc='|q| = 1 ==> q v conj(q) == Mat3(q) v')
    pq = H(p, q)
    out['compose'] = L.Lemma('lemma_quat_rot_compose', p + q + v.e, [], RC.qrot(pq, v).eqs(RC.qrot(p, RC.qrot(q, v))),
                             doc='(pq)*v == p*(q*v)')
    return out


def from_to_lemmas():
    u, v = SV.params('u', 3), SV.params('v', 3)
    nn, m = var('nn'), var('m')
    w0 = nn + u.dot(v)
    qraw = list(u.cross(v).e) + [w0]
    qh = [c / m for c in qraw]
    img = RC.qrot(qh, u)
    hy = [(nn * nn).eq(u.dot(u) * v.dot(v)), nn.gt(0), (m * m).eq(RC.qnorm2(qraw)), m.gt(0), w0.gt(0)]
    # q u q* = (|u|/|v|) v ; with nn = |u||v| : img * nn == |u|^2 v
    l1 = L.Lemma('lemma_from_to_generic', u.e + v.e + [nn, m], hy,
                 [(img[i] * nn).eq(u.dot(u) * v[i]) for i in range(3)] + [RC.qnorm2(qh).eq(1)],
                 doc='the normalised quaternion (u x v, |u||v| + u.v) is unit and maps u onto (|u|/|v|) v')
    a = [-u[1], u[0], ZERO, ZERO]
    ah = [c / m for c in a]
    l2 = L.Lemma('lemma_from_to_anti_xy', u.e + [m], [(m * m).eq(RC.qnorm2(a)), m.gt(0)],
                 RC.qrot(ah, u).eqs(-u) + [RC.qnorm2(ah).eq(1)],
                 doc='unit quaternion with w = 0 and axis (-u.y, u.x, 0) perpendicular to u maps u to -u')
    b = [ZERO, -u[2], u[1], ZERO]
    bh = [c / m for c in b]
    l3 = L.Lemma('lemma_from_to_anti_yz', u.e + [m], [(m * m).eq(RC.qnorm2(b)), m.gt(0)],
                 RC.qrot(bh, u).eqs(-u) + [RC.qnorm2(bh).eq(1)],
                 doc='unit quaternion with w = 0 and axis (0, -u.z, u.y) perpendicular to u maps u to -u')
    return dict(generic=l1, anti_xy=l2, anti_yz=l3)


def add_theorems(u, AL, FT):
    P = QP
    # algebra
    body = ('    let pq = p * q;\n    let l = pq * r;\n    let qr = q * r;\n    let rr2 = p * qr;\n'
            '    let id = Quaternion::identity();\n    let pi = p * id;\n    let ip = id * p;\n'
            '    let n_pq = pq.magnitude_squared();\n    let n_p = p.magnitude_squared();\n    let n_q = q.magnitude_squared();\n'
            '    let c1 = pq.conjugate();\n    let c2 = q.conjugate() * p.conjugate();\n'
            '    proof { crate::%s(%s, %s, %s); crate::%s(%s, %s); crate::%s(%s, %s); }\n'
            % (AL['assoc'].name, qargs('p'), qargs('q'), qargs('r'), AL['norm'].name, qargs('p'), qargs('q'),
               AL['conj'].name, qargs('p'), qargs('q')))
    asserts = ['l.%s.v@ == rr2.%s.v@' % (f, f) for f in 'xyzw'] + ['pi.%s.v@ == p.%s.v@' % (f, f) for f in 'xyzw']
    asserts += ['ip.%s.v@ == p.%s.v@' % (f, f) for f in 'xyzw'] + ['n_pq.v@ == n_p.v@ * n_q.v@']
    asserts += ['c1.%s.v@ == c2.%s.v@' % (f, f) for f in 'xyzw']
    u.add(P, thm_fn('thm_quat_algebra', ['p: Quaternion<R>', 'q: Quaternion<R>', 'r: Quaternion<R>'], [], body, asserts, 'C05'))
    body = ('    let qi = q.inverse();\n    let a = q * qi;\n    let b = qi * q;\n    proof { crate::%s(%s); }\n'
            % (AL['inv'].name, qargs('q')))
    one = ['0real', '0real', '0real', '1real']
    asserts = ['a.%s.v@ == %s' % (f, o) for f, o in zip('xyzw', one)] + ['b.%s.v@ == %s' % (f, o) for f, o in zip('xyzw', one)]
    n2 = RC.qnorm2(RC.qleaf('q'))
    u.add(P, thm_fn('thm_quat_inverse', ['q: Quaternion<R>'], ['%s != 0real' % X.verus(n2)], body, asserts, 'C05'))
    # action on vectors == matrix; composition
    unit = '%s == 1real' % X.verus(n2)
    body = ('    let a = q * v;\n    let m3 = crate::mat::repr_c::row_major::mat3::Mat3::from(q);\n    let b = m3 * v;\n'
            '    let m3c = crate::mat::repr_c::column_major::mat3::Mat3::from(q);\n    let bc = m3c * v;\n'
            '    let v4 = Vec4::new(v.x, v.y, v.z, w);\n    let a4 = q * v4;\n'
            '    let m4 = crate::mat::repr_c::row_major::mat4::Mat4::from(q);\n    let b4 = m4 * Vec4::new(v.x, v.y, v.z, R::zero());\n'
            '    proof { crate::%s(%s, %s); }\n' % (AL['rotmat'].name, qargs('q'), v3args('v')))
    asserts = ['a.%s.v@ == b.%s.v@' % (f, f) for f in 'xyz'] + ['a.%s.v@ == bc.%s.v@' % (f, f) for f in 'xyz']
    asserts += ['a4.%s.v@ == a.%s.v@' % (f, f) for f in 'xyz'] + ['a4.w.v@ == w.v@']
    asserts += ['b4.%s.v@ == a.%s.v@' % (f, f) for f in 'xyz']
    u.add(P, thm_fn('thm_quat_acts_like_matrix', ['q: Quaternion<R>', 'v: Vec3<R>', 'w: R'], [unit], body, asserts, 'C05'))
    body = ('    let pq = p * q;\n    let a = pq * v;\n    let qv = q * v;\n    let b = p * qv;\n'
            '    proof { crate::%s(%s, %s, %s); }\n' % (AL['compose'].name, qargs('p'), qargs('q'), v3args('v')))
    u.add(P, thm_fn('thm_quat_action_composes', ['p: Quaternion<R>', 'q: Quaternion<R>', 'v: Vec3<R>'], [], body,
                    ['a.%s.v@ == b.%s.v@' % (f, f) for f in 'xyz'], 'C05'))
    # rotation_from_to_3d
    uu, vv = SV.of(V3, 'a'), SV.of(V3, 'b')
    nn, w0 = RC.from_to_parts(uu, vv)
    qraw = list(uu.cross(vv).e) + [w0]
    pre = ['%s > 0real' % X.verus(uu.dot(uu)), '%s > 0real' % X.verus(vv.dot(vv)),
           '!(%s)' % X.verus(w0.lt(nn * app('eps_r'))), '%s > 0real' % X.verus(w0)]
    SLg = side_lemmas()['gen_a']
    lines = [
        '    let ghost uv2 = %s;' % X.verus(uu.dot(uu) * vv.dot(vv)),
        '    let ghost nn = sqrt_r(uv2);',
        '    let ghost m2 = %s;' % X.verus(RC.qnorm2(qraw)),
        '    let ghost m = sqrt_r(m2);',
        '    proof {',
        '        crate::%s(%s, %s, nn);' % (SLg.name, v3args('a'), v3args('b')),
        '        axiom_sqrt(uv2); crate::lemma_pos_root(nn, uv2);',
        '        axiom_sqrt(m2); crate::lemma_pos_root(m, m2);',
        '        crate::%s(%s, %s, nn, m);' % (FT['generic'].name, v3args('a'), v3args('b')),
        '    }',
        '    let q = Quaternion::rotation_from_to_3d(a, b);',
        '    let img = q * a;',
        '    let n_q = q.magnitude_squared();',
    ]
    body = '\n'.join(lines) + '\n'
    asserts = ['img.%s.v@ * nn == %s * b.%s.v@' % (f, X.verus(uu.dot(uu)), f) for f in 'xyz'] + ['n_q.v@ == 1real']
    u.add(P, thm_fn('thm_from_to_generic', ['a: Vec3<R>', 'b: Vec3<R>'], pre, body, asserts, 'C05'))


def side_lemmas():
    """non-linear side facts of the C05 theorems, discharged by z3 instead of Verus's nonlinear_arith mode"""
    a, b = SV.params('a', 3), SV.params('b', 3)
    k, nn, eps, m, m2 = var('k'), var('nn'), var('eps'), var('m'), var('m2')
    aa = a.dot(a)
    uv = a.dot(a) * b.dot(b)
    opp = [b[i].eq(-(k * a[i])) for i in range(3)]
    out = {}
    out['opp_a'] = L.Lemma('lemma_opp_a', a.e + b.e + [k], opp + [aa.gt(0), k.gt(0)], [uv.gt(0)],
                           doc='b = -k a, |a| > 0, k > 0 ==> |a|^2 |b|^2 > 0')
    out['opp_b'] = L.Lemma('lemma_opp_b', a.e + b.e + [k, nn, eps], opp + [aa.gt(0), k.gt(0), nn.ge(0), (nn * nn).eq(uv), eps.gt(0)],
                           [nn.gt(0), (nn + a.dot(b)).eq(0), (nn + a.dot(b)).lt(nn * eps)],
                           doc='for exactly opposite directions |u||v| + u.v == 0, below the antiparallel threshold')
    out['pos_root'] = L.Lemma('lemma_pos_root', [m, m2], [m.ge(0), (m * m).eq(m2), m2.gt(0)], [m.gt(0)],
                              doc='the square root of a positive number is positive')
    out['m2_xy'] = L.Lemma('lemma_m2_xy', a.e, [a[0].ne(0)], [RC.qnorm2([-a[1], a[0], ZERO, ZERO]).gt(0)], doc='x != 0 ==> y^2 + x^2 > 0')
    out['m2_yz'] = L.Lemma('lemma_m2_yz', a.e, [aa.gt(0), X.or_(a[2].ne(0), a[0].eq(0))],
                           [RC.qnorm2([ZERO, -a[2], a[1], ZERO]).gt(0)], doc='a != 0 and (z != 0 or x == 0) ==> z^2 + y^2 > 0')
    u, v = SV.params('u', 3), SV.params('v', 3)
    w0 = nn + u.dot(v)
    qraw = list(u.cross(v).e) + [w0]
    out['gen_a'] = L.Lemma('lemma_gen_a', u.e + v.e + [nn], [u.dot(u).gt(0), v.dot(v).gt(0), w0.gt(0)],
                           [(u.dot(u) * v.dot(v)).gt(0), RC.qnorm2(qraw).gt(0)], doc='side facts of the generic from-to case')
    q = qparams('q')
    s = var('s')
    ax = SV.params('x', 3)
    out['unit_w'] = L.Lemma('lemma_unit_w', q, [RC.qnorm2(q).eq(1)], [(q[3] * q[3]).le(1), q[3].le(1), q[3].ge(-1),
                                                                       (ONE - q[3] * q[3]).ge(0)], doc='|q| = 1 ==> -1 <= w <= 1')
    out['unit_axis'] = L.Lemma('lemma_unit_axis', q + [s] + ax.e,
                               [RC.qnorm2(q).eq(1), (s * s).eq(ONE - q[3] * q[3]), s.gt(0)] + [ax[i].eq(q[i] / s) for i in range(3)],
                               [ax.dot(ax).eq(1)] + [(ax[i] * s).eq(q[i]) for i in range(3)],
                               doc='(x,y,z)/sqrt(1-w^2) is a unit vector for a unit quaternion')
    return out


def add_theorems2(u, AL, FT, SL):
    P = QP
    uu = SV.of(V3, 'a')
    bb = SV.of(V3, 'b')
    a3, b3 = v3args('a'), v3args('b')
    for case, big in (('xy', True), ('yz', False)):
        raw = [-uu[1], uu[0], ZERO, ZERO] if big else [ZERO, -uu[2], uu[1], ZERO]
        cond = 'abs_r(a.x.v@) > abs_r(a.z.v@)' if big else '!(abs_r(a.x.v@) > abs_r(a.z.v@))'
        n2 = X.verus(uu.dot(uu))
        lines = [
            '    let b = Vec3::new(-(k * a.x), -(k * a.y), -(k * a.z));',
            '    let ghost uv2 = %s;' % X.verus(uu.dot(uu) * bb.dot(bb)),
            '    let ghost nn = sqrt_r(uv2);',
            '    let ghost m2 = %s;' % X.verus(RC.qnorm2(raw)),
            '    let ghost m = sqrt_r(m2);',
            '    proof {',
            '        crate::%s(%s, %s, k.v@);' % (SL['opp_a'].name, a3, b3),
            '        axiom_sqrt(uv2); axiom_eps();',
            '        crate::%s(%s, %s, k.v@, nn, eps_r());' % (SL['opp_b'].name, a3, b3),
            '        crate::%s(%s);' % (SL['m2_xy' if big else 'm2_yz'].name, a3),
            '        axiom_sqrt(m2);',
            '        crate::%s(m, m2);' % SL['pos_root'].name,
            '        crate::%s(%s, m);' % (FT['anti_' + case].name, a3),
            '    }',
            '    let q = Quaternion::rotation_from_to_3d(a, b);',
            '    let img = q * a;',
            '    let n_q = q.magnitude_squared();',
        ]
        asserts = ['img.%s.v@ == -a.%s.v@' % (f, f) for f in 'xyz'] + ['n_q.v@ == 1real', 'q.w.v@ == 0real']
        u.add(P, thm_fn('thm_from_to_opposite_' + case, ['a: Vec3<R>', 'k: R'], ['%s > 0real' % n2, 'k.v@ > 0real', cond],
                        '\n'.join(lines) + '\n', asserts, 'C05'))
    S = RC.qleaf('q')
    n2q = X.verus(RC.qnorm2(S))
    ax2 = X.verus(SV.of(V3, 'axis').dot(SV.of(V3, 'axis')))
    lines = [
        '    let ghost s = sqrt_r(1real - q.w.v@ * q.w.v@);',
        '    proof {',
        '        crate::%s(%s);' % (SL['unit_w'].name, qargs('q')),
        '        axiom_acos(q.w.v@); axiom_sqrt(1real - q.w.v@ * q.w.v@); axiom_eps();',
        '        assert(s > 0real);',
        '    }',
        '    let (angle, axis) = q.into_angle_axis();',
        '    proof {',
        '        assert((angle.v@) / 2real == acos_r(q.w.v@));',
        '        crate::%s(%s, s, axis.x.v@, axis.y.v@, axis.z.v@);' % (SL['unit_axis'].name, qargs('q')),
        '        lemma_sqrt_one();',
        '    }',
        '    let back = Quaternion::rotation_3d(angle, axis);',
    ]
    asserts = ['back.%s.v@ == q.%s.v@' % (f, f) for f in 'xyzw'] + ['%s == 1real' % ax2, '0real <= angle.v@ <= 2real * pi_r()']
    u.add(P, thm_fn('thm_angle_axis_roundtrip', ['q: Quaternion<R>'],
                    ['%s == 1real' % n2q, 'sqrt_r(1real - q.w.v@ * q.w.v@) >= eps_r()'], '\n'.join(lines) + '\n', asserts, 'C05'))


def plan(exp, tier):
    p = driver.Plan('C05')
    AL = algebra_lemmas()
    FT = from_to_lemmas()
    u = vec_unit(exp, 'c05', [VEC['Vec2'], V3, V4], mats=MATS)
    veccore.add_conversions(u, only=('Vec2', 'Vec3', 'Vec4'))
    for nm in ('Vec3', 'Vec4'):
        veccore.add_spatial_basic(u, VEC[nm])
    for f in 'xyz':
        u.take(V3.path, 'impl<T>Vec3<T>', 'unit_' + f, C(ensures=['res.%s.v@ == %dreal' % (g, 1 if g == f else 0) for g in V3.fields]))
    RC.add_quat_core(u)
    RC.add_quat_algebra(u)
    RC.add_quat_rotations(u)
    RC.add_quat_from_to(u)
    RC.add_quat_angle_axis(u)
    for ms in MATS:
        if ms.n >= 3:
            matcore.add_mat_struct(u, ms)
            matcore.add_mat_mul(u, ms)
            RC.add_mat_from_quat(u, ms)
    matcore.add_mat_size_conversions(u, (3, 4))
    add_theorems(u, AL, FT)
    SL = side_lemmas()
    add_theorems2(u, AL, FT, SL)
    for lm in list(AL.values()) + list(FT.values()) + list(SL.values()):
        u.add_root(lm.verus_text('C05'))
    p.lemmas += list(AL.values()) + list(FT.values()) + list(SL.values())
    p.add_unit('c05', u, ['vec', 'quaternion', 'mat'])
    p.not_decided += ['rotation_from_to_3d for inputs inside the code\'s epsilon sliver 0 < |u||v| + u.v < |u||v| eps',
                      'floating-point sampling clauses of the quantifier (exact real arithmetic is used instead)']
    return p
