"""C12 — lerp is affine with exact endpoints; nlerp and slerp stay on the unit sphere (Verus part + Kani for integers)."""
import os
import driver
import veccore
import opscore
import rotcore as RC
import expr as X
import lemma as L
import kani_driver
from expr import const, var, app
from extract import Contract as C
from xparse import norm
from sym import SM, SV, leaf
from common import vec_unit
from shapes import VEC, VECS
from matcore import thm_fn, veq

V3, V4 = VEC['Vec3'], VEC['Vec4']
ONE, ZERO = const(1), const(0)


def lerp_e(a, b, f):
    return a + f * (b - a)


def add_vec_lerp(u, sh):
    P, N, n = sh.path, sh.name, sh.dim
    gh = 'impl<T>%s<T>' % N
    fr, to = SV.of(sh, 'from'), SV.of(sh, 'to')
    fs = SV.of(sh, 'factor.into_spec()')
    ens = ['res.%s.v@ == %s' % (sh.fields[i], X.verus(lerp_e(fr[i], to[i], fs[i]))) for i in range(n)]
    rq = ['S::obeys_into_spec()']
    u.take(P, gh, 'lerp_unclamped', C(requires=rq, ensures=ens))
    pro = 'proof { %s }' % ' '.join('crate::lemma_lerp_precise(%s, %s, %s);' % (X.verus(fr[i]), X.verus(to[i]), X.verus(fs[i]))
                                    for i in range(n))
    u.take(P, gh, 'lerp_unclamped_precise', C(requires=rq, ensures=ens, prologue=pro))
    cl = 'factor.clamped_spec(S::zero_spec(), S::one_spec())'
    fc = SV.of(sh, cl + '.into_spec()')
    ensc = ['res.%s.v@ == %s' % (sh.fields[i], X.verus(lerp_e(fr[i], to[i], fc[i]))) for i in range(n)]
    rqc = rq + ['factor.clamped_req(S::zero_spec(), S::one_spec())']
    u.take(P, gh, 'lerp', C(requires=rqc, ensures=ensc))
    u.take(P, gh, 'lerp_precise', C(requires=rqc, ensures=ensc))
    # generic Lerp impls (by value and by reference): per element the element type's own Lerp
    f = sh.fields
    for (hdr, amp, out) in (('impl<T, Factor> Lerp<Factor> for %s<T> where T: Lerp<Factor, Output = T>, Factor: Copy' % N, '', 'Self'),
                            ("impl<'a, T, Factor> Lerp<Factor> for &'a %s<T> where &'a T: Lerp<Factor, Output = T>, Factor: Copy" % N, '&', '%s<T>' % N)):
        ty = 'T' if not amp else "&'a T"
        elem = lambda x: '<%s as Lerp<Factor>>::lerp_spec(%sfrom.%s, %sto.%s, factor)' % (ty, amp, x, amp, x)
        req = ' && '.join('<%s as Lerp<Factor>>::lerp_req(%sfrom.%s, %sto.%s, factor)' % (ty, amp, x, amp, x) for x in f)
        u.impl_extra[(P, norm(hdr))] = ('open spec fn lerp_req(from: Self, to: Self, factor: Factor) -> bool { %s }\n'
                                        'open spec fn lerp_spec(from: Self, to: Self, factor: Factor) -> %s<T> { %s }'
                                        % (req, N, sh.lit([elem(x) for x in f])))
        e2 = ['res.%s == %s' % (x, elem(x)) for x in f]
        u.take_impl(P, hdr, {'lerp_unclamped': C(ensures=e2), 'lerp_unclamped_precise': C(ensures=e2)}, mode='G')


def add_quat_lerp(u):
    P = 'quaternion::repr_c'
    S, T, f = RC.qleaf('from'), RC.qleaf('to'), leaf('factor.v@')
    un = [lerp_e(a, b, f) for a, b in zip(S, T)]
    h1 = 'impl<T> Quaternion<T> where T: Copy + Sub<Output = T> + MulAdd<T, T, Output = T>'
    h2 = 'impl<T> Quaternion<T> where T: Copy + One + Mul<Output = T> + Sub<Output = T> + MulAdd<T, T, Output = T>'
    u.take(P, h1, 'lerp_unclamped_unnormalized', C(ensures=RC.qeq('res', un)))
    u.take(P, h2, 'lerp_unclamped_precise_unnormalized', C(ensures=RC.qeq('res', un)))
    fc = leaf('factor.clamped_spec(R::zero_spec(), R::one_spec()).v@')
    unc = [lerp_e(a, b, fc) for a, b in zip(S, T)]
    rq = ['factor.clamped_req(R::zero_spec(), R::one_spec())']
    u.take(P, h1, 'lerp_unnormalized', C(requires=rq, ensures=RC.qeq('res', unc)))
    u.take(P, h2, 'lerp_precise_unnormalized', C(requires=rq, ensures=RC.qeq('res', unc)))


def lemmas():
    a, b, f, g = var('a'), var('b'), var('f'), var('g')
    out = {}
    out['affine'] = L.Lemma('lemma_lerp_affine', [a, b, f, g], [],
                            [lerp_e(a, b, ZERO).eq(a), lerp_e(a, b, ONE).eq(b), (lerp_e(a, b, f) - lerp_e(a, b, g)).eq((f - g) * (b - a))],
                            doc='lerp(a,b,0) = a, lerp(a,b,1) = b, lerp(a,b,f) - lerp(a,b,g) = (f-g)(b-a)')
    q = [var('q' + c) for c in 'xyzw']
    m = var('m')
    out['nlerp'] = L.Lemma('lemma_nlerp_unit', q + [m], [(m * m).eq(RC.qnorm2(q)), m.gt(0)], [RC.qnorm2([c / m for c in q]).eq(1)],
                           doc='a non-zero 4-vector divided by its length has unit length')
    out['slerp'] = slerp_lemma()
    out['slerp_pos'] = slerp_pos_lemma()
    out['slerp_side'] = slerp_side_lemma()
    return out


def add_theorems(u, lem):
    sh = V4
    body = ('    let r0 = Vec4::lerp_unclamped(a, b, R::zero());\n    let r1 = Vec4::lerp_unclamped(a, b, R::one());\n'
            '    let rf = Vec4::lerp_unclamped(a, b, f);\n    let rg = Vec4::lerp_unclamped(a, b, g);\n'
            '    let pf = Vec4::lerp_unclamped_precise(a, b, f);\n    let rv = Vec4::lerp_unclamped(a, b, fv);\n'
            '    let lf: Vec4<R> = Lerp::lerp_unclamped(a, b, f);\n    let lr: Vec4<R> = Lerp::lerp_unclamped(&a, &b, f);\n'
            '    let c = Vec4::lerp(a, b, f);\n    let s0 = <R as Lerp<R>>::lerp_unclamped(a.x, b.x, R::zero());\n'
            '    let s1 = <R as Lerp<R>>::lerp_unclamped(a.x, b.x, R::one());\n    let sp = <R as Lerp<R>>::lerp_unclamped_precise(a.x, b.x, f);\n'
            '    let sf = <R as Lerp<R>>::lerp_unclamped(a.x, b.x, f);\n    let sc = <R as Lerp<R>>::lerp(a.x, b.x, f);\n'
            '    proof { %s }\n' % ' '.join('crate::%s(a.%s.v@, b.%s.v@, f.v@, g.v@);' % (lem['affine'].name, x, x) for x in sh.fields))
    asserts = []
    for x in sh.fields:
        asserts += ['r0.%s.v@ == a.%s.v@' % (x, x), 'r1.%s.v@ == b.%s.v@' % (x, x),
                    'rf.%s.v@ - rg.%s.v@ == (f.v@ - g.v@) * (b.%s.v@ - a.%s.v@)' % (x, x, x, x), 'pf.%s.v@ == rf.%s.v@' % (x, x),
                    'rv.%s.v@ == a.%s.v@ + fv.%s.v@ * (b.%s.v@ - a.%s.v@)' % (x, x, x, x, x),
                    'lf.%s.v@ == rf.%s.v@' % (x, x), 'lr.%s.v@ == rf.%s.v@' % (x, x)]
    cl = '(if f.v@ < 0real { 0real } else if f.v@ > 1real { 1real } else { f.v@ })'
    asserts += ['c.%s.v@ == a.%s.v@ + %s * (b.%s.v@ - a.%s.v@)' % (x, x, cl, x, x) for x in sh.fields]
    asserts += ['s0.v@ == a.x.v@', 's1.v@ == b.x.v@', 'sp.v@ == sf.v@', 'sc.v@ == a.x.v@ + %s * (b.x.v@ - a.x.v@)' % cl]
    u.add(sh.path, thm_fn('thm_lerp_vec4', ['a: Vec4<R>', 'b: Vec4<R>', 'f: R', 'g: R', 'fv: Vec4<R>'], [], body, asserts, 'C12'))
    # quaternion lerp (nlerp) returns a unit quaternion whenever the interpolated 4-vector is non-zero
    S, T, f = RC.qleaf('p'), RC.qleaf('q'), leaf('f.v@')
    un = [lerp_e(a, b, f) for a, b in zip(S, T)]
    n2 = X.verus(RC.qnorm2(un))
    body = ('    let ghost n2 = %s;\n    let ghost m = sqrt_r(n2);\n'
            '    proof { axiom_sqrt(n2); assert(m > 0real) by { if m == 0real { assert(m * m == 0real); } }\n'
            '            crate::%s(%s, m); }\n'
            '    let r: Quaternion<R> = Lerp::lerp_unclamped(p, q, f);\n    let rp: Quaternion<R> = Lerp::lerp_unclamped_precise(p, q, f);\n'
            '    let n = r.magnitude_squared();\n    let u0 = Quaternion::lerp_unclamped_unnormalized(p, q, R::zero());\n'
            '    let u1 = Quaternion::lerp_unclamped_unnormalized(p, q, R::one());\n'
            % (n2, lem['nlerp'].name, ', '.join(X.verus(c) for c in un)))
    asserts = ['n.v@ == 1real'] + ['rp.%s.v@ == r.%s.v@' % (x, x) for x in 'xyzw']
    asserts += ['u0.%s.v@ == p.%s.v@' % (x, x) for x in 'xyzw'] + ['u1.%s.v@ == q.%s.v@' % (x, x) for x in 'xyzw']
    u.add('quaternion::repr_c', thm_fn('thm_quat_nlerp', ['p: Quaternion<R>', 'q: Quaternion<R>', 'f: R'], ['%s > 0real' % n2],
                                       body, asserts, 'C12'))


def add_quat_lerp_impl(u):
    P = 'quaternion::repr_c'
    hdr = 'impl<T, Factor> Lerp<Factor> for Quaternion<T> where T: Lerp<Factor, Output = T> + Add<T, Output = T> + Real, Factor: Copy'
    S, T, f = RC.qleaf('from'), RC.qleaf('to'), leaf('factor.v@')
    un = [lerp_e(a, b, f) for a, b in zip(S, T)]
    nl = RC.qnormalized(un)
    lit = 'Quaternion { %s }' % ', '.join('%s: rr(%s)' % (x, X.verus(e)) for x, e in zip('xyzw', nl))
    u.impl_extra[(P, norm(hdr))] = ('open spec fn lerp_req(from: Self, to: Self, factor: R) -> bool { true }\n'
                                    'open spec fn lerp_spec(from: Self, to: Self, factor: R) -> Quaternion<R> { %s }' % lit)
    pro = 'proof { %s }' % ' '.join('crate::lemma_lerp_precise(%s, %s, %s);' % (X.verus(a), X.verus(b), X.verus(f)) for a, b in zip(S, T))
    u.take_impl(P, hdr, {'lerp_unclamped': C(ensures=RC.qeq('res', nl)), 'lerp_unclamped_precise': C(ensures=RC.qeq('res', nl), prologue=pro)},
                tparams=('T', 'Factor'))


def slerp_parts(S, T, f):
    """definition of quaternion slerp along the shorter arc, by cases (S, T: leaf quadruples; f: leaf)"""
    dot = X.sum_([a * b for a, b in zip(S, T)])
    return dot


def add_quat_slerp(u):
    P = 'quaternion::repr_c'
    hdr = 'impl<T> Quaternion<T> where T: Lerp<T, Output = T> + Add<T, Output = T> + Real'
    S, T, f = RC.qleaf('from'), RC.qleaf('to'), leaf('factor.v@')
    dv = var('d', verus='d')
    sg = var('sg', verus='sg')      # +1 / -1: the sign flip that selects the shorter arc
    cv = var('c', verus='c')        # |from . to|
    T2 = [sg * b for b in T]
    un = [lerp_e(a, b, f) for a, b in zip(S, T2)]
    nl = RC.qnormalized(un)
    ang = app('acos_r', cv)
    tr = [(a * app('sin_r', (ONE - f) * ang) + b * app('sin_r', f * ang)) / app('sin_r', ang) for a, b in zip(S, T2)]
    lets = ('let d = %s; let sg = if d < 0real { -1real } else { 1real }; let c = if d < 0real { -d } else { d };'
            % X.verus(X.sum_([a * b for a, b in zip(S, T)])))
    near = 'c > 1real - eps_r()'
    ens = []
    for k, x in enumerate('xyzw'):
        ens.append('({ %s ((%s) ==> res.%s.v@ == %s) && ((!(%s)) ==> res.%s.v@ == %s) })'
                   % (lets, near, x, X.verus(nl[k]), near, x, X.verus(tr[k])))
    u.take(P, hdr, 'slerp_unclamped', C(ensures=ens))
    # the same by-cases definition as a spec function (used by the Slerp trait impls and Transform's Lerp)
    lit = 'Quaternion { %s }' % ', '.join('%s: rr(if %s { %s } else { %s })' % (x, near, X.verus(nl[k]), X.verus(tr[k])) for k, x in enumerate('xyzw'))
    u.add(P, 'pub open spec fn quat_slerp_spec(from: Quaternion<R>, to: Quaternion<R>, factor: R) -> Quaternion<R> { %s %s }' % (lets, lit))
    for hdr2, amp in (('impl<T, Factor> Slerp<Factor> for Quaternion<T> where T: Lerp<T, Output = T> + Add<T, Output = T> + Real, Factor: Into<T>', ''),
                      ("impl<'a, T, Factor> Slerp<Factor> for &'a Quaternion<T> where T: Lerp<T, Output = T> + Add<T, Output = T> + Real, Factor: Into<T>", '*')):
        # Factor := R as well (D3): Verus resolves `Self::slerp_unclamped` in its own encoding of a trait-method contract to the inherent
        # function of the same name, so the factor types must coincide; `factor.into()` is then the reflexive Into (axiom)
        u.impl_extra[(P, norm(hdr2))] = ('open spec fn slerp_req(from: Self, to: Self, factor: R) -> bool { true }\n'
                                         'open spec fn slerp_spec(from: Self, to: Self, factor: R) -> Quaternion<R> '
                                         '{ quat_slerp_spec(%sfrom, %sto, factor) }' % (amp, amp))
        u.take_impl(P, hdr2, {'slerp_unclamped': C(ensures=['res == quat_slerp_spec(%sfrom, %sto, factor)' % (amp, amp)])}, tparams=('T', 'Factor'))
    return lets


def add_transform_lerp(u):
    """Lerp on Transform: positions and scales by the vector Lerp, orientations by the quaternion Slerp (by value and by reference)"""
    P = 'transform::repr_c'
    for hdr, amp, ty in (
            ('impl<P, O, S, Factor> Lerp<Factor> for Transform<P, O, S> where Factor: Copy + Into<O>, P: Lerp<Factor, Output = P>, '
             'S: Lerp<Factor, Output = S>, O: Lerp<O, Output = O> + Real + Add<Output = O>', '', lambda t: 'Vec3<R>'),
            ("impl<'a, P, O, S, Factor> Lerp<Factor> for &'a Transform<P, O, S> where Factor: Copy + Into<O>, &'a P: Lerp<Factor, Output = P>, "
             "&'a S: Lerp<Factor, Output = S>, O: Lerp<O, Output = O> + Real + Add<Output = O>", '&', lambda t: "&'a Vec3<R>")):
        q = 'Quaternion<R>' if not amp else "&'a Quaternion<R>"
        # the spec is written out per element (no trait-dispatched spec calls inside it: with them Verus 0.2026.09.13 orders the
        # prelude's operator impls before their own spec axioms and fails them)
        vlit = lambda w: 'Vec3 { %s }' % ', '.join('%s: rr(a.%s.%s.v@ + t.v@ * (b.%s.%s.v@ - a.%s.%s.v@))' % (x, w, x, w, x, w, x) for x in 'xyz')
        deref = '*' if amp else ''
        olit = 'quat_slerp_spec(a.orientation, b.orientation, t)'
        u.impl_extra[(P, norm(hdr))] = (
            'open spec fn lerp_req(a: Self, b: Self, t: R) -> bool { true }\n'
            'open spec fn lerp_spec(a: Self, b: Self, t: R) -> Transform<R, R, R> { Transform { position: %s, orientation: %s, scale: %s } }'
            % (vlit('position'), olit, vlit('scale')))
        ens = ['res.%s.%s.v@ == a.%s.%s.v@ + t.v@ * (b.%s.%s.v@ - a.%s.%s.v@)' % ((w, x) * 4) for w in ('position', 'scale') for x in 'xyz']
        ens += ['res.orientation == ' + olit]
        pro = 'proof { %s }' % ' '.join('crate::lemma_lerp_precise(a.%s.%s.v@, b.%s.%s.v@, t.v@);' % (w, x, w, x)
                                        for w in ('position', 'scale') for x in 'xyz')
        u.take_impl(P, hdr, {'lerp_unclamped': C(ensures=ens), 'lerp_unclamped_precise': C(ensures=ens, prologue=pro)},
                    tparams=('P', 'O', 'S', 'Factor'))
    # at P = O = S = Factor = R: affine in position and scale, quaternion slerp in orientation
    body = ('    let r: Transform<R, R, R> = Lerp::lerp_unclamped(a, b, f);\n    let rp: Transform<R, R, R> = Lerp::lerp_unclamped_precise(a, b, f);\n'
            '    let rr_: Transform<R, R, R> = Lerp::lerp_unclamped(&a, &b, f);\n'
            '    let o = Quaternion::slerp_unclamped(a.orientation, b.orientation, f);\n'
            '    proof { %s }\n' % ' '.join('crate::lemma_lerp_precise(a.%s.%s.v@, b.%s.%s.v@, f.v@);' % (w, x, w, x)
                                          for w in ('position', 'scale') for x in 'xyz'))
    asserts = []
    for w in ('position', 'scale'):
        for x in 'xyz':
            asserts.append('r.%s.%s.v@ == a.%s.%s.v@ + f.v@ * (b.%s.%s.v@ - a.%s.%s.v@)' % ((w, x) * 4))
            asserts.append('rp.%s.%s.v@ == r.%s.%s.v@ && rr_.%s.%s.v@ == r.%s.%s.v@' % ((w, x) * 4))
    asserts += ['r.orientation.%s.v@ == o.%s.v@ && rp.orientation.%s.v@ == o.%s.v@ && rr_.orientation.%s.v@ == o.%s.v@' % ((x,) * 6) for x in 'xyzw']
    u.add(P, thm_fn('thm_transform_lerp', ['a: Transform<R, R, R>', 'b: Transform<R, R, R>', 'f: R'], [], body, asserts, 'C12'))


def slerp_lemma():
    """staged: (A) expansion identities, (C) pulling the common divisor out, (B) the trigonometric core in 8 variables"""
    p, q = [var('p' + c) for c in 'xyzw'], [var('q' + c) for c in 'xyzw']
    sA, cA, sB, cB, st = var('sA'), var('cA'), var('sB'), var('cB'), var('st')
    P2, Q2 = RC.qnorm2(p), RC.qnorm2(q)
    PQ = X.sum_([a * b for a, b in zip(p, q)])
    xs = [a * sA + b * sB for a, b in zip(p, q)]
    la = L.Lemma('lemma_slerp_expand', p + q + [sA, sB], [],
                 [RC.qnorm2(xs).eq((sA * sA) * P2 + (const(2) * sA * sB) * PQ + (sB * sB) * Q2),
                  X.sum_([x * a for x, a in zip(xs, p)]).eq(sA * P2 + sB * PQ)],
                 doc='|p sA + q sB|^2 and (p sA + q sB).p expanded')
    x = [var('x%d' % i) for i in range(4)]
    lc = L.Lemma('lemma_slerp_divisor', x + p + [st], [st.ne(0)],
                 [RC.qnorm2([xi / st for xi in x]).eq(RC.qnorm2(x) / (st * st)),
                  X.sum_([(xi / st) * a for xi, a in zip(x, p)]).eq(X.sum_([xi * a for xi, a in zip(x, p)]) / st)],
                 doc='a common divisor can be pulled out of the squared norm and of the dot product')
    vP2, vQ2, vPQ = var('pp'), var('qq'), var('pq')
    lb = L.Lemma('lemma_slerp_core', [vP2, vQ2, vPQ, sA, cA, sB, cB, st],
                 [vP2.eq(1), vQ2.eq(1), vPQ.eq(cA * cB - sA * sB), st.eq(sA * cB + cA * sB), st.ne(0),
                  (sA * sA + cA * cA).eq(1), (sB * sB + cB * cB).eq(1)],
                 [(((sA * sA) * vP2 + (const(2) * sA * sB) * vPQ + (sB * sB) * vQ2) / (st * st)).eq(1),
                  ((sA * vP2 + sB * vPQ) / st).eq(cB)],
                 doc='trigonometric core of slerp: unit length and angle t*a with the start')
    ln = L.Lemma('lemma_slerp_negated', p + q, [],
                 [RC.qnorm2([-b for b in q]).eq(Q2), X.sum_([a * (-b) for a, b in zip(p, q)]).eq(-PQ)] +
                 [((const(-1)) * b).eq(-b) for b in q],
                 doc='negating a quaternion keeps its norm and negates the dot product')
    return [la, lc, lb, ln]


def add_slerp_theorem(u, ls, flip=False):
    """unit length, angle f*theta with the start, both end points; flip: the branch from.to < 0, where the code interpolates towards -to
    (the shorter arc) and reaches the far end up to the sign that denotes the same rotation"""
    S, T, f = RC.qleaf('p'), RC.qleaf('q'), leaf('f.v@')
    if flip:
        T = [-b for b in T]
    dot0 = X.verus(X.sum_([a * b for a, b in zip(RC.qleaf('p'), RC.qleaf('q'))]))
    dot = ('(-%s)' % dot0) if flip else dot0
    pre = ['%s == 1real' % X.verus(RC.qnorm2(RC.qleaf('p'))), '%s == 1real' % X.verus(RC.qnorm2(RC.qleaf('q'))),
           ('%s < 0real' % dot0) if flip else ('%s >= 0real' % dot0), '!(%s > 1real - eps_r())' % dot]
    sgn = '-' if flip else ''
    pa, qa = ', '.join('p.%s.v@' % x for x in 'xyzw'), ', '.join('(%sq.%s.v@)' % (sgn, x) for x in 'xyzw')
    lines = [
        '    let ghost c = %s;' % dot,
        '    let ghost th = acos_r(c);',
        '    let ghost a1 = (1real - f.v@) * th;',
        '    let ghost a2 = f.v@ * th;',
        '    proof {',
        '        axiom_eps(); axiom_acos(c); crate::lemma_slerp_side(c, eps_r(), f.v@, th); axiom_sqrt(1real - c * c);',
        '        assert(a1 + a2 == th);',
        '        axiom_sin_add(a1, a2); axiom_cos_add(a1, a2); axiom_sin_cos(a1); axiom_sin_cos(a2);',
        '        crate::lemma_slerp_pos(c, eps_r(), sin_r(th));',
        ('        crate::%s(%s, %s);' % (ls[3].name, pa, ', '.join('q.%s.v@' % x for x in 'xyzw'))) if flip else '',
        '        crate::%s(%s, %s, sin_r(a1), sin_r(a2));' % (ls[0].name, pa, qa),
        '        crate::%s(%s, %s, sin_r(th));' % (ls[1].name, ', '.join('(p.%s.v@ * sin_r(a1) + (%sq.%s.v@) * sin_r(a2))' % (x, sgn, x) for x in 'xyzw'), pa),
        '        crate::%s(%s, %s, %s, sin_r(a1), cos_r(a1), sin_r(a2), cos_r(a2), sin_r(th));' % (
            ls[2].name, X.verus(RC.qnorm2(S)), X.verus(RC.qnorm2(T)), X.verus(X.sum_([a * b for a, b in zip(S, T)]))),
        '        axiom_trig_zero();',
    ]
    if flip:
        lines += ['        %s' % ' '.join('assert((-1real) * q.%s.v@ == -q.%s.v@);' % (x, x) for x in 'xyzw'),
                  '        assert(%s == 1real);' % X.verus(RC.qnorm2(T)),
                  '        assert(%s == c);' % X.verus(X.sum_([a * b for a, b in zip(S, T)]))]
    lines += [
        '    }',
        '    let r = Quaternion::slerp_unclamped(p, q, f);',
        '    let n = r.magnitude_squared();',
        '    let rp = r.dot(p);',
        '    let r0 = Quaternion::slerp_unclamped(p, q, R::zero());',
        '    let r1 = Quaternion::slerp_unclamped(p, q, R::one());',
        '    proof { assert((1real - 0real) * th == th); assert(0real * th == 0real); assert((1real - 1real) * th == 0real); assert(1real * th == th);',
        '        ' + ' '.join('lemma_mul_div_cancel(p.%s.v@, sin_r(th)); lemma_mul_div_cancel(%sq.%s.v@, sin_r(th)); assert(p.%s.v@ * 0real == 0real); assert((%sq.%s.v@) * 0real == 0real);'
                              % (x, sgn, x, x, sgn, x) for x in 'xyzw') + ' }',
    ]
    asserts = ['n.v@ == 1real', 'rp.v@ == cos_r(f.v@ * th)'] + ['r0.%s.v@ == p.%s.v@' % (x, x) for x in 'xyzw'] + \
              ['r1.%s.v@ == %sq.%s.v@' % (x, sgn, x) for x in 'xyzw']
    u.add('quaternion::repr_c', thm_fn('thm_quat_slerp' + ('_shorter_arc' if flip else ''), ['p: Quaternion<R>', 'q: Quaternion<R>', 'f: R'], pre,
                                       '\n'.join(lines) + '\n', asserts, 'C12'))


def slerp_pos_lemma():
    c, e, s = var('c'), var('e'), var('s')
    return L.Lemma('lemma_slerp_pos', [c, e, s], [c.ge(0), c.le(ONE - e), e.gt(0), s.ge(0), (s * s).eq(ONE - c * c)], [s.gt(0)],
                   doc='0 <= cos a <= 1 - eps ==> sin a = sqrt(1 - cos^2 a) > 0')


def slerp_side_lemma():
    c, e, f, th = var('c'), var('e'), var('f'), var('th')
    return L.Lemma('lemma_slerp_side', [c, e, f, th], [c.ge(0), c.le(ONE - e), e.gt(0)],
                   [(ONE - c * c).ge(0), ((ONE - f) * th + f * th).eq(th)], doc='side facts: 1 - c^2 >= 0 on [0, 1-eps]; (1-f) a + f a == a')


def add_transition(u):
    P = 'transition'
    u.skip_structs.add((P, 'ProgressMapperFn'))     # holds a fn pointer: outside Verus's subset (listed under not_decided)
    u.trait_extra[(P, 'ProgressMapper')] = 'spec fn map_progress_spec(&self, progress: Progress) -> Progress;'
    u.take_trait(P, 'ProgressMapper', {'map_progress': C(ensures=['res == self.map_progress_spec(progress)'])})
    h = 'impl<Progress> ProgressMapper<Progress> for IdentityProgressMapper'
    u.impl_extra[(P, norm(h))] = 'open spec fn map_progress_spec(&self, progress: Progress) -> Progress { progress }'
    u.take_impl(P, h, {'map_progress': C(ensures=['res == progress'])}, mode='G')
    hi = 'impl<T, F, Progress> Transition<T, F, Progress> where F: ProgressMapper<Progress>'
    mp = 'self.progress_mapper.map_progress_spec(self.progress)'
    z, o = 'Progress::zero_spec()', 'Progress::one_spec()'
    clm = '%s.clamped_spec(%s, %s)' % (mp, z, o)
    for fn, ref, clamped in (('into_current', False, True), ('into_current_unclamped', False, False),
                             ('into_current_precise', False, True), ('into_current_unclamped_precise', False, False),
                             ('current', True, True), ('current_unclamped', True, False), ('current_precise', True, True),
                             ('current_unclamped_precise', True, False)):
        ty = "<&'a T as Lerp<Progress>>" if ref else '<T as Lerp<Progress>>'
        amp = '&' if ref else ''
        fac = clm if clamped else mp
        req = ['%s::lerp_req(%sself.start, %sself.end, %s)' % (ty, amp, amp, fac)]
        if clamped:
            req = ['%s.clamped_req(%s, %s)' % (mp, z, o)] + req
        u.take(P, hi, fn, C(requires=req, ensures=['res == %s::lerp_spec(%sself.start, %sself.end, %s)' % (ty, amp, amp, fac)]), mode='G')


def flat(lem):
    out = []
    for v in lem.values():
        out += v if isinstance(v, list) else [v]
    return out


def plan(exp, tier):
    p = driver.Plan('C12')
    lem = lemmas()
    ll = opscore.lerp_lemma()
    groups = [('c12_small', [v for v in VECS if v.dim <= 4]), ('c12_8_16', [VEC['Vec8'], VEC['Vec16']]),
              ('c12_32_64', [VEC['Vec32'], VEC['Vec64']])]
    for nm, shapes in groups:
        u = vec_unit(exp, nm, shapes)
        opscore.add_traits(u, ('Clamp', 'Lerp', 'Slerp'))
        opscore.add_float_impls(u, ('Clamp', 'Lerp'))
        for sh in shapes:
            veccore.add_vec_zero_one(u, sh)
            add_vec_lerp(u, sh)
        tops = ['ops', 'vec']
        if nm == 'c12_small':
            veccore.add_conversions(u, only=('Vec2', 'Vec3', 'Vec4'))
            veccore.add_spatial_basic(u, V4)
            RC.add_quat_core(u)
            RC.add_quat_algebra(u)
            add_quat_lerp(u)
            add_quat_lerp_impl(u)
            add_quat_slerp(u)
            add_transition(u)
            add_transform_lerp(u)
            add_theorems(u, lem)
            add_slerp_theorem(u, lem["slerp"])
            add_slerp_theorem(u, lem["slerp"], flip=True)
            for lm in flat(lem):
                u.add_root(lm.verus_text('C12'))
            tops = ['ops', 'vec', 'quaternion', 'transition', 'transform']
        p.add_unit(nm, u, tops)
    p.lemmas += flat(lem) + [ll]
    if os.path.exists(os.path.join(kani_driver.KROOT, 'c12', 'harnesses.json')):
        specs = kani_driver.load_specs('c12')
        if specs:
            p.kani = specs
    p.not_decided += ['ProgressMapperFn (fn-pointer progress mapper) is outside Verus\'s subset: proved by Kani on the real code (c12_progress_mapper_fn, c12_transition_with_mapper_fn)',
                      'quaternion slerp: the theorem (unit length, angle t*theta with the start, both end points - the far end up to sign on the shorter-arc branch from.to < 0) is proved in the trigonometric branch; in the near-parallel nlerp branch only the by-cases contract is proved',
                      'integer Lerp impls: decided by Kani harnesses in /verif/kani/c12 when present',
                      'to-rounding-error clauses for f32/f64 (exact real arithmetic is used)']
    return p
