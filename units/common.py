import unit as U
import veccore
from shapes import VEC, VECS, MATS, mat


def vec_unit(exp, name, shapes, ops=('Add', 'Sub', 'Mul', 'Div'), extra=None, mats=()):
    """a unit with the vector core of the given shapes"""
    u = U.Unit(exp, name)
    import opscore
    opscore.add_partial_minmax(u)
    types = []
    for sh in shapes:
        veccore.add_struct_core(u, sh)
        veccore.add_arith_core(u, sh, ops)
        types.append('crate::vec::repr_c::%s<crate::pre::R>' % sh.name)
        if extra:
            extra(u, sh)
    for ms in mats:
        types.append('%s<crate::pre::R>' % ms.q)
    types.append('crate::pre::R')
    u.add_root(veccore.into_axioms(types))
    u.module_prologue.append('broadcast use crate::group_into_refl;')
    return u
