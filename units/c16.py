"""C16 — disks, spheres, segments, rays: containment, distance and hit queries are exact."""
import driver
import veccore
import opscore
import geomcore as G
import expr as X
import lemma as L
from expr import const, var, app
from extract import Contract as C
from sym import SV, leaf
from common import vec_unit
from shapes import VEC
from matcore import thm_fn, veq

P = G.P
V2, V3 = VEC['Vec2'], VEC['Vec3']
ONE, ZERO = const(1), const(0)
PE = ('P', 'E')


def d2(sh, a, b):
    return veccore.sub_dot(sh, a, b)


def add_round(u, n):
    """Disk (n=2) / Sphere (n=3)"""
    N = 'Disk' if n == 2 else 'Sphere'
    sh = VEC['Vec%d' % n]
    ext = VEC['Extent%d' % n]
    g0 = 'impl<P, E> %s<P, E>' % N
    u.take(P, g0, 'new', C(ensures=['res.center == center', 'res.radius == radius']), mode='G', tparams=())
    u.take(P, g0, 'unit', C(ensures=['res.center == center', 'res.radius.v@ == 1real']), tparams=PE)
    u.take(P, g0, 'point', C(ensures=['res.center == center', 'res.radius.v@ == 0real']), tparams=PE)
    u.take(P, g0, 'diameter', C(ensures=['res.v@ == self.radius.v@ + self.radius.v@']), tparams=PE)
    r = 'self.radius.v@'
    if n == 2:
        u.take(P, g0, 'circumference', C(ensures=['res.v@ == (pi_r() + pi_r()) * %s' % r]), tparams=PE)
        u.take(P, g0, 'area', C(ensures=['res.v@ == pi_r() * %s * %s' % (r, r)]), tparams=PE)
        rn, an = 'rect', 'aabr'
    else:
        u.take(P, g0, 'surface_area', C(ensures=['res.v@ == 4real * pi_r() * %s * %s' % (r, r)]), tparams=PE)
        u.take(P, g0, 'volume', C(ensures=['res.v@ == (4real * pi_r() * %s * %s * %s) / 3real' % (r, r, r)]), tparams=PE)
        rn, an = 'rect3', 'aabb'
    u.take(P, g0, rn, C(ensures=['res.%s.v@ == self.center.%s.v@ - %s' % (x, x, r) for x in sh.fields] +
                        ['res.%s.v@ == %s + %s' % (e, r, r) for e in ext.fields]), tparams=PE)
    g1 = 'impl<T> %s<T, T> where T: Copy + Add<T, Output = T> + Sub<T, Output = T>' % N
    u.take(P, g1, an, C(ensures=['res.min.%s.v@ == self.center.%s.v@ - %s' % (x, x, r) for x in sh.fields] +
                        ['res.max.%s.v@ == self.center.%s.v@ + %s' % (x, x, r) for x in sh.fields]))
    g2 = 'impl<T: Real + Add<T, Output = T>> %s<T, T>' % N
    u.take(P, g2, 'contains_point', C(ensures=['res == (sqrt_r(%s) <= %s)' % (d2(sh, 'self.center', 'p'), r)]))
    l = N.lower()
    u.take(P, g2, 'collides_with_' + l, C(ensures=['res == (sqrt_r(%s) <= %s + other.radius.v@)' % (d2(sh, 'self.center', 'other.center'), r)]))
    dd = d2(sh, 'other.center', 'self.center')
    u.take(P, g2, 'collision_vector_with_' + l, C(ensures=[
        '({ let m = sqrt_r(%s); res.%s.v@ == ((other.center.%s.v@ - self.center.%s.v@) / m) * (%s + other.radius.v@ - m) })' % (dd, x, x, x, r)
        for x in sh.fields]))


def add_segment(u, n):
    N = 'LineSegment%d' % n
    sh = VEC['Vec%d' % n]
    gh = 'impl<T>%s<T>' % N
    s, e, p = SV.of(sh, 'self.start'), SV.of(sh, 'self.end'), SV.of(sh, 'p')
    d = e - s
    len2 = d2(sh, 'self.start', 'self.end')
    tnum = (p - s).dot(d)
    tt = 'min_r(max_r(%s / len2, 0real), 1real)' % X.verus(tnum)
    deg = 'rel_eq_r(len2, 0real, eps_r(), eps_r())'
    ens = []
    for i, x in enumerate(sh.fields):
        ens.append('({ let len2 = %s; (%s ==> res.%s.v@ == self.start.%s.v@) && ((!%s) ==> res.%s.v@ == self.start.%s.v@ + %s * %s) })'
                   % (len2, deg, x, x, deg, x, x, X.verus(d[i]), tt))
    u.take(P, gh, 'projected_point', C(ensures=ens), tparams=('T',))
    js = ' '.join('let j%d = if %s { self.start.%s.v@ } else { self.start.%s.v@ + %s * %s };' % (i, deg, x, x, X.verus(d[i]), tt)
                  for i, x in enumerate(sh.fields))
    dist = ' + '.join('(j%d - p.%s.v@) * (j%d - p.%s.v@)' % (i, x, i, x) for i, x in enumerate(sh.fields))
    u.take(P, gh, 'distance_to_point', C(ensures=['({ let len2 = %s; %s res.v@ == sqrt_r(%s) })' % (len2, js, dist)]), tparams=('T',))
    # range conversions keep both end points (pure element movement, generic T)
    u.take(P, gh, 'into_range', C(ensures=['res.start == self.start', 'res.end == self.end']), mode='G')
    u.take_impl(P, 'impl<T> From<Range<%s<T>>> for %s<T>' % (sh.name, N),
                {'from': C(ensures=['res.start == range.start', 'res.end == range.end'])}, mode='G')
    return ens


def segment_lemma(n):
    s, d, p = SV.params('s', n), SV.params('d', n), SV.params('p', n)
    uu, t, l2 = var('u'), var('t'), var('l2')
    tr = (p - s).dot(d) / l2
    hy = [l2.eq(d.dot(d)), l2.gt(0), t.eq(X.ite(tr.lt(0), ZERO, X.ite(tr.gt(1), ONE, tr))), uu.ge(0), uu.le(1)]
    q = SV([s[i] + d[i] * uu for i in range(n)])
    pr = SV([s[i] + d[i] * t for i in range(n)])
    return L.Lemma('lemma_segment_nearest%d' % n, s.e + d.e + p.e + [uu, t, l2], hy, [(p - q).norm2().ge((p - pr).norm2()), t.ge(0), t.le(1)],
                   doc='the clamped foot parameter gives the point of the segment nearest to p')


def disk_lemma():
    d, D2, r = var('d'), var('dd'), var('r')
    return L.Lemma('lemma_dist_le', [d, D2, r], [d.ge(0), (d * d).eq(D2), r.ge(0)],
                   [X.implies(d.le(r), D2.le(r * r)), X.implies(D2.le(r * r), d.le(r))],
                   doc='for r >= 0: distance <= r iff squared distance <= r^2')


def tangent_lemma(n):
    c1, c2 = SV.params('a', n), SV.params('b', n)
    m, r1, r2 = var('m'), var('r1'), var('r2')
    v = c2 - c1
    vec = SV([(v[i] / m) * (r1 + r2 - m) for i in range(n)])
    moved = SV([c2[i] + vec[i] - c1[i] for i in range(n)])
    return L.Lemma('lemma_tangent%d' % n, c1.e + c2.e + [m, r1, r2], [(m * m).eq(v.norm2()), m.gt(0)],
                   [moved.norm2().eq((r1 + r2) * (r1 + r2))],
                   doc='moving the other shape by the collision vector puts the centres exactly r1 + r2 apart')


def add_ray(u):
    gh = 'impl<T: Real + Add<T, Output = T>> Ray<T>'
    # the constructor stores origin and direction as given (the intersection parameter is in units of the given direction)
    u.take(P, gh, 'new', C(ensures=['res.origin == origin', 'res.direction == direction']), mode='G')
    o, dr = SV.of(V3, 'self.origin'), SV.of(V3, 'self.direction')
    v0, v1, v2 = SV.of(V3, 'tri@[0]'), SV.of(V3, 'tri@[1]'), SV.of(V3, 'tri@[2]')
    e1, e2 = v1 - v0, v2 - v0
    h = dr.cross(e2)
    a = e1.dot(h)
    s = o - v0
    q = s.cross(e1)
    binds = [('a', a), ('f', ONE / var('a')), ('uu', var('f') * s.dot(h)), ('vv', var('f') * dr.dot(q)), ('dd', var('f') * e2.dot(q))]
    lets = ' '.join('let %s = %s;' % (n, X.verus(e)) for n, e in binds)
    par = '(a > -eps_r() && a < eps_r())'
    hit = '(!%s && uu >= 0real && uu <= 1real && vv >= 0real && uu + vv <= 1real)' % par
    u.take(P, gh, 'triangle_intersection', C(ensures=[
        '({ %s %s ==> (res.is_some() && res.unwrap().v@ == dd) })' % (lets, hit),
        '({ %s (!%s) ==> res.is_none() })' % (lets, hit)]))
    return binds


def ray_lemma():
    o, dr, v0, e1, e2 = [SV.params(x, 3) for x in ('o', 'r', 'w', 'e', 'g')]
    h = dr.cross(e2)
    a = e1.dot(h)
    s = o - v0
    q = s.cross(e1)
    f = ONE / a
    uu, vv, dd = f * s.dot(h), f * dr.dot(q), f * e2.dot(q)
    lhs = SV([o[i] + dr[i] * dd for i in range(3)])
    rhs = SV([v0[i] + e1[i] * uu + e2[i] * vv for i in range(3)])
    return L.Lemma('lemma_ray_cramer', o.e + dr.e + v0.e + e1.e + e2.e, [a.ne(0)], lhs.eqs(rhs),
                   doc='Moeller-Trumbore = Cramer: origin + d dir == v0 + u e1 + v e2')


def add_theorems(u, lem):
    for n in (2, 3):
        N = 'Disk' if n == 2 else 'Sphere'
        sh = VEC['Vec%d' % n]
        V = sh.name
        T = '%s<R, R>' % N
        l = N.lower()
        dc = d2(sh, 'a.center', 'p')
        body = ('    let c = a.contains_point(p);\n    let ghost dd = %s;\n    let ghost d = sqrt_r(dd);\n'
                '    proof { crate::lemma_sq_sum_nonneg%d(%s); axiom_sqrt(dd); crate::%s(d, dd, a.radius.v@); }\n'
                % (dc, n, ', '.join('a.center.%s.v@ - p.%s.v@' % (x, x) for x in sh.fields), lem['dist'].name))
        u.add(P, thm_fn('thm_%s_contains' % l, ['a: ' + T, 'p: %s<R>' % V], ['a.radius.v@ >= 0real'], body,
                        ['c == (dd <= a.radius.v@ * a.radius.v@)'], 'C16'))
        dcc = d2(sh, 'a.center', 'b.center')
        body = ('    let c = a.collides_with_%s(b);\n    let ghost dd = %s;\n    let ghost d = sqrt_r(dd);\n'
                '    proof { crate::lemma_sq_sum_nonneg%d(%s); axiom_sqrt(dd); crate::%s(d, dd, a.radius.v@ + b.radius.v@); }\n'
                % (l, dcc, n, ', '.join('a.center.%s.v@ - b.center.%s.v@' % (x, x) for x in sh.fields), lem['dist'].name))
        u.add(P, thm_fn('thm_%s_collides' % l, ['a: ' + T, 'b: ' + T], ['a.radius.v@ >= 0real', 'b.radius.v@ >= 0real'], body,
                        ['c == (dd <= (a.radius.v@ + b.radius.v@) * (a.radius.v@ + b.radius.v@))'], 'C16'))
        dv = d2(sh, 'b.center', 'a.center')
        body = ('    let v = a.collision_vector_with_%s(b);\n    let ghost dd = %s;\n    let ghost m = sqrt_r(dd);\n'
                '    proof { axiom_sqrt(dd); crate::lemma_pos_root(m, dd); crate::%s(%s, %s, m, a.radius.v@, b.radius.v@); }\n'
                % (l, dv, lem['tan%d' % n].name, ', '.join('a.center.%s.v@' % x for x in sh.fields), ', '.join('b.center.%s.v@' % x for x in sh.fields)))
        moved = ' + '.join('(b.center.%s.v@ + v.%s.v@ - a.center.%s.v@) * (b.center.%s.v@ + v.%s.v@ - a.center.%s.v@)' % ((x,) * 6) for x in sh.fields)
        u.add(P, thm_fn('thm_%s_tangent' % l, ['a: ' + T, 'b: ' + T], ['%s > 0real' % dv], body,
                        ['%s == (a.radius.v@ + b.radius.v@) * (a.radius.v@ + b.radius.v@)' % moved], 'C16'))
        # segment
        S = 'LineSegment%d<R>' % n
        s, e, p = SV.of(sh, 'g.start'), SV.of(sh, 'g.end'), SV.of(sh, 'p')
        d = e - s
        len2 = d2(sh, 'g.start', 'g.end')
        tnum = X.verus((p - s).dot(d))
        body = ('    let ghost len2 = %s;\n    let ghost tr = %s / len2;\n    let ghost t = min_r(max_r(tr, 0real), 1real);\n'
                '    proof { axiom_eps(); crate::%s(%s, %s, %s, w.v@, t, len2); }\n'
                '    let j = g.projected_point(p);\n    let dist = g.distance_to_point(p);\n'
                '    let ghost dj = %s;\n    proof { crate::lemma_sq_sum_nonneg%d(%s); axiom_sqrt(dj); }\n'
                % (len2, tnum, lem['seg%d' % n].name, ', '.join(X.verus(x) for x in s.e), ', '.join(X.verus(x) for x in d.e),
                   ', '.join(X.verus(x) for x in p.e), d2(sh, 'j', 'p'), n, ', '.join('j.%s.v@ - p.%s.v@' % (x, x) for x in sh.fields)))
        q = ' + '.join('(p.%s.v@ - (g.start.%s.v@ + (g.end.%s.v@ - g.start.%s.v@) * w.v@)) * (p.%s.v@ - (g.start.%s.v@ + (g.end.%s.v@ - g.start.%s.v@) * w.v@))'
                       % ((x,) * 8) for x in sh.fields)
        pj = ' + '.join('(p.%s.v@ - j.%s.v@) * (p.%s.v@ - j.%s.v@)' % ((x,) * 4) for x in sh.fields)
        asserts = ['j.%s.v@ == g.start.%s.v@ + (g.end.%s.v@ - g.start.%s.v@) * t' % ((x,) * 4) for x in sh.fields]
        asserts += ['0real <= t <= 1real', '%s >= %s' % (q, pj), 'dist.v@ >= 0real', 'dist.v@ * dist.v@ == dj']
        u.add(P, thm_fn('thm_segment_nearest%d' % n, ['g: ' + S, 'p: %s<R>' % V, 'w: R'],
                        ['!rel_eq_r(%s, 0real, eps_r(), eps_r())' % len2, '%s > 0real' % len2, '0real <= w.v@ <= 1real'], body, asserts, 'C16'))
    # ray / triangle
    o, dr = SV.of(V3, 'ray.origin'), SV.of(V3, 'ray.direction')
    v0, v1, v2 = SV.of(V3, 'tri@[0]'), SV.of(V3, 'tri@[1]'), SV.of(V3, 'tri@[2]')
    e1, e2 = v1 - v0, v2 - v0
    h = dr.cross(e2)
    a = e1.dot(h)
    s = o - v0
    q = s.cross(e1)
    lines = ['    let ghost a = %s;' % X.verus(a), '    let ghost f = 1real / a;', '    let ghost uu = f * %s;' % X.verus(s.dot(h)),
             '    let ghost vv = f * %s;' % X.verus(dr.dot(q)), '    let ghost dd = f * %s;' % X.verus(e2.dot(q)),
             '    proof { axiom_eps(); crate::%s(%s); }' % (lem['ray'].name, ', '.join(X.verus(x) for x in o.e + dr.e + v0.e + e1.e + e2.e)),
             '    let hit = ray.triangle_intersection(tri);']
    inside = '(uu >= 0real && uu <= 1real && vv >= 0real && uu + vv <= 1real)'
    asserts = ['hit.is_some() == %s' % inside,
               'hit.is_some() ==> hit.unwrap().v@ == dd']
    asserts += ['%s == %s' % (X.verus(o[i] + dr[i] * var('dd')), X.verus(v0[i] + e1[i] * var('uu') + e2[i] * var('vv'))) for i in range(3)]
    u.add(P, thm_fn('thm_ray_triangle', ['ray: Ray<R>', 'tri: [Vec3<R>; 3]'], ['!(%s > -eps_r() && %s < eps_r())' % (X.verus(a), X.verus(a))],
                    '\n'.join(lines) + '\n', asserts, 'C16'))


def sq_sum_lemma(n):
    x = [var('x%d' % i) for i in range(n)]
    return L.Lemma('lemma_sq_sum_nonneg%d' % n, x, [], [X.sum_([a * a for a in x]).ge(0)], doc='a sum of squares is non-negative')


def pos_root_lemma():
    m, m2 = var('m'), var('m2')
    return L.Lemma('lemma_pos_root', [m, m2], [m.ge(0), (m * m).eq(m2), m2.gt(0)], [m.gt(0)], doc='the square root of a positive number is positive')


def plan(exp, tier):
    p = driver.Plan('C16')
    lem = dict(dist=disk_lemma(), seg2=segment_lemma(2), seg3=segment_lemma(3), tan2=tangent_lemma(2), tan3=tangent_lemma(3),
               ray=ray_lemma(), sq2=sq_sum_lemma(2), sq3=sq_sum_lemma(3), pos=pos_root_lemma())
    shapes = [VEC['Vec2'], VEC['Vec3'], VEC['Vec4'], VEC['Extent2'], VEC['Extent3']]
    u = vec_unit(exp, 'c16', shapes)
    veccore.add_conversions(u, only=('Vec2', 'Vec3', 'Vec4', 'Extent2', 'Extent3'))
    import opscore
    opscore.add_traits(u, ('Clamp',))
    opscore.add_float_impls(u, ('Clamp',))
    for nm in ('Vec2', 'Vec3'):
        veccore.add_spatial_basic(u, VEC[nm])
        G.add_vec_minmax(u, VEC[nm])
    for n in (2, 3):
        B = G.Box(n)
        # the box / rectangle API of the bounding shapes (C13 contracts), so that a change which starts calling it is still decided
        G.add_box(u, B)
        G.add_rect(u, B)
        hdr = 'impl<P, E> From<(%s<P>, %s<E>)> for %s<P, E>' % (B.vec.name, B.ext.name, B.rect)
        u.take_impl(P, hdr, {'from': C(ensures=['res.%s == t.0.%s' % (x, x) for x in B.ax] + ['res.%s == t.1.%s' % (x, x) for x in B.ex])},
                    mode='G', tparams=())
        add_round(u, n)
        add_segment(u, n)
    add_ray(u)
    add_theorems(u, lem)
    for lm in lem.values():
        u.add_root(lm.verus_text('C16'))
    p.lemmas += list(lem.values())
    p.add_unit('c16', u, ['ops', 'vec', 'geom'])
    p.not_decided += ['LineSegment as_ (casts: C20)',
                      'the degenerate-segment branch (length approximately zero) is only contracted (returns start)',
                      'ray-triangle: "non-parallel" is the code\'s |a| >= epsilon test']
    return p
