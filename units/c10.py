"""C10 — viewport projection, unprojection and the picking matrix are consistent."""
import driver
import matcore
import shufcore
import affcore
import veccore
import expr as X
import lemma as L
from expr import const, var, app
from extract import Contract as C
from sym import SM, SV, leaf
from common import vec_unit
from shapes import VEC, MATS, mat
from matcore import thm_fn, lemma_args, eq_all, veq, inv_spec

V2, V3, V4 = VEC['Vec2'], VEC['Vec3'], VEC['Vec4']
ONE, ZERO, TWO = const(1), const(0), const(2)
HALF = ONE / TWO


def vp_leaves(t='viewport'):
    return [leaf('%s.%s.v@' % (t, f)) for f in 'xywh']


def project_spec(p, MV, P, vp, mode):
    """viewport image of the world point p (SV3): clip = P (MV (p,1)); ndc = clip / clip.w"""
    clip = P @ (MV @ p.ext(ONE))
    vx, vy, vw, vh = vp
    ndc = [clip[i] / clip[3] for i in range(3)]
    x = (ndc[0] / TWO + HALF) * vw + vx
    y = (ndc[1] / TWO + HALF) * vh + vy
    z = (ndc[2] / TWO + HALF) if mode == 'no' else ndc[2]
    return SV([x, y, z]), clip


def unproject_spec(s, MV, P, vp, mode):
    """world point whose viewport image is s (SV3): obj = (P MV)^-1 ndc(s); result = obj.xyz / obj.w"""
    vx, vy, vw, vh = vp
    PM = P @ MV
    N = inv_spec(PM)
    nx = ((s[0] - vx) / vw) * TWO - ONE
    ny = ((s[1] - vy) / vh) * TWO - ONE
    nz = (s[2] * TWO - ONE) if mode == 'no' else s[2]
    obj = N @ SV([nx, ny, nz, ONE])
    return SV([obj[i] / obj[3] for i in range(3)]), PM, obj


def add_viewport(u, ms):
    P = ms.path
    gh = 'impl<T>Mat4<T>'
    MV, PR = SM.of(ms, 'modelview'), SM.of(ms, 'proj')
    vp = vp_leaves()
    for mode in ('no', 'zo'):
        p = SV.of(V3, 'obj.into_spec()')
        img, clip = project_spec(p, MV, PR, vp, mode)
        u.take(P, gh, 'world_to_viewport_' + mode, C(
            requires=['V3::obeys_into_spec()'],
            ensures=['(%s != 0real) ==> %s' % (X.verus(clip[3]), e) for e in veq(V3, 'res', img)]))
        s = SV.of(V3, 'ray.into_spec()')
        u.take(P, gh, 'viewport_to_world_' + mode, C(
            requires=['V3::obeys_into_spec()'],
            ensures=unproject_ensures(s, MV, PR, vp, mode)))


def unproject_ensures(s, MV, PR, vp, mode):
    """the same definition as unproject_spec, printed with shared sub-terms bound by `let` (one block per coordinate)"""
    vx, vy, vw, vh = vp
    PM = PR @ MV
    binds = []
    PMv = SM.fn(4, lambda i, j: var('pm%d%d' % (i, j)))
    for i in range(4):
        for j in range(4):
            binds.append(('pm%d%d' % (i, j), PM[i, j]))
    binds.append(('det_pm', PMv.det()))
    A = PMv.adj()
    dv = var('det_pm')
    for i in range(4):
        for j in range(4):
            binds.append(('n%d%d' % (i, j), A[i, j] / dv))
    Nv = SM.fn(4, lambda i, j: var('n%d%d' % (i, j)))
    nx = ((s[0] - vx) / vw) * TWO - ONE
    ny = ((s[1] - vy) / vh) * TWO - ONE
    nz = (s[2] * TWO - ONE) if mode == 'no' else s[2]
    binds += [('ndc_x', nx), ('ndc_y', ny), ('ndc_z', nz)]
    ndc = SV([var('ndc_x'), var('ndc_y'), var('ndc_z'), ONE])
    obj = Nv @ ndc
    for i in range(4):
        binds.append(('obj_%d' % i, obj[i]))
    lets = ' '.join('let %s = %s;' % (n, X.verus(e)) for n, e in binds)
    out = []
    for i, f in enumerate('xyz'):
        out.append('({ %s (det_pm != 0real) ==> res.%s.v@ == obj_%d / obj_3 })' % (lets, f, i))
    return out


def picking_spec(c, d, vp):
    vx, vy, vw, vh = vp
    e = [[ZERO] * 4 for _ in range(4)]
    e[0][0] = vw / d[0]
    e[1][1] = vh / d[1]
    e[2][2] = ONE
    e[3][3] = ONE
    e[0][3] = (vw - TWO * (c[0] - vx)) / d[0]
    e[1][3] = (vh - TWO * (c[1] - vy)) / d[1]
    return SM(e)


def add_picking(u, ms):
    c, d = SV.of(V2, 'center.into_spec()'), SV.of(V2, 'delta.into_spec()')
    u.take(ms.path, 'impl<T>Mat4<T>', 'picking_region', C(
        requires=['V2::obeys_into_spec()', 'delta.into_spec().x.v@ > 0real', 'delta.into_spec().y.v@ > 0real'],
        ensures=eq_all(ms, 'res', picking_spec(c, d, vp_leaves()))))


def picking_lemma():
    cx, cy, dx, dy, vx, vy, vw, vh = [var(n) for n in ('cx', 'cy', 'dx', 'dy', 'vx', 'vy', 'vw', 'vh')]
    M = picking_spec(SV([cx, cy]), SV([dx, dy]), [vx, vy, vw, vh])
    goals = []
    for sx in (-1, 1):
        for sy in (-1, 1):
            wx = cx + const(sx) * dx / TWO
            wy = cy + const(sy) * dy / TWO
            ndc = SV([((wx - vx) / vw) * TWO - ONE, ((wy - vy) / vh) * TWO - ONE, ZERO, ONE])
            img = M @ ndc
            goals += [img[0].eq(const(sx)), img[1].eq(const(sy)), img[3].eq(1)]
    return L.Lemma('lemma_picking', [cx, cy, dx, dy, vx, vy, vw, vh], [dx.gt(0), dy.gt(0), vw.ne(0), vh.ne(0)], goals,
                   doc='the picking matrix maps the window rectangle centre +- delta/2 (in clip coordinates) onto [-1,1]^2')


def add_theorems(u, ms, lp):
    body = ('    let m = Mat4::picking_region(c, d, vp);\n    proof { crate::%s(c.x.v@, c.y.v@, d.x.v@, d.y.v@, vp.x.v@, vp.y.v@, vp.w.v@, vp.h.v@); }\n'
            % lp.name)
    Mu = SM.of(ms, 'm')
    cx, cy, dx, dy = leaf('c.x.v@'), leaf('c.y.v@'), leaf('d.x.v@'), leaf('d.y.v@')
    vx, vy, vw, vh = vp_leaves('vp')
    asserts = []
    for sx in (-1, 1):
        for sy in (-1, 1):
            wx = cx + const(sx) * dx / TWO
            wy = cy + const(sy) * dy / TWO
            ndc = SV([((wx - vx) / vw) * TWO - ONE, ((wy - vy) / vh) * TWO - ONE, ZERO, ONE])
            img = Mu @ ndc
            asserts += [X.verus(img[0].eq(const(sx))), X.verus(img[1].eq(const(sy))), X.verus(img[3].eq(1))]
    u.add(ms.path, thm_fn('thm_picking_%s' % ms.layout, ['c: Vec2<R>', 'd: Vec2<R>', 'vp: Rect<R, R>'],
                          ['d.x.v@ > 0real', 'd.y.v@ > 0real', 'vp.w.v@ != 0real', 'vp.h.v@ != 0real'], body, asserts, 'C10'))


def plan(exp, tier):
    p = driver.Plan('C10')
    lp = picking_lemma()
    lems = [lp, matcore.det4_shape_lemma()]
    for layout in ('rows', 'cols'):
        ms = mat(4, layout)
        u = vec_unit(exp, 'c10_' + layout, [V2, V3, V4], mats=MATS)
        veccore.add_conversions(u, only=('Vec2', 'Vec3', 'Vec4'))
        affcore.add_point_ctors(u)
        shufcore.add_shuffle_mask(u)
        shufcore.add_vec4_shuffles(u)
        shufcore.add_mat2_helpers(u)
        for m2 in (mat(4, 'rows'), mat(4, 'cols')):
            matcore.add_mat_struct(u, m2)
            matcore.add_mat_mul(u, m2)
        ls, pro = matcore.inverted4_lemmas(ms)
        for lm in ls:
            u.add_root(lm.verus_text('C10'))
        if layout == 'rows':
            pass
        lems_layout = ls
        matcore.add_inverted(u, ms, prologue='proof { crate::vec::lemma_sm_new_all(); } ' + pro)
        affcore.add_affine(u, ms)
        veccore.add_unit_ctors(u)
        matcore.add_affine_inverses(u, ms)
        add_viewport(u, ms)
        add_picking(u, ms)
        add_theorems(u, ms, lp)
        u.add_root(lp.verus_text('C10'))
        p.add_unit('c10_' + layout, u, ['vec', 'geom', 'mat'])
        p.lemmas += lems_layout
    p.lemmas += [lp]
    p.not_decided += ['round trip unproject(project(p)) == p as a single theorem: both functions are proved equal to their definitions '
                      '(projection: viewport o perspective-divide o proj*mv; unprojection: perspective-divide o (proj*mv)^-1 o un-viewport, '
                      'with (proj*mv)^-1 = adj/det proved two-sided under C06); the composition of the two definitions is not discharged as one obligation']
    return p
