"""C10 — viewport projection, unprojection and the picking matrix are consistent."""
import driver
import matcore
import shufcore
import affcore
import veccore
import expr as X
import lemma as L
from expr import const, var, app
from extract import Contract as C
from sym import SM, SV, leaf
from common import vec_unit
from shapes import VEC, MATS, mat
from matcore import thm_fn, lemma_args, eq_all, veq, inv_spec

V2, V3, V4 = VEC['Vec2'], VEC['Vec3'], VEC['Vec4']
ONE, ZERO, TWO = const(1), const(0), const(2)
HALF = ONE / TWO


def vp_leaves(t='viewport'):
    return [leaf('%s.%s.v@' % (t, f)) for f in 'xywh']


def project_spec(p, MV, P, vp, mode):
    """viewport image of the world point p (SV3): clip = P (MV (p,1)); ndc = clip / clip.w"""
    clip = P @ (MV @ p.ext(ONE))
    vx, vy, vw, vh = vp
    ndc = [clip[i] / clip[3] for i in range(3)]
    x = (ndc[0] / TWO + HALF) * vw + vx
    y = (ndc[1] / TWO + HALF) * vh + vy
    z = (ndc[2] / TWO + HALF) if mode == 'no' else ndc[2]
    return SV([x, y, z]), clip


def unproject_spec(s, MV, P, vp, mode):
    """world point whose viewport image is s (SV3): obj = (P MV)^-1 ndc(s); result = obj.xyz / obj.w"""
    vx, vy, vw, vh = vp
    PM = P @ MV
    N = inv_spec(PM)
    nx = ((s[0] - vx) / vw) * TWO - ONE
    ny = ((s[1] - vy) / vh) * TWO - ONE
    nz = (s[2] * TWO - ONE) if mode == 'no' else s[2]
    obj = N @ SV([nx, ny, nz, ONE])
    return SV([obj[i] / obj[3] for i in range(3)]), PM, obj


def add_viewport(u, ms):
    P = ms.path
    gh = 'impl<T>Mat4<T>'
    MV, PR = SM.of(ms, 'modelview'), SM.of(ms, 'proj')
    vp = vp_leaves()
    for mode in ('no', 'zo'):
        p = SV.of(V3, 'obj.into_spec()')
        img, clip = project_spec(p, MV, PR, vp, mode)
        u.take(P, gh, 'world_to_viewport_' + mode, C(
            requires=['V3::obeys_into_spec()'],
            ensures=['(%s != 0real) ==> %s' % (X.verus(clip[3]), e) for e in veq(V3, 'res', img)]))
        s = SV.of(V3, 'ray.into_spec()')
        u.take(P, gh, 'viewport_to_world_' + mode, C(
            requires=['V3::obeys_into_spec()'],
            ensures=unproject_ensures(s, MV, PR, vp, mode)))


def unproject_ensures(s, MV, PR, vp, mode):
    """the same definition as unproject_spec, printed with shared sub-terms bound by `let` (one block per coordinate)"""
    vx, vy, vw, vh = vp
    PM = PR @ MV
    binds = []
    PMv = SM.fn(4, lambda i, j: var('pm%d%d' % (i, j)))
    for i in range(4):
        for j in range(4):
            binds.append(('pm%d%d' % (i, j), PM[i, j]))
    binds.append(('det_pm', PMv.det()))
    A = PMv.adj()
    dv = var('det_pm')
    for i in range(4):
        for j in range(4):
            binds.append(('n%d%d' % (i, j), A[i, j] / dv))
    Nv = SM.fn(4, lambda i, j: var('n%d%d' % (i, j)))
    nx = ((s[0] - vx) / vw) * TWO - ONE
    ny = ((s[1] - vy) / vh) * TWO - ONE
    nz = (s[2] * TWO - ONE) if mode == 'no' else s[2]
    binds += [('ndc_x', nx), ('ndc_y', ny), ('ndc_z', nz)]
    ndc = SV([var('ndc_x'), var('ndc_y'), var('ndc_z'), ONE])
    obj = Nv @ ndc
    for i in range(4):
        binds.append(('obj_%d' % i, obj[i]))
    lets = ' '.join('let %s = %s;' % (n, X.verus(e)) for n, e in binds)
    out = []
    for i, f in enumerate('xyz'):
        out.append('({ %s (det_pm != 0real) ==> res.%s.v@ == obj_%d / obj_3 })' % (lets, f, i))
    return out


def roundtrip_lemmas():
    """staged lemmas for unproject(project(p)) == p"""
    out = {}
    A, B = SM.params('a', 4), SM.params('b', 4)
    v = SV.params('v', 4)
    out['assoc'] = L.Lemma('lemma_assoc4', A.flat() + B.flat() + v.e, [], ((A @ B) @ v).eqs(A @ (B @ v)), doc='(A*B)*v == A*(B*v)')
    M = SM.params('m', 4)
    out['inv_left'] = L.Lemma('lemma_inv4_left', M.flat(), [M.det().ne(0)], (inv_spec(M) @ M).eqs(SM.identity(4)),
                              doc='(adj M / det M) * M == I')
    N = SM.params('n', 4)
    c = SV.params('c', 4)
    scaled = SV([c[0] / c[3], c[1] / c[3], c[2] / c[3], ONE])
    out['scale'] = L.Lemma('lemma_homog_scale', N.flat() + c.e, [c[3].ne(0)],
                           [(N @ scaled)[k].eq((N @ c)[k] / c[3]) for k in range(4)],
                           doc='N * (c / c.w) == (N * c) / c.w')
    n, vx, vw = var('n'), var('vx'), var('vw')
    out['vp'] = L.Lemma('lemma_viewport_roundtrip', [n, vx, vw], [vw.ne(0)],
                        [(((((n / TWO + HALF) * vw + vx) - vx) / vw) * TWO - ONE).eq(n), ((n / TWO + HALF) * TWO - ONE).eq(n)],
                        doc='un-viewport o viewport == id on one NDC coordinate')
    q, w = var('q'), var('w')
    out['div'] = L.Lemma('lemma_homog_divide', [q, w], [w.ne(0)], [((q / w) / (ONE / w)).eq(q)], doc='(q/w)/(1/w) == q')
    return out


def add_roundtrip(u, ms, lem):
    MV, PR = SM.of(ms, 'mv'), SM.of(ms, 'proj')
    vx, vy, vw, vh = vp_leaves('vp')
    p = SV.of(V3, 'p')
    PM = PR @ MV
    # ghost names mirroring the lets of the viewport_to_world contract
    lines = []
    for i in range(4):
        for j in range(4):
            lines.append('    let ghost pm%d%d = %s;' % (i, j, X.verus(PM[i, j])))
    PMv = SM.fn(4, lambda i, j: var('pm%d%d' % (i, j)))
    lines.append('    let ghost det_pm = %s;' % X.verus(PMv.det()))
    Aj = PMv.adj()
    for i in range(4):
        for j in range(4):
            lines.append('    let ghost n%d%d = %s;' % (i, j, X.verus(Aj[i, j] / var('det_pm'))))
    Nv = SM.fn(4, lambda i, j: var('n%d%d' % (i, j)))
    p1 = p.ext(ONE)
    inner = MV @ p1
    clip = PR @ inner
    for k in range(4):
        lines.append('    let ghost c%d = %s;' % (k, X.verus(clip[k])))
    cv = SV([var('c%d' % k) for k in range(4)])
    pre_det = '({ %s det_pm != 0real })' % ' '.join(l.strip().replace('let ghost', 'let') for l in lines[:17])
    pre_w = '%s != 0real' % X.verus(clip[3])
    for mode in ('no', 'zo'):
        body = '\n'.join(lines) + '\n'
        body += ('    let img = Mat4::world_to_viewport_%s(p, mv, proj, vp);\n    let back = Mat4::viewport_to_world_%s(img, mv, proj, vp);\n'
                 % (mode, mode))
        pargs = ', '.join(X.verus(e) for e in p1.e)
        pm_args = ', '.join('pm%d%d' % (i, j) for i in range(4) for j in range(4))
        n_args = ', '.join('n%d%d' % (i, j) for i in range(4) for j in range(4))
        c_args = 'c0, c1, c2, c3'
        proof = ['    proof {',
                 '        crate::lemma_assoc4(%s, %s, %s);' % (lemma_args(PR), lemma_args(MV), pargs),        # (P*MV)*p1 == P*(MV*p1) = c
                 '        crate::lemma_inv4_left(%s);' % pm_args,                                               # N*PM == I
                 '        crate::lemma_assoc4(%s, %s, %s);' % (n_args, pm_args, pargs),                          # (N*PM)*p1 == N*(PM*p1)
                 '        crate::lemma_homog_scale(%s, %s);' % (n_args, c_args),
                 '        crate::lemma_viewport_roundtrip(c0 / c3, vp.x.v@, vp.w.v@);',
                 '        crate::lemma_viewport_roundtrip(c1 / c3, vp.y.v@, vp.h.v@);',
                 '        crate::lemma_viewport_roundtrip(c2 / c3, vp.x.v@, vp.w.v@);']
        proof += ['        crate::lemma_homog_divide(p.%s.v@, c3);' % f for f in 'xyz']
        # intermediate facts spelled out for the matcher
        NP = Nv @ (PMv @ p1)
        for k in range(4):
            proof.append('        assert(%s == %s);' % (X.verus((PMv @ p1)[k]), 'c%d' % k))
        for k in range(4):
            proof.append('        assert(%s == %s);' % (X.verus((Nv @ cv)[k]), X.verus(p1[k])))
        proof.append('    }')
        body = body.replace('    let img =', '\n'.join(proof) + '\n    let img =')
        asserts = ['back.%s.v@ == p.%s.v@' % (f, f) for f in 'xyz']
        u.add(ms.path, thm_fn('thm_roundtrip_%s_%s' % (mode, ms.layout), ['p: Vec3<R>', 'mv: Mat4<R>', 'proj: Mat4<R>', 'vp: Rect<R, R>'],
                              ['vp.w.v@ != 0real', 'vp.h.v@ != 0real', pre_w, pre_det], body, asserts, 'C10'))


def picking_spec(c, d, vp):
    vx, vy, vw, vh = vp
    e = [[ZERO] * 4 for _ in range(4)]
    e[0][0] = vw / d[0]
    e[1][1] = vh / d[1]
    e[2][2] = ONE
    e[3][3] = ONE
    e[0][3] = (vw - TWO * (c[0] - vx)) / d[0]
    e[1][3] = (vh - TWO * (c[1] - vy)) / d[1]
    return SM(e)


def add_picking(u, ms):
    c, d = SV.of(V2, 'center.into_spec()'), SV.of(V2, 'delta.into_spec()')
    u.take(ms.path, 'impl<T>Mat4<T>', 'picking_region', C(
        requires=['V2::obeys_into_spec()', 'delta.into_spec().x.v@ > 0real', 'delta.into_spec().y.v@ > 0real'],
        ensures=eq_all(ms, 'res', picking_spec(c, d, vp_leaves()))))


def picking_lemma():
    cx, cy, dx, dy, vx, vy, vw, vh = [var(n) for n in ('cx', 'cy', 'dx', 'dy', 'vx', 'vy', 'vw', 'vh')]
    M = picking_spec(SV([cx, cy]), SV([dx, dy]), [vx, vy, vw, vh])
    goals = []
    for sx in (-1, 1):
        for sy in (-1, 1):
            wx = cx + const(sx) * dx / TWO
            wy = cy + const(sy) * dy / TWO
            ndc = SV([((wx - vx) / vw) * TWO - ONE, ((wy - vy) / vh) * TWO - ONE, ZERO, ONE])
            img = M @ ndc
            goals += [img[0].eq(const(sx)), img[1].eq(const(sy)), img[3].eq(1)]
    return L.Lemma('lemma_picking', [cx, cy, dx, dy, vx, vy, vw, vh], [dx.gt(0), dy.gt(0), vw.ne(0), vh.ne(0)], goals,
                   doc='the picking matrix maps the window rectangle centre +- delta/2 (in clip coordinates) onto [-1,1]^2')


def add_theorems(u, ms, lp):
    body = ('    let m = Mat4::picking_region(c, d, vp);\n    proof { crate::%s(c.x.v@, c.y.v@, d.x.v@, d.y.v@, vp.x.v@, vp.y.v@, vp.w.v@, vp.h.v@); }\n'
            % lp.name)
    Mu = SM.of(ms, 'm')
    cx, cy, dx, dy = leaf('c.x.v@'), leaf('c.y.v@'), leaf('d.x.v@'), leaf('d.y.v@')
    vx, vy, vw, vh = vp_leaves('vp')
    asserts = []
    for sx in (-1, 1):
        for sy in (-1, 1):
            wx = cx + const(sx) * dx / TWO
            wy = cy + const(sy) * dy / TWO
            ndc = SV([((wx - vx) / vw) * TWO - ONE, ((wy - vy) / vh) * TWO - ONE, ZERO, ONE])
            img = Mu @ ndc
            asserts += [X.verus(img[0].eq(const(sx))), X.verus(img[1].eq(const(sy))), X.verus(img[3].eq(1))]
    u.add(ms.path, thm_fn('thm_picking_%s' % ms.layout, ['c: Vec2<R>', 'd: Vec2<R>', 'vp: Rect<R, R>'],
                          ['d.x.v@ > 0real', 'd.y.v@ > 0real', 'vp.w.v@ != 0real', 'vp.h.v@ != 0real'], body, asserts, 'C10'))


def plan(exp, tier):
    p = driver.Plan('C10')
    lp = picking_lemma()
    lems = [lp, matcore.det4_shape_lemma()]
    rl = roundtrip_lemmas()
    for layout in ('rows', 'cols'):
        ms = mat(4, layout)
        u = vec_unit(exp, 'c10_' + layout, [V2, V3, V4], mats=MATS)
        veccore.add_conversions(u, only=('Vec2', 'Vec3', 'Vec4'))
        affcore.add_point_ctors(u)
        shufcore.add_shuffle_mask(u)
        shufcore.add_vec4_shuffles(u)
        shufcore.add_mat2_helpers(u)
        for m2 in (mat(4, 'rows'), mat(4, 'cols')):
            matcore.add_mat_struct(u, m2)
            matcore.add_mat_mul(u, m2)
        ls, pro = matcore.inverted4_lemmas(ms)
        for lm in ls:
            u.add_root(lm.verus_text('C10'))
        if layout == 'rows':
            pass
        lems_layout = ls
        matcore.add_inverted(u, ms, prologue='proof { crate::vec::lemma_sm_new_all(); } ' + pro)
        affcore.add_affine(u, ms)
        veccore.add_unit_ctors(u)
        matcore.add_affine_inverses(u, ms)
        add_viewport(u, ms)
        add_picking(u, ms)
        add_theorems(u, ms, lp)
        add_roundtrip(u, ms, rl)
        for lm in rl.values():
            u.add_root(lm.verus_text('C10'))
        u.add_root(lp.verus_text('C10'))
        p.add_unit('c10_' + layout, u, ['vec', 'geom', 'mat'])
        p.lemmas += lems_layout
    p.lemmas += [lp] + list(rl.values())
    p.not_decided += ['world points whose clip w is 0 (the perspective divide is undefined there; excluded by precondition of the round-trip theorem)']
    return p
