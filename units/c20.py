"""C20 — num-traits / approx lifts are per element; casts agree with scalar casts (Kani on the real generic code,
monomorphic instantiations named per harness)."""
from kani_common import kani_plan


def plan(exp, tier):
    p = kani_plan('C20', 'c20', tier)
    p.not_decided += ['repr_simd types and the platform-intrinsics code paths (nightly only)',
                      'feature combinations other than the one the harness crate enables (the cfg-gated code is the same macro bodies)',
                      'element types other than those named in the harness domains (generic T is covered through instantiations)']
    return p
