"""C09 — view and change-of-basis matrices are rigid and place eye, target, axes right."""
import driver
import matcore
import veccore
import expr as X
import lemma as L
from expr import const, var, app
from extract import Contract as C
from sym import SM, SV, leaf
from common import vec_unit
from shapes import VEC, MATS, mat
from matcore import thm_fn, lemma_args, eq_all, veq

V3 = VEC['Vec3']
ONE, ZERO = const(1), const(0)


def frame(e, t, up, h, r1=None, r2=None):
    """textbook camera frame: f = (t-e)/|t-e|; lh: s = (up x f)/|..|, u = f x s; rh: s = (f x up)/|..|, u = s x f"""
    d = t - e
    n1 = d.norm2()
    m1 = r1 if r1 is not None else app('sqrt_r', n1)
    f = d.div(m1)
    c = up.cross(f) if h == 1 else f.cross(up)
    n2 = c.norm2()
    m2 = r2 if r2 is not None else app('sqrt_r', n2)
    s = c.div(m2)
    u = f.cross(s) if h == 1 else s.cross(f)
    return f, s, u, n1, n2


def view_spec(e, t, up, h, r1=None, r2=None):
    f, s, u, n1, n2 = frame(e, t, up, h, r1, r2)
    if h == 1:
        rows = [s.e + [-s.dot(e)], u.e + [-u.dot(e)], f.e + [-f.dot(e)]]
    else:
        rows = [s.e + [-s.dot(e)], u.e + [-u.dot(e)], [-x for x in f.e] + [f.dot(e)]]
    return SM(rows + [[ZERO, ZERO, ZERO, ONE]]), n1, n2


def model_spec(e, t, up, h, r1=None, r2=None):
    f, s, u, n1, n2 = frame(e, t, up, h, r1, r2)
    fz = f if h == 1 else -f
    return SM([[s[i], u[i], fz[i], e[i]] for i in range(3)] + [[ZERO, ZERO, ZERO, ONE]]), n1, n2


def vleaf(name):
    return SV.of(V3, name + '.into_spec()')


def add_lookat(u, ms):
    P = ms.path
    gh = 'impl<T>Mat4<T>'
    e, t, up = vleaf('eye'), vleaf('target'), vleaf('up')
    rq = ['V::obeys_into_spec()']
    for hn, h in (('lh', 1), ('rh', -1)):
        Vs, _, _ = view_spec(e, t, up, h)
        u.take(P, gh, 'look_at_' + hn, C(requires=rq, ensures=eq_all(ms, 'res', Vs)))
        Ms, _, _ = model_spec(e, t, up, h)
        u.take(P, gh, 'model_look_at_' + hn, C(requires=rq, ensures=eq_all(ms, 'res', Ms)))
    Vs, _, _ = view_spec(e, t, up, 1)
    u.take(P, gh, 'look_at', C(requires=rq, ensures=eq_all(ms, 'res', Vs)))
    Ms, _, _ = model_spec(e, t, up, 1)
    u.take(P, gh, 'model_look_at', C(requires=rq, ensures=eq_all(ms, 'res', Ms)))
    o, i, j, k = vleaf('origin'), vleaf('i'), vleaf('j'), vleaf('k')
    B = SM([i.e + [-i.dot(o)], j.e + [-j.dot(o)], k.e + [-k.dot(o)], [ZERO, ZERO, ZERO, ONE]])
    Lb = SM([[i[a], j[a], k[a], o[a]] for a in range(3)] + [[ZERO, ZERO, ZERO, ONE]])
    u.take(P, gh, 'basis_to_local', C(requires=rq, ensures=eq_all(ms, 'res', B)))
    u.take(P, gh, 'local_to_basis', C(requires=rq, ensures=eq_all(ms, 'res', Lb)))


def lookat_lemmas():
    e, t, up = SV.params('e', 3), SV.params('t', 3), SV.params('p', 3)
    r1, r2 = var('r1'), var('r2')
    ps = e.e + t.e + up.e + [r1, r2]
    out = {}
    for hn, h in (('lh', 1), ('rh', -1)):
        Vs, n1, n2 = view_spec(e, t, up, h, r1, r2)
        Ms, _, _ = model_spec(e, t, up, h, r1, r2)
        hy = [(r1 * r1).eq(n1), r1.gt(0), (r2 * r2).eq(n2), r2.gt(0)]
        R = Vs.block(3)
        I3, I4 = SM.identity(3), SM.identity(4)
        fw = const(h)
        img_e = Vs @ e.ext(ONE)
        img_t = Vs @ t.ext(ONE)
        img_up = Vs @ up.ext(ZERO)
        out['rigid_' + hn] = L.Lemma('lemma_lookat_rigid_' + hn, ps, hy, (R @ R.T()).eqs(I3) + [R.det().eq(1)],
                                     doc='look_at_%s: rotation block orthogonal, determinant +1' % hn)
        out['place_' + hn] = L.Lemma(
            'lemma_lookat_place_' + hn, ps, hy,
            img_e.eqs(SV([ZERO, ZERO, ZERO, ONE])) + img_t.eqs(SV([ZERO, ZERO, fw * r1, ONE])) +
            [img_up[0].eq(0), img_up[1].gt(0)],
            doc='look_at_%s: eye -> origin, target -> forward axis at the eye-target distance, up in the upper vertical half-plane' % hn)
        out['model_' + hn] = L.Lemma(
            'lemma_lookat_model_' + hn, ps, hy, (Vs @ Ms).eqs(I4) + (Ms @ Vs).eqs(I4) + (Ms @ SV([ZERO, ZERO, ZERO, ONE])).eqs(e.ext(ONE)),
            doc='model_look_at_%s is the two-sided inverse of look_at_%s and sends the origin to the eye' % (hn, hn))
    return out


def add_theorems(u, ms, lem):
    e, t, up = SV.of(V3, 'eye'), SV.of(V3, 'target'), SV.of(V3, 'up')
    for hn, h in (('lh', 1), ('rh', -1)):
        f, s, uu, n1, n2 = frame(e, t, up, h)
        r1t, r2t = X.verus(app('sqrt_r', n1)), X.verus(app('sqrt_r', n2))
        args = ', '.join([X.verus(x) for x in e.e + t.e + up.e] + ['r1', 'r2'])
        pre = ['%s > 0real' % X.verus(n1), '%s > 0real' % X.verus(n2)]
        setup = ('    let ghost n1 = %s;\n    let ghost r1 = %s;\n    let ghost n2 = %s;\n    let ghost r2 = %s;\n'
                 '    proof { axiom_sqrt(n1); axiom_sqrt(n2);\n'
                 '            assert(r1 > 0real) by { if r1 == 0real { assert(r1 * r1 == 0real); } }\n'
                 '            assert(r2 > 0real) by { if r2 == 0real { assert(r2 * r2 == 0real); } } }\n'
                 % (X.verus(n1), r1t, X.verus(n2), r2t))
        Vu, Mu = SM.of(ms, 'v'), SM.of(ms, 'm')
        R = Vu.block(3)
        body = setup + ('    let v = Mat4::look_at_%s(eye, target, up);\n    proof { crate::%s(%s); crate::%s(%s); }\n'
                        % (hn, lem['rigid_' + hn].name, args, lem['place_' + hn].name, args))
        asserts = [X.verus(g) for g in (R @ R.T()).eqs(SM.identity(3))] + [X.verus(R.det().eq(1))]
        asserts += ['%s.v@ == %dreal' % (ms.at('v', 3, j), 1 if j == 3 else 0) for j in range(4)]
        ie, it_, iu = Vu @ e.ext(ONE), Vu @ t.ext(ONE), Vu @ up.ext(ZERO)
        asserts += [X.verus(g) for g in ie.eqs(SV([ZERO, ZERO, ZERO, ONE]))]
        asserts += [X.verus(it_[0].eq(0)), X.verus(it_[1].eq(0)), '%s == %s * r1' % (X.verus(it_[2]), '1real' if h == 1 else '(-1real)')]
        asserts += [X.verus(iu[0].eq(0)), X.verus(iu[1].gt(0))]
        u.add(ms.path, thm_fn('thm_look_at_%s_%s' % (hn, ms.layout), ['eye: Vec3<R>', 'target: Vec3<R>', 'up: Vec3<R>'],
                              pre, body, asserts, 'C09'))
        body = setup + ('    let v = Mat4::look_at_%s(eye, target, up);\n    let m = Mat4::model_look_at_%s(eye, target, up);\n'
                        '    let p = v * m;\n    let q = m * v;\n    proof { crate::%s(%s); }\n'
                        % (hn, hn, lem['model_' + hn].name, args))
        asserts = eq_all(ms, 'p', SM.identity(4)) + eq_all(ms, 'q', SM.identity(4))
        asserts += ['%s.v@ == eye.%s.v@' % (ms.at('m', i, 3), 'xyz'[i]) for i in range(3)]
        u.add(ms.path, thm_fn('thm_model_look_at_%s_%s' % (hn, ms.layout), ['eye: Vec3<R>', 'target: Vec3<R>', 'up: Vec3<R>'],
                              pre, body, asserts, 'C09'))
    # change of basis
    o, i, j, k = SV.of(V3, 'o'), SV.of(V3, 'i'), SV.of(V3, 'j'), SV.of(V3, 'k')
    Lu = SM.of(ms, 'l')
    body = '    let l = Mat4::local_to_basis(o, i, j, k);\n'
    asserts = []
    for (pt, img) in ((SV([ZERO, ZERO, ZERO]), o), (SV([ONE, ZERO, ZERO]), o + i), (SV([ZERO, ONE, ZERO]), o + j),
                      (SV([ZERO, ZERO, ONE]), o + k)):
        asserts += [X.verus(g) for g in (Lu @ pt.ext(ONE)).eqs(img.ext(ONE))]
    u.add(ms.path, thm_fn('thm_local_to_basis_%s' % ms.layout, ['o: Vec3<R>', 'i: Vec3<R>', 'j: Vec3<R>', 'k: Vec3<R>'], [], body,
                          asserts, 'C09'))
    pre = [X.verus(i.dot(i).eq(1)), X.verus(j.dot(j).eq(1)), X.verus(k.dot(k).eq(1)), X.verus(i.dot(j).eq(0)),
           X.verus(i.dot(k).eq(0)), X.verus(j.dot(k).eq(0)),
           # the same three facts with the factors in the other order (helps the solver, adds nothing)
           X.verus(j.dot(i).eq(0)), X.verus(k.dot(i).eq(0)), X.verus(k.dot(j).eq(0))]
    body = ('    let l = Mat4::local_to_basis(o, i, j, k);\n    let b = Mat4::basis_to_local(o, i, j, k);\n    let p = b * l;\n')
    u.add(ms.path, thm_fn('thm_basis_roundtrip_%s' % ms.layout, ['o: Vec3<R>', 'i: Vec3<R>', 'j: Vec3<R>', 'k: Vec3<R>'], pre, body,
                          eq_all(ms, 'p', SM.identity(4)), 'C09'))


def plan(exp, tier):
    p = driver.Plan('C09')
    lem = lookat_lemmas()
    for layout in ('rows', 'cols'):
        ms = mat(4, layout)
        u = vec_unit(exp, 'c09_' + layout, [VEC['Vec2'], VEC['Vec3'], VEC['Vec4']], mats=MATS)
        for nm in ('Vec2', 'Vec3', 'Vec4'):
            veccore.add_spatial_basic(u, VEC[nm])
        veccore.add_unit_ctors(u)
        import affcore
        affcore.add_point_ctors(u)      # commonly used homogeneous constructors: keeps the unit deciding when a change starts calling them
        for m2 in (mat(4, 'rows'), mat(4, 'cols')):
            matcore.add_mat_struct(u, m2)
        for m2 in (mat(4, 'rows'), mat(4, 'cols')):
            matcore.add_mat_mul(u, m2)
        add_lookat(u, ms)
        add_theorems(u, ms, lem)
        for lm in lem.values():
            u.add_root(lm.verus_text('C09'))
        p.add_unit('c09_' + layout, u, ['vec', 'mat'])
    p.lemmas += list(lem.values())
    p.not_decided += ['degenerate inputs (eye == target, up parallel to the view direction) are excluded by the property']
    return p
