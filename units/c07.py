"""C07 — affine builders and Transform act on points as defined and chain in call order."""
import driver
import matcore
import rotcore
import affcore
import veccore
import expr as X
import lemma as L
from expr import const, var, app
from extract import Contract as C
from sym import SM, SV, leaf
from common import vec_unit
from shapes import VEC, MATS, mat
from matcore import thm_fn, lemma_args, eq_all, veq

V2, V3, V4 = VEC['Vec2'], VEC['Vec3'], VEC['Vec4']


def lemma_assoc(n):
    A, B = SM.params('a', n), SM.params('b', n)
    v = SV.params('v', n)
    return L.Lemma('lemma_assoc%d' % n, A.flat() + B.flat() + v.e, [], ((A @ B) @ v).eqs(A @ (B @ v)),
                   doc='(A*B)*v == A*(B*v)')


def vargs(sh, text):
    return ', '.join('%s.%s.v@' % (text, f) for f in sh.fields)


def add_theorems4(u, ms, la):
    N = ms.name
    # translation / scaling act by definition; point vs direction
    body = ('    let m = Mat4::translation_3d(v);\n    let q: Vec3<R> = m.mul_point(p);\n    let d: Vec3<R> = m.mul_direction(p);\n'
            '    let sc = Mat4::scaling_3d(v);\n    let sp: Vec3<R> = sc.mul_point(p);\n    let sd: Vec3<R> = sc.mul_direction(p);\n'
            '    let t2 = Mat4::translation_2d(w);\n    let q2: Vec3<R> = t2.mul_point(p);\n')
    asserts = ['q.%s.v@ == p.%s.v@ + v.%s.v@' % (f, f, f) for f in 'xyz'] + ['d.%s.v@ == p.%s.v@' % (f, f) for f in 'xyz']
    asserts += ['sp.%s.v@ == v.%s.v@ * p.%s.v@' % (f, f, f) for f in 'xyz'] + ['sd.%s.v@ == v.%s.v@ * p.%s.v@' % (f, f, f) for f in 'xyz']
    asserts += ['q2.x.v@ == p.x.v@ + w.x.v@', 'q2.y.v@ == p.y.v@ + w.y.v@', 'q2.z.v@ == p.z.v@']
    u.add(ms.path, thm_fn('thm_affine_defs_%s4' % ms.layout, ['v: Vec3<R>', 'w: Vec2<R>', 'p: Vec3<R>'], [], body, asserts, 'C07'))
    # a chain applies its steps in call order (any start matrix m, any homogeneous vector)
    c, s = app('cos_r', leaf('a.v@')), app('sin_r', leaf('a.v@'))
    Rz = rotcore.rot_axis_spec(4, 2, c, s)
    T = affcore.translation_spec(4, SV.of(V3, 'v'))
    S = affcore.scaling_spec(4, SV.of(V3, 'sv'))
    X1, X2 = SM.of(ms, 'x1'), SM.of(ms, 'x2')
    M = SM.of(ms, 'm')
    h = SV.of(V4, 'h')
    h0, h1, h2 = SV.of(V4, 'h0'), SV.of(V4, 'h1'), SV.of(V4, 'h2')

    def call(A, B, v):
        return 'crate::%s(%s, %s, %s);' % (la.name, lemma_args(A), lemma_args(B), ', '.join(X.verus(e) for e in v.e))
    body = ('    let x1 = m.translated_3d(v);\n    let x2 = x1.scaled_3d(sv);\n    let c = x2.rotated_z(a);\n    let r = c * h;\n'
            '    let h0 = m * h;\n    let h1 = Mat4::translation_3d(v) * h0;\n    let h2 = Mat4::scaling_3d(sv) * h1;\n'
            '    let h3 = Mat4::rotation_z(a) * h2;\n'
            '    proof { %s %s %s }\n' % (call(Rz, X2, h), call(S, X1, h), call(T, M, h)))
    asserts = ['r.%s.v@ == h3.%s.v@' % (f, f) for f in 'xyzw']
    u.add(ms.path, thm_fn('thm_chain_%s4' % ms.layout, ['m: Mat4<R>', 'v: Vec3<R>', 'sv: Vec3<R>', 'a: R', 'h: Vec4<R>'],
                          [], body, asserts, 'C07'))
    # Transform: p -> position + orientation * (scale . p)
    Rr = SM.of(ms, 'rot')
    lt = u._lemma_transform
    targs = ', '.join([X.verus(Rr[i, j]) for i in range(3) for j in range(3)]
                      + ['xf.scale.%s.v@' % f for f in 'xyz'] + ['xf.position.%s.v@' % f for f in 'xyz'] + ['p.%s.v@' % f for f in 'xyz'])
    body = ('    let m = Mat4::from(xf);\n    let r: Vec3<R> = m.mul_point(p);\n    let rot = Mat4::from(xf.orientation);\n'
            '    let sp = Vec3::new(xf.scale.x * p.x, xf.scale.y * p.y, xf.scale.z * p.z);\n'
            '    let rp: Vec3<R> = rot.mul_direction(sp);\n    let dflt: Transform<R, R, R> = Transform::default();\n'
            '    let md = Mat4::from(dflt);\n    proof { crate::%s(%s); }\n' % (lt.name, targs))
    asserts = ['r.%s.v@ == xf.position.%s.v@ + rp.%s.v@' % (f, f, f) for f in 'xyz']
    asserts += eq_all(ms, 'md', SM.identity(4))
    u.add(ms.path, thm_fn('thm_transform_%s4' % ms.layout, ['xf: Transform<R, R, R>', 'p: Vec3<R>'], [], body, asserts, 'C07'))


def add_theorems3(u, ms):
    body = ('    let m = Mat3::translation_2d(v);\n    let q: Vec2<R> = m.mul_point_2d(p);\n    let d: Vec2<R> = m.mul_direction_2d(p);\n'
            '    let sc = Mat3::scaling_3d(s3);\n    let sp = sc * Vec3::new(p.x, p.y, R::one());\n')
    asserts = ['q.%s.v@ == p.%s.v@ + v.%s.v@' % (f, f, f) for f in 'xy'] + ['d.%s.v@ == p.%s.v@' % (f, f) for f in 'xy']
    asserts += ['sp.x.v@ == s3.x.v@ * p.x.v@', 'sp.y.v@ == s3.y.v@ * p.y.v@', 'sp.z.v@ == s3.z.v@']
    u.add(ms.path, thm_fn('thm_affine_defs_%s3' % ms.layout, ['v: Vec2<R>', 's3: Vec3<R>', 'p: Vec2<R>'], [], body, asserts, 'C07'))


def add_theorems2(u, ms):
    body = ('    let sx = Mat2::shearing_x(k) * p;\n    let sy = Mat2::shearing_y(k) * p;\n    let sc = Mat2::scaling_2d(v) * p;\n')
    asserts = ['sx.x.v@ == p.x.v@ + k.v@ * p.y.v@', 'sx.y.v@ == p.y.v@', 'sy.x.v@ == p.x.v@', 'sy.y.v@ == p.y.v@ + k.v@ * p.x.v@',
               'sc.x.v@ == v.x.v@ * p.x.v@', 'sc.y.v@ == v.y.v@ * p.y.v@']
    u.add(ms.path, thm_fn('thm_affine_defs_%s2' % ms.layout, ['k: R', 'v: Vec2<R>', 'p: Vec2<R>'], [], body, asserts, 'C07'))


def transform_extras(u):
    P = 'transform::repr_c'
    u.take_impl(P, 'impl<P: Zero, O: Zero + One, S: One> Default for Transform<P, O, S>', {'default': C(ensures=[
        'res.position.x.v@ == 0real', 'res.position.y.v@ == 0real', 'res.position.z.v@ == 0real',
        'res.orientation.x.v@ == 0real', 'res.orientation.y.v@ == 0real', 'res.orientation.z.v@ == 0real',
        'res.orientation.w.v@ == 1real', 'res.scale.x.v@ == 1real', 'res.scale.y.v@ == 1real', 'res.scale.z.v@ == 1real'])},
        tparams=('P', 'O', 'S'))


def lemma_transform():
    Rm = SM.params('r', 3)
    s, t, q = SV.params('s', 3), SV.params('t', 3), SV.params('p', 3)
    lhs = [X.sum_([(Rm[i, j] * s[j]) * q[j] for j in range(3)]) + t[i] for i in range(3)]
    rhs = [t[i] + X.sum_([Rm[i, j] * (s[j] * q[j]) for j in range(3)]) for i in range(3)]
    return L.Lemma('lemma_transform_point', Rm.flat() + s.e + t.e + q.e, [], [a.eq(b) for a, b in zip(lhs, rhs)],
                   doc='(T*R*S)(p,1) == t + R*(s.p)')


def plan(exp, tier):
    p = driver.Plan('C07')
    la = lemma_assoc(4)
    lt = lemma_transform()
    shapes = [V2, V3, V4]
    u = vec_unit(exp, 'c07', shapes, mats=MATS)
    u._lemma_transform = lt
    veccore.add_conversions(u, only=('Vec2', 'Vec3', 'Vec4'))
    affcore.add_point_ctors(u)
    veccore.add_unit_ctors(u)
    rotcore.add_quat_core(u)
    transform_extras(u)
    for ms in MATS:
        matcore.add_mat_struct(u, ms)
        matcore.add_mat_mul(u, ms)
        matcore.add_mat_index(u, ms)
        affcore.add_affine(u, ms)
        if ms.n == 4:
            rotcore.add_mat_rotations(u, ms, axes_only=(2,))
            rotcore.add_mat_from_quat(u, ms)
            affcore.add_transform(u, ms)
            add_theorems4(u, ms, la)
        elif ms.n == 3:
            add_theorems3(u, ms)
        else:
            add_theorems2(u, ms)
    u.add_root(la.verus_text('C07'))
    u.add_root(lt.verus_text('C07'))
    p.lemmas += [la, lt]
    p.add_unit('c07', u, ['vec', 'quaternion', 'transform', 'mat'])
    p.not_decided += ['chains of arbitrary length: the per-step contract `X_ed(self, p) == X_ion(p) * self` holds for every step; '
                      'arbitrary chains follow by induction over the chain (meta-argument), a 3-step chain is proved as a theorem function',
                      'rotate_x/y/3d chaining steps are contracted under C04']
    # IndexMut<(usize,usize)> is an assumed contract of the Verus unit (unsafe slice views); the builders of this property write through it,
    # so its Kani proof on the real code (crate /verif/kani/c03) is part of this check too
    import kani_driver
    p.kani = [sp for sp in kani_driver.load_specs('c03') if 'index_mut' in sp['harness']]
    return p
