"""C02 — vector operators and reductions act element-wise on every vector type."""
import driver
from common import vec_unit
from shapes import VECS


def plan(exp, tier):
    p = driver.Plan('C02')
    groups = [[v for v in VECS if v.dim <= 4], [v for v in VECS if v.dim in (8, 16)],
              [v for v in VECS if v.dim == 32], [v for v in VECS if v.dim == 64]]
    for k, g in enumerate(groups):
        u = vec_unit(exp, 'c02_%d' % k, g)
        p.add_unit('c02_%d' % k, u, ['vec'])
    return p
