"""C02 — vector operators and reductions act element-wise on every vector type."""
import driver
import veccore
import kani_driver
import os
from common import vec_unit
from shapes import VECS


def extra(u, sh):
    n = veccore.add_all_operator_forms(u, sh)
    veccore.add_reductions_and_maps(u, sh)
    u.notes = getattr(u, 'notes', []) + ['%s: %d operator impls under contract' % (sh.name, n)]


def plan(exp, tier):
    p = driver.Plan('C02')
    groups = [[v for v in VECS if v.dim <= 3], [v for v in VECS if v.dim == 4], [v for v in VECS if v.dim in (8, 16)],
              [v for v in VECS if v.dim == 32], [v for v in VECS if v.dim == 64]]
    for k, g in enumerate(groups):
        u = vec_unit(exp, 'c02_%d' % k, g, ops=('Add', 'Sub', 'Mul', 'Div', 'Rem', 'Shl', 'Shr', 'BitAnd', 'BitOr', 'BitXor'), extra=extra)
        p.notes += getattr(u, 'notes', [])
        p.add_unit('c02_%d' % k, u, ['ops', 'vec'])
    if os.path.exists(os.path.join(kani_driver.KROOT, 'c02', 'harnesses.json')):
        specs = kani_driver.load_specs('c02')
        if specs:
            p.kani = specs
    p.not_decided += ['the 12 cmp*/partial_cmp* functions and Ord-based min/max/reduce_min/reduce_max (AsRef / Ord on the exact scalar are outside the Verus units): Kani harnesses in /verif/kani/c02 when present',
                      'from_slice / FromIterator (loop over an iterator) and From<[T;N]> (unsafe): Kani under C18',
                      'zip, Sum / Product impls, is_any_negative / are_all_positive: Kani (c02_sum_product_iter_vec3, c02_cmp_family_*); numeric reduce_and / reduce_or (one concrete impl per primitive type): Kani c02_bool_reductions_*',
                      'sqrt/ceil/floor/round lifts are proved per element against uninterpreted real functions (nothing is claimed about their rounding)']
    return p
