"""Plans for the properties whose deciding back end is Kani (harness crates under /verif/kani/<id>)."""
import os
import driver
import kani_driver


def kani_plan(prop, crate, tier):
    p = driver.Plan(prop)
    specs = kani_driver.load_specs(crate)
    p.kani = specs
    for s in specs:
        if s.get('bounded'):
            p.bounded.append('%s: %s' % (s['harness'], s['bounded']))
    p.assumptions += ['Kani/CBMC: bit-precise machine semantics of the monomorphic instantiations named in each harness domain; '
                      'termination is not proved; generic T is covered only through those instantiations']
    return p
