"""C11 — spatial vector functions satisfy their geometric definitions."""
import driver
import veccore
import opscore
import expr as X
import lemma as L
from expr import const, var, app
from extract import Contract as C
from sym import SM, SV, leaf
from common import vec_unit
from shapes import VEC, VECS
from matcore import thm_fn, veq

V2, V3, V4 = VEC['Vec2'], VEC['Vec3'], VEC['Vec4']
ONE, ZERO = const(1), const(0)


def vargs(sh, n):
    return ', '.join('%s.%s.v@' % (n, f) for f in sh.fields)


def lemmas():
    a, b, c = SV.params('a', 3), SV.params('b', 3), SV.params('c', 3)
    k = var('k')
    out = {}
    out['cross'] = L.Lemma('lemma_cross', a.e + b.e + c.e + [k], [],
                           a.cross(b + c).eqs(a.cross(b) + a.cross(c)) + a.scale(k).cross(b).eqs(a.cross(b).scale(k)) +
                           a.cross(b).eqs(-(b.cross(a))) + [a.cross(b).dot(a).eq(0), a.cross(b).dot(b).eq(0),
                                                            a.cross(b).norm2().eq(a.norm2() * b.norm2() - a.dot(b) * a.dot(b))],
                           doc='cross product: bilinear, anticommutative, orthogonal to both operands, Lagrange identity')
    for sh in (V2, V3, V4):
        n = sh.dim
        v, nn = SV.params('v', n), SV.params('n', n)
        m = var('m')
        hy = [(m * m).eq(v.norm2()), m.gt(0)]
        vh = v.div(m)
        out['norm%d' % n] = L.Lemma('lemma_normalized%d' % n, v.e + [m], hy,
                                    [vh.norm2().eq(1), vh.dot(v).eq(m)] + [(vh[i] * m).eq(v[i]) for i in range(n)],
                                    doc='normalized: unit length, parallel to and in the direction of v')
        d = v.dot(nn)
        r = SV([v[i] - nn[i] * (d + d) for i in range(n)])
        out['refl%d' % n] = L.Lemma('lemma_reflected%d' % n, v.e + nn.e, [nn.norm2().eq(1)],
                                    [r.dot(nn).eq(-d), r.norm2().eq(v.norm2())] + (r + nn.scale(const(2) * d)).eqs(v),
                                    doc='mirror law: the normal component flips, the length is kept')
        eta, sq = var('eta'), var('sq')
        nd = nn.dot(v)
        t = SV([v[i] * eta - nn[i] * (eta * nd + sq) for i in range(n)])
        # stage A (identities in all coordinates, no hypotheses): |t|^2 and t.n in terms of |v|^2, |n|^2, n.v
        vsq, nsq = v.norm2(), nn.norm2()
        c = eta * nd + sq
        out['refrA%d' % n] = L.Lemma('lemma_refracted_expand%d' % n, v.e + nn.e + [eta, sq], [],
                                     [t.norm2().eq((eta * eta) * vsq - (const(2) * eta) * c * nd + (c * c) * nsq),
                                      t.dot(nn).eq(eta * nd - c * nsq)],
                                     doc='expansion of |t|^2 and t.n for t = eta v - (eta n.v + s) n')
    # stage B (5 variables): with |v| = |n| = 1 and s^2 = k the expansions give 1 and -s
    vsq, nsq, ND, eta, sq = var('vv'), var('nn'), var('nd'), var('eta'), var('sq')
    c = eta * ND + sq
    kk = ONE - (eta * eta) * (ONE - ND * ND)
    out['refrB'] = L.Lemma('lemma_refracted_snell', [vsq, nsq, ND, eta, sq], [vsq.eq(1), nsq.eq(1), (sq * sq).eq(kk)],
                           [((eta * eta) * vsq - (const(2) * eta) * c * ND + (c * c) * nsq).eq(1), (eta * ND - c * nsq).eq(-sq)],
                           doc='Snell: unit length and normal component -sqrt(k)')
    return out


def add_theorems(u, lem):
    # cross product
    body = ('    let bc = Vec3::new(b.x + c.x, b.y + c.y, b.z + c.z);\n    let l = a.cross(bc);\n    let r1 = a.cross(b);\n    let r2 = a.cross(c);\n'
            '    let ka = Vec3::new(a.x * k, a.y * k, a.z * k);\n    let s1 = ka.cross(b);\n    let ba = b.cross(a);\n'
            '    let d1 = r1.dot(a);\n    let d2 = r1.dot(b);\n    let n = r1.magnitude_squared();\n'
            '    let na = a.magnitude_squared();\n    let nb = b.magnitude_squared();\n    let ab = a.dot(b);\n'
            '    proof { crate::%s(%s, %s, %s, k.v@); }\n' % (lem['cross'].name, vargs(V3, 'a'), vargs(V3, 'b'), vargs(V3, 'c')))
    asserts = ['l.%s.v@ == r1.%s.v@ + r2.%s.v@' % (f, f, f) for f in 'xyz'] + ['s1.%s.v@ == r1.%s.v@ * k.v@' % (f, f) for f in 'xyz']
    asserts += ['r1.%s.v@ == -ba.%s.v@' % (f, f) for f in 'xyz'] + ['d1.v@ == 0real', 'd2.v@ == 0real', 'n.v@ == na.v@ * nb.v@ - ab.v@ * ab.v@']
    u.add(V3.path, thm_fn('thm_cross', ['a: Vec3<R>', 'b: Vec3<R>', 'c: Vec3<R>', 'k: R'], [], body, asserts, 'C11'))
    for sh in (V2, V3, V4):
        n, N = sh.dim, sh.name
        v = SV.of(sh, 'v')
        n2 = X.verus(v.norm2())
        setup = ('    let ghost n2 = %s;\n    let ghost m = sqrt_r(n2);\n'
                 '    proof { axiom_sqrt(n2); assert(m > 0real) by { if m == 0real { assert(m * m == 0real); } } }\n' % n2)
        body = setup + ('    let h = v.normalized();\n    let mg = v.magnitude();\n    let m2 = v.magnitude_squared();\n    let d2 = v.distance_squared(w);\n'
                        '    let dd = v.distance(w);\n    let (h2, mg2) = v.normalized_and_get_magnitude();\n    let hn = h.magnitude_squared();\n'
                        '    let hv = h.dot(v);\n    let mut vv = v;\n    vv.normalize();\n    let mut v3 = v;\n    let mg3 = v3.normalize_and_get_magnitude();\n'
                        '    let ghost dn2 = %s;\n'
                        '    proof { crate::%s(%s, m); axiom_sqrt(dn2); }\n'
                        % (veccore.sub_dot(sh, 'v', 'w'), lem['norm%d' % n].name, vargs(sh, 'v')))
        asserts = ['mg.v@ >= 0real', 'mg.v@ * mg.v@ == m2.v@', 'dd.v@ * dd.v@ == d2.v@', 'dd.v@ >= 0real', 'hn.v@ == 1real', 'hv.v@ == mg.v@',
                   'mg2.v@ == mg.v@', 'mg3.v@ == mg.v@']
        asserts += ['h.%s.v@ * mg.v@ == v.%s.v@' % (f, f) for f in sh.fields]
        asserts += ['h2.%s.v@ == h.%s.v@ && vv.%s.v@ == h.%s.v@ && v3.%s.v@ == h.%s.v@' % (f, f, f, f, f, f) for f in sh.fields]
        u.add(sh.path, thm_fn('thm_normalize_%s' % N.lower(), ['v: %s<R>' % N, 'w: %s<R>' % N], ['%s > 0real' % n2], body, asserts, 'C11'))
        # try_normalized refuses exactly the approximately-zero vectors
        body = '    let t = v.try_normalized();\n    let z = v.is_approx_zero();\n'
        u.add(sh.path, thm_fn('thm_try_normalized_%s' % N.lower(), ['v: %s<R>' % N], [], body, ['t.is_none() == z'], 'C11'))
        # reflection / refraction
        nn = SV.of(sh, 'n')
        body = ('    let r = v.reflected(n);\n    let rn = r.dot(n);\n    let vn = v.dot(n);\n    let r2 = r.magnitude_squared();\n    let v2 = v.magnitude_squared();\n'
                '    proof { crate::%s(%s, %s); }\n' % (lem['refl%d' % n].name, vargs(sh, 'v'), vargs(sh, 'n')))
        u.add(sh.path, thm_fn('thm_reflected_%s' % N.lower(), ['v: %s<R>' % N, 'n: %s<R>' % N], ['%s == 1real' % X.verus(nn.norm2())],
                              body, ['rn.v@ == -vn.v@', 'r2.v@ == v2.v@'], 'C11'))
        eta = var('eta', verus='eta.v@')
        nd = nn.dot(v)
        kk = ONE - (eta * eta) * (ONE - nd * nd)
        ks = X.verus(kk)
        body = ('    let ghost kk = %s;\n    let ghost sq = sqrt_r(kk);\n'
                '    proof { if kk >= 0real { axiom_sqrt(kk); crate::%s(%s, %s, eta.v@, sq);\n'
                '            crate::%s(%s, %s, %s, eta.v@, sq); } }\n'
                '    let t = v.refracted(n, eta);\n    let t2 = t.magnitude_squared();\n    let tn = t.dot(n);\n'
                % (ks, lem['refrA%d' % n].name, vargs(sh, 'v'), vargs(sh, 'n'),
                   lem['refrB'].name, X.verus(v.norm2()), X.verus(nn.norm2()), X.verus(nd)))
        asserts = ['(kk < 0real) ==> (%s)' % ' && '.join('t.%s.v@ == 0real' % f for f in sh.fields),
                   '(kk >= 0real) ==> (t2.v@ == 1real && tn.v@ == -sq)']
        u.add(sh.path, thm_fn('thm_refracted_%s' % N.lower(), ['v: %s<R>' % N, 'n: %s<R>' % N, 'eta: R'],
                              ['%s == 1real' % X.verus(nn.norm2()), '%s == 1real' % X.verus(v.norm2())], body, asserts, 'C11'))
        # angle_between lies in [0, pi]
        body = ('    let ang = v.angle_between(w);\n'
                '    proof { let c = %s; let cl = if c < -1real { -1real } else if c > 1real { 1real } else { c }; axiom_acos(cl); }\n'
                % X.verus(X.sum_([(v[i] / app('sqrt_r', v.norm2())) * (SV.of(sh, 'w')[i] / app('sqrt_r', SV.of(sh, 'w').norm2())) for i in range(n)])))
        u.add(sh.path, thm_fn('thm_angle_between_%s' % N.lower(), ['v: %s<R>' % N, 'w: %s<R>' % N], [], body,
                              ['0real <= ang.v@ <= pi_r()'], 'C11'))
    # homogenization makes w = 1
    body = '    let h = v.homogenized();\n'
    u.add(V4.path, thm_fn('thm_homogenized', ['v: Vec4<R>'], ['v.w.v@ != 0real'], body, ['h.w.v@ == 1real'], 'C11'))


def plan(exp, tier):
    p = driver.Plan('C11')
    lem = lemmas()
    groups = [('c11_small', [V2, V3, V4] + [VEC['Extent2'], VEC['Extent3']]), ('c11_8_16', [VEC['Vec8'], VEC['Vec16']]),
              ('c11_32', [VEC['Vec32']]), ('c11_64', [VEC['Vec64']])]
    for nm, shapes in groups:
        u = vec_unit(exp, nm, shapes)
        opscore.add_traits(u, ('Clamp',))
        opscore.add_float_impls(u, ('Clamp',))
        for sh in shapes:
            veccore.add_spatial_full(u, sh)
        if nm == 'c11_small':
            add_theorems(u, lem)
            for lm in lem.values():
                u.add_root(lm.verus_text('C11'))
        p.add_unit(nm, u, ['ops', 'vec'])
    p.lemmas += list(lem.values())
    p.not_decided += ['Vec3 slerp (endpoints, linear interpolation of lengths): not yet under contract',
                      'floating-point rounding; behaviour inside the approx tolerance bands beyond what rel_eq_r states',
                      'face_forward at reference.incident == 0 exactly (the code returns self; the property does not say)']
    p.assumptions += ['approx::RelativeEq on the scalar is modelled by pre::rel_eq_r (a == b || |a-b| <= eps || |a-b| <= max(|a|,|b|) * max_relative) with default_epsilon = default_max_relative = eps_r()']
    return p
