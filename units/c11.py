"""C11 — spatial vector functions satisfy their geometric definitions."""
import driver
import veccore
import opscore
import expr as X
import lemma as L
from expr import const, var, app
from extract import Contract as C
from sym import SM, SV, leaf
from common import vec_unit
from shapes import VEC, VECS
from matcore import thm_fn, veq

V2, V3, V4 = VEC['Vec2'], VEC['Vec3'], VEC['Vec4']
ONE, ZERO = const(1), const(0)


def vargs(sh, n):
    return ', '.join('%s.%s.v@' % (n, f) for f in sh.fields)


def lemmas():
    a, b, c = SV.params('a', 3), SV.params('b', 3), SV.params('c', 3)
    k = var('k')
    out = {}
    out['cross'] = L.Lemma('lemma_cross', a.e + b.e + c.e + [k], [],
                           a.cross(b + c).eqs(a.cross(b) + a.cross(c)) + a.scale(k).cross(b).eqs(a.cross(b).scale(k)) +
                           a.cross(b).eqs(-(b.cross(a))) + [a.cross(b).dot(a).eq(0), a.cross(b).dot(b).eq(0),
                                                            a.cross(b).norm2().eq(a.norm2() * b.norm2() - a.dot(b) * a.dot(b))],
                           doc='cross product: bilinear, anticommutative, orthogonal to both operands, Lagrange identity')
    for sh in (V2, V3, V4):
        n = sh.dim
        v, nn = SV.params('v', n), SV.params('n', n)
        m = var('m')
        hy = [(m * m).eq(v.norm2()), m.gt(0)]
        vh = v.div(m)
        out['norm%d' % n] = L.Lemma('lemma_normalized%d' % n, v.e + [m], hy,
                                    [vh.norm2().eq(1), vh.dot(v).eq(m)] + [(vh[i] * m).eq(v[i]) for i in range(n)],
                                    doc='normalized: unit length, parallel to and in the direction of v')
        d = v.dot(nn)
        r = SV([v[i] - nn[i] * (d + d) for i in range(n)])
        out['refl%d' % n] = L.Lemma('lemma_reflected%d' % n, v.e + nn.e, [nn.norm2().eq(1)],
                                    [r.dot(nn).eq(-d), r.norm2().eq(v.norm2())] + (r + nn.scale(const(2) * d)).eqs(v),
                                    doc='mirror law: the normal component flips, the length is kept')
        eta, sq = var('eta'), var('sq')
        nd = nn.dot(v)
        t = SV([v[i] * eta - nn[i] * (eta * nd + sq) for i in range(n)])
        # stage A (identities in all coordinates, no hypotheses): |t|^2 and t.n in terms of |v|^2, |n|^2, n.v
        vsq, nsq = v.norm2(), nn.norm2()
        c = eta * nd + sq
        out['refrA%d' % n] = L.Lemma('lemma_refracted_expand%d' % n, v.e + nn.e + [eta, sq], [],
                                     [t.norm2().eq((eta * eta) * vsq - (const(2) * eta) * c * nd + (c * c) * nsq),
                                      t.dot(nn).eq(eta * nd - c * nsq)],
                                     doc='expansion of |t|^2 and t.n for t = eta v - (eta n.v + s) n')
    # stage B (5 variables): with |v| = |n| = 1 and s^2 = k the expansions give 1 and -s
    vsq, nsq, ND, eta, sq = var('vv'), var('nn'), var('nd'), var('eta'), var('sq')
    c = eta * ND + sq
    kk = ONE - (eta * eta) * (ONE - ND * ND)
    out['refrB'] = L.Lemma('lemma_refracted_snell', [vsq, nsq, ND, eta, sq], [vsq.eq(1), nsq.eq(1), (sq * sq).eq(kk)],
                           [((eta * eta) * vsq - (const(2) * eta) * c * ND + (c * c) * nsq).eq(1), (eta * ND - c * nsq).eq(-sq)],
                           doc='Snell: unit length and normal component -sqrt(k)')
    # Vec3 slerp: Cauchy-Schwarz on unit vectors, sin(angle) != 0 away from +-1, the length identity
    uu, vv = SV.params('u', 3), SV.params('v', 3)
    out['cs3'] = L.Lemma('lemma_unit_dot_bounds3', uu.e + vv.e, [uu.norm2().eq(1), vv.norm2().eq(1)],
                         [uu.dot(vv).le(1), uu.dot(vv).ge(-1)], doc='Cauchy-Schwarz for unit 3-vectors (via the Lagrange identity)')
    cc, ss = var('c'), var('s')
    out['sin_nz'] = L.Lemma('lemma_sin_nonzero', [cc, ss], [cc.gt(-1), cc.lt(1), (ss * ss + cc * cc).eq(1)], [ss.ne(0)],
                            doc='sin(acos c) != 0 strictly inside (-1, 1)')
    sA, sB, st, LL = var('sA'), var('sB'), var('st'), var('ll')
    r = SV([(uu[i] * (sA / st) + vv[i] * (sB / st)) * LL for i in range(3)])
    out['vslerp_len'] = L.Lemma('lemma_vslerp_length', uu.e + vv.e + [sA, sB, st, LL], [st.ne(0)],
                                [r.norm2().eq((((sA * sA) * uu.norm2() + (const(2) * sA * sB) * uu.dot(vv) + (sB * sB) * vv.norm2()) / (st * st)) * (LL * LL))],
                                doc='|(u sA/st + v sB/st) L|^2 = (sA^2|u|^2 + 2 sA sB u.v + sB^2|v|^2)/st^2 * L^2')
    xa, xb, ma_, mb_ = var('xa'), var('xb'), var('ma'), var('mb')
    out['vslerp_ends'] = L.Lemma('lemma_vslerp_ends', [xa, xb, ma_, mb_, st], [st.ne(0), ma_.ne(0), mb_.ne(0)],
                                 [(((xa / ma_) * (st / st) + (xb / mb_) * (ZERO / st)) * (ma_ + ZERO * (mb_ - ma_))).eq(xa),
                                  (((xa / ma_) * (ZERO / st) + (xb / mb_) * (st / st)) * (ma_ + ONE * (mb_ - ma_))).eq(xb)],
                                 doc='at factor 0 / 1 the weights are 1, 0 / 0, 1 and the length factor is |from| / |to|')
    cA, cB = var('cA'), var('cB')
    vP2, vQ2, vPQ = var('pp'), var('qq'), var('pq')
    out['vslerp_core'] = L.Lemma('lemma_vslerp_core', [vP2, vQ2, vPQ, sA, cA, sB, cB, st],
                                 [vP2.eq(1), vQ2.eq(1), vPQ.eq(cA * cB - sA * sB), st.eq(sA * cB + cA * sB), st.ne(0),
                                  (sA * sA + cA * cA).eq(1), (sB * sB + cB * cB).eq(1)],
                                 [(((sA * sA) * vP2 + (const(2) * sA * sB) * vPQ + (sB * sB) * vQ2) / (st * st)).eq(1)],
                                 doc='trigonometric core of slerp: the interpolated direction has unit length')
    return out


def slerp_lets():
    a, b = SV.of(V3, 'from'), SV.of(V3, 'to')
    ma, mb = var('ma', verus='ma'), var('mb', verus='mb')
    c = X.sum_([(a[i] / ma) * (b[i] / mb) for i in range(3)])
    return ('let ma = %s; let mb = %s; let c = %s; let cl = if c < -1real { -1real } else if c > 1real { 1real } else { c }; '
            'let al = acos_r(cl); let sa = sin_r(al); let t1 = sin_r((1real - factor.v@) * al) / sa; let t2 = sin_r(factor.v@ * al) / sa; '
            'let ll = ma + factor.v@ * (mb - ma);'
            % (X.verus(app('sqrt_r', a.norm2())), X.verus(app('sqrt_r', b.norm2())), X.verus(c)))


def add_vec3_slerp(u):
    """Vec3::slerp_unclamped (the GLM formula, stated literally), Vec3::slerp and the Slerp impl"""
    P = V3.path
    lets = slerp_lets()
    ens = ['({ %s res.%s.v@ == ((from.%s.v@ / ma) * t1 + (to.%s.v@ / mb) * t2) * ll })' % (lets, x, x, x) for x in 'xyz']
    u.take(P, 'impl<T>Vec3<T>', 'slerp_unclamped', C(ensures=ens))
    lit = 'Vec3 { %s }' % ', '.join('%s: rr(((from.%s.v@ / ma) * t1 + (to.%s.v@ / mb) * t2) * ll)' % (x, x, x) for x in 'xyz')
    hdr = 'impl<T> Slerp<T> for Vec3<T> where T: Add<T, Output = T> + Real + Clamp + Lerp<T, Output = T>'
    from xparse import norm
    u.impl_extra[(P, norm(hdr))] = ('open spec fn slerp_req(from: Self, to: Self, factor: R) -> bool { true }\n'
                                    'open spec fn slerp_spec(from: Self, to: Self, factor: R) -> Vec3<R> { %s %s }' % (lets, lit))
    u.take_impl(P, hdr, {'slerp_unclamped': C(ensures=ens)})
    clamp = 'let factor = rr(if factor.v@ < 0real { 0real } else if factor.v@ > 1real { 1real } else { factor.v@ });'
    ens2 = ['({ %s %s res.%s.v@ == ((from.%s.v@ / ma) * t1 + (to.%s.v@ / mb) * t2) * ll })' % (clamp, lets, x, x, x) for x in 'xyz']
    u.take(P, 'impl<T>Vec3<T>', 'slerp', C(ensures=ens2))


def add_slerp_theorem(u, lem):
    a, b = SV.of(V3, 'a'), SV.of(V3, 'b')
    ma, mb = var('ma', verus='ma'), var('mb', verus='mb')
    ua = ', '.join('a.%s.v@ / ma' % x for x in 'xyz')
    ub = ', '.join('b.%s.v@ / mb' % x for x in 'xyz')
    cexpr = X.verus(X.sum_([(a[i] / app('sqrt_r', a.norm2())) * (b[i] / app('sqrt_r', b.norm2())) for i in range(3)]))
    na, nb = X.verus(a.norm2()), X.verus(b.norm2())
    pre = ['%s > 0real' % na, '%s > 0real' % nb, '%s != 1real' % cexpr, '%s != -1real' % cexpr]
    lines = [
        '    let ghost ma = sqrt_r(%s);' % na,
        '    let ghost mb = sqrt_r(%s);' % nb,
        '    let ghost c = %s;' % X.verus(X.sum_([(a[i] / ma) * (b[i] / mb) for i in range(3)])),
        '    let ghost th = acos_r(c);',
        '    let ghost a1 = (1real - f.v@) * th;',
        '    let ghost a2 = f.v@ * th;',
        '    let ghost ll = ma + f.v@ * (mb - ma);',
        '    proof {',
        '        axiom_sqrt(%s); axiom_sqrt(%s);' % (na, nb),
        '        assert(ma > 0real) by { if ma == 0real { assert(ma * ma == 0real); } }',
        '        assert(mb > 0real) by { if mb == 0real { assert(mb * mb == 0real); } }',
        '        crate::lemma_normalized3(%s, ma); crate::lemma_normalized3(%s, mb);' % (vargs(V3, 'a'), vargs(V3, 'b')),
        '        crate::lemma_unit_dot_bounds3(%s, %s);' % (ua, ub),
        '        axiom_acos(c); assert(a1 + a2 == th);',
        '        axiom_sin_add(a1, a2); axiom_cos_add(a1, a2); axiom_sin_cos(a1); axiom_sin_cos(a2); axiom_sin_cos(th);',
        '        crate::lemma_sin_nonzero(c, sin_r(th));',
        '        crate::lemma_vslerp_length(%s, %s, sin_r(a1), sin_r(a2), sin_r(th), ll);' % (ua, ub),
        '        crate::lemma_vslerp_core(%s, %s, c, sin_r(a1), cos_r(a1), sin_r(a2), cos_r(a2), sin_r(th));' % (
            X.verus(SV([a[i] / ma for i in range(3)]).norm2()), X.verus(SV([b[i] / mb for i in range(3)]).norm2())),
        '        axiom_trig_zero();',
        '        assert((1real - 0real) * th == th); assert(0real * th == 0real); assert((1real - 1real) * th == 0real); assert(1real * th == th);',
    ] + ['        crate::lemma_vslerp_ends(a.%s.v@, b.%s.v@, ma, mb, sin_r(th));' % (x, x) for x in 'xyz'] + [
        '    }',
        '    let r = Vec3::slerp_unclamped(a, b, f);',
        '    let n = r.magnitude_squared();',
        '    let r0 = Vec3::slerp_unclamped(a, b, R::zero());',
        '    let r1 = Vec3::slerp_unclamped(a, b, R::one());',
        '    let rc = Vec3::slerp(a, b, f);',
        '    let rt = <Vec3<R> as Slerp<R>>::slerp_unclamped(a, b, f);',
    ]
    asserts = ['n.v@ == ll * ll'] + ['r0.%s.v@ == a.%s.v@' % (x, x) for x in 'xyz'] + ['r1.%s.v@ == b.%s.v@' % (x, x) for x in 'xyz']
    asserts += ['(0real <= f.v@ <= 1real) ==> (%s)' % ' && '.join('rc.%s.v@ == r.%s.v@' % (x, x) for x in 'xyz'),
                ' && '.join('rt.%s.v@ == r.%s.v@' % (x, x) for x in 'xyz')]
    u.add(V3.path, thm_fn('thm_vec3_slerp', ['a: Vec3<R>', 'b: Vec3<R>', 'f: R'], pre, '\n'.join(lines) + '\n', asserts, 'C11'))


def add_theorems(u, lem):
    # cross product
    body = ('    let bc = Vec3::new(b.x + c.x, b.y + c.y, b.z + c.z);\n    let l = a.cross(bc);\n    let r1 = a.cross(b);\n    let r2 = a.cross(c);\n'
            '    let ka = Vec3::new(a.x * k, a.y * k, a.z * k);\n    let s1 = ka.cross(b);\n    let ba = b.cross(a);\n'
            '    let d1 = r1.dot(a);\n    let d2 = r1.dot(b);\n    let n = r1.magnitude_squared();\n'
            '    let na = a.magnitude_squared();\n    let nb = b.magnitude_squared();\n    let ab = a.dot(b);\n'
            '    proof { crate::%s(%s, %s, %s, k.v@); }\n' % (lem['cross'].name, vargs(V3, 'a'), vargs(V3, 'b'), vargs(V3, 'c')))
    asserts = ['l.%s.v@ == r1.%s.v@ + r2.%s.v@' % (f, f, f) for f in 'xyz'] + ['s1.%s.v@ == r1.%s.v@ * k.v@' % (f, f) for f in 'xyz']
    asserts += ['r1.%s.v@ == -ba.%s.v@' % (f, f) for f in 'xyz'] + ['d1.v@ == 0real', 'd2.v@ == 0real', 'n.v@ == na.v@ * nb.v@ - ab.v@ * ab.v@']
    u.add(V3.path, thm_fn('thm_cross', ['a: Vec3<R>', 'b: Vec3<R>', 'c: Vec3<R>', 'k: R'], [], body, asserts, 'C11'))
    for sh in (V2, V3, V4):
        n, N = sh.dim, sh.name
        v = SV.of(sh, 'v')
        n2 = X.verus(v.norm2())
        setup = ('    let ghost n2 = %s;\n    let ghost m = sqrt_r(n2);\n'
                 '    proof { axiom_sqrt(n2); assert(m > 0real) by { if m == 0real { assert(m * m == 0real); } } }\n' % n2)
        body = setup + ('    let h = v.normalized();\n    let mg = v.magnitude();\n    let m2 = v.magnitude_squared();\n    let d2 = v.distance_squared(w);\n'
                        '    let dd = v.distance(w);\n    let (h2, mg2) = v.normalized_and_get_magnitude();\n    let hn = h.magnitude_squared();\n'
                        '    let hv = h.dot(v);\n    let mut vv = v;\n    vv.normalize();\n    let mut v3 = v;\n    let mg3 = v3.normalize_and_get_magnitude();\n'
                        '    let ghost dn2 = %s;\n'
                        '    proof { crate::%s(%s, m); axiom_sqrt(dn2); }\n'
                        % (veccore.sub_dot(sh, 'v', 'w'), lem['norm%d' % n].name, vargs(sh, 'v')))
        asserts = ['mg.v@ >= 0real', 'mg.v@ * mg.v@ == m2.v@', 'dd.v@ * dd.v@ == d2.v@', 'dd.v@ >= 0real', 'hn.v@ == 1real', 'hv.v@ == mg.v@',
                   'mg2.v@ == mg.v@', 'mg3.v@ == mg.v@']
        asserts += ['h.%s.v@ * mg.v@ == v.%s.v@' % (f, f) for f in sh.fields]
        asserts += ['h2.%s.v@ == h.%s.v@ && vv.%s.v@ == h.%s.v@ && v3.%s.v@ == h.%s.v@' % (f, f, f, f, f, f) for f in sh.fields]
        u.add(sh.path, thm_fn('thm_normalize_%s' % N.lower(), ['v: %s<R>' % N, 'w: %s<R>' % N], ['%s > 0real' % n2], body, asserts, 'C11'))
        # try_normalized refuses exactly the approximately-zero vectors
        body = '    let t = v.try_normalized();\n    let z = v.is_approx_zero();\n'
        u.add(sh.path, thm_fn('thm_try_normalized_%s' % N.lower(), ['v: %s<R>' % N], [], body, ['t.is_none() == z'], 'C11'))
        # reflection / refraction
        nn = SV.of(sh, 'n')
        body = ('    let r = v.reflected(n);\n    let rn = r.dot(n);\n    let vn = v.dot(n);\n    let r2 = r.magnitude_squared();\n    let v2 = v.magnitude_squared();\n'
                '    proof { crate::%s(%s, %s); }\n' % (lem['refl%d' % n].name, vargs(sh, 'v'), vargs(sh, 'n')))
        u.add(sh.path, thm_fn('thm_reflected_%s' % N.lower(), ['v: %s<R>' % N, 'n: %s<R>' % N], ['%s == 1real' % X.verus(nn.norm2())],
                              body, ['rn.v@ == -vn.v@', 'r2.v@ == v2.v@'], 'C11'))
        eta = var('eta', verus='eta.v@')
        nd = nn.dot(v)
        kk = ONE - (eta * eta) * (ONE - nd * nd)
        ks = X.verus(kk)
        body = ('    let ghost kk = %s;\n    let ghost sq = sqrt_r(kk);\n'
                '    proof { if kk >= 0real { axiom_sqrt(kk); crate::%s(%s, %s, eta.v@, sq);\n'
                '            crate::%s(%s, %s, %s, eta.v@, sq); } }\n'
                '    let t = v.refracted(n, eta);\n    let t2 = t.magnitude_squared();\n    let tn = t.dot(n);\n'
                % (ks, lem['refrA%d' % n].name, vargs(sh, 'v'), vargs(sh, 'n'),
                   lem['refrB'].name, X.verus(v.norm2()), X.verus(nn.norm2()), X.verus(nd)))
        asserts = ['(kk < 0real) ==> (%s)' % ' && '.join('t.%s.v@ == 0real' % f for f in sh.fields),
                   '(kk >= 0real) ==> (t2.v@ == 1real && tn.v@ == -sq)']
        u.add(sh.path, thm_fn('thm_refracted_%s' % N.lower(), ['v: %s<R>' % N, 'n: %s<R>' % N, 'eta: R'],
                              ['%s == 1real' % X.verus(nn.norm2()), '%s == 1real' % X.verus(v.norm2())], body, asserts, 'C11'))
        # angle_between lies in [0, pi]
        body = ('    let ang = v.angle_between(w);\n'
                '    proof { let c = %s; let cl = if c < -1real { -1real } else if c > 1real { 1real } else { c }; axiom_acos(cl); }\n'
                % X.verus(X.sum_([(v[i] / app('sqrt_r', v.norm2())) * (SV.of(sh, 'w')[i] / app('sqrt_r', SV.of(sh, 'w').norm2())) for i in range(n)])))
        u.add(sh.path, thm_fn('thm_angle_between_%s' % N.lower(), ['v: %s<R>' % N, 'w: %s<R>' % N], [], body,
                              ['0real <= ang.v@ <= pi_r()'], 'C11'))
    # homogenization makes w = 1
    body = '    let h = v.homogenized();\n'
    u.add(V4.path, thm_fn('thm_homogenized', ['v: Vec4<R>'], ['v.w.v@ != 0real'], body, ['h.w.v@ == 1real'], 'C11'))


def plan(exp, tier):
    p = driver.Plan('C11')
    lem = lemmas()
    groups = [('c11_small', [V2, V3, V4] + [VEC['Extent2'], VEC['Extent3']]), ('c11_8_16', [VEC['Vec8'], VEC['Vec16']]),
              ('c11_32', [VEC['Vec32']]), ('c11_64', [VEC['Vec64']])]
    for nm, shapes in groups:
        u = vec_unit(exp, nm, shapes)
        opscore.add_traits(u, ('Clamp',))
        opscore.add_float_impls(u, ('Clamp',))
        for sh in shapes:
            veccore.add_spatial_full(u, sh)
        if nm == 'c11_small':
            opscore.add_traits(u, ('Lerp', 'Slerp'))
            opscore.add_float_impls(u, ('Lerp',))
            add_vec3_slerp(u)
            add_slerp_theorem(u, lem)
            add_theorems(u, lem)
            for lm in lem.values():
                u.add_root(lm.verus_text('C11'))
        p.add_unit(nm, u, ['ops', 'vec'])
    p.lemmas += list(lem.values())
    p.not_decided += ['Vec3 slerp at exactly parallel / antiparallel operands (sin(angle) == 0: the code divides by zero there)',
                      'floating-point rounding; behaviour inside the approx tolerance bands beyond what rel_eq_r states',
                      'face_forward at reference.incident == 0 exactly (the code returns self; the property does not say)']
    p.assumptions += ['approx::RelativeEq on the scalar is modelled by pre::rel_eq_r (a == b || |a-b| <= eps || |a-b| <= max(|a|,|b|) * max_relative) with default_epsilon = default_max_relative = eps_r()']
    # integer element types: `v * (1 / w)` and `v / w` coincide in exact reals; Kani checks the integer definitions on /repo itself
    import kani_driver
    p.kani = kani_driver.load_specs('c11')
    for sp in p.kani:
        if sp.get('bounded'):
            p.bounded.append('%s: %s' % (sp['harness'], sp['bounded']))
    return p
