"""C15 — Bezier extrema, bounding boxes, closest-point search and length bound the curve."""
import re
import driver
import veccore
import opscore
import geomcore as G
import expr as X
import lemma as L
from expr import const, var, app, sum_
from extract import Contract as C
from sym import SV, leaf
from common import vec_unit
from shapes import VEC
from matcore import thm_fn, veq
import c14
from c14 import Curve, bern, hodo

ONE, ZERO = const(1), const(0)
AX = 'xyz'


def quad_axis_terms(cv, text, a):
    s, c, e = ['%s.%s.%s.v@' % (text, p, a) for p in cv.pts]
    return s, c, e


def xq(s, c, e, t):
    """coordinate of a quadratic curve at t (same Bernstein builder as C14)"""
    return bern(2, [SV([s]), SV([c]), SV([e])], t)[0]


def quad_param(cv, text, a, kind):
    """Verus text of the parameter min_a()/max_a() returns, by cases as the property describes it"""
    s, c, e = [leaf(x) for x in quad_axis_terms(cv, text, a)]
    div = s - (c + c) + e
    t = (s - c) / div
    dv, tv = X.verus(div), X.verus(t)
    none = 'abs_r(%s) <= eps_r()' % dv
    inr = '(0real <= %s && %s <= 1real)' % (tv, tv)
    xt = X.verus(xq(s, c, e, t))
    sv, ev = X.verus(s), X.verus(e)
    lt = '<' if kind == 'min' else '>'
    take = '(!(%s) && %s && %s %s %s && %s %s %s)' % (none, inr, xt, lt, sv, xt, lt, ev)
    return '(if %s { %s } else { if %s %s %s { 0real } else { 1real } })' % (take, tv, sv, lt, ev), none, inr, tv


def add_quadratic(u, cv):
    P, N = cv.path, cv.name
    gh = 'impl<T: Real> %s<T>' % N
    for k in range(cv.dim):
        a = AX[k]
        pmin, none, inr, tv = quad_param(cv, 'self', a, 'min')
        pmax = quad_param(cv, 'self', a, 'max')[0]
        u.take(P, gh, a + '_inflection', C(ensures=[
            '(%s) ==> res.is_none()' % none,
            '(!(%s) && %s) ==> (res.is_some() && res.unwrap().v@ == %s)' % (none, inr, tv),
            '(!(%s) && !%s) ==> res.is_none()' % (none, inr)]))
        u.take(P, gh, 'min_' + a, C(ensures=['res.v@ == ' + pmin]))
        u.take(P, gh, 'max_' + a, C(ensures=['res.v@ == ' + pmax]))
        u.take(P, gh, a + '_bounds', C(ensures=['res.0.v@ == ' + pmin, 'res.1.v@ == ' + pmax]))
    # bounding rectangle / box: in curve coordinates (the property): the curve evaluated at the extremal parameters
    bn = 'aabr' if cv.dim == 2 else 'aabb'
    ens = []
    for k in range(cv.dim):
        a = AX[k]
        s, c, e = [leaf(x) for x in quad_axis_terms(cv, 'self', a)]
        for side, kind in (('min', 'min'), ('max', 'max')):
            pe = quad_param(cv, 'self', a, kind)[0]
            ens.append('({ let tp = %s; res.%s.%s.v@ == %s })' % (pe, side, a, X.verus(xq(s, c, e, var('tp', verus='tp')))))
    u.take(P, gh, bn, C(ensures=ens))


def quad_lemma():
    s, c, e, uu, t, r = [var(x) for x in ('s', 'c', 'e', 'u', 't', 'r')]
    div = s - (c + c) + e
    x = lambda tt: xq(s, c, e, tt)
    out = []
    for nm, lt in (('min', 'lt'), ('max', 'gt')):
        cmp_ = lambda a, b: getattr(a, lt)(b)
        take = X.and_(div.ne(0), t.ge(0), t.le(1), cmp_(x(t), s), cmp_(x(t), e))
        rr = X.ite(take, t, X.ite(cmp_(s, e), ZERO, ONE))
        concl = [x(uu).ge(x(r)) if nm == 'min' else x(uu).le(x(r)), r.ge(0), r.le(1)]
        out.append(L.Lemma('lemma_quadratic_%s' % nm, [s, c, e, uu, t, r],
                           [X.implies(div.ne(0), (t * div).eq(s - c)), r.eq(rr), uu.ge(0), uu.le(1)], concl,
                           doc='the parameter chosen by %s_* is in [0,1] and no point of the quadratic curve on [0,1] lies beyond it' % nm))
    out.append(L.Lemma('lemma_quadratic_inflection', [s, c, e, t], [div.ne(0), (t * div).eq(s - c)],
                       [hodo(2, [SV([s]), SV([c]), SV([e])], t)[0].eq(0)], doc='the reported inflection is a zero of the derivative'))
    return out


def add_quad_theorems(u, cv, lq):
    N = cv.name
    for k in range(cv.dim):
        a = AX[k]
        s, c, e = quad_axis_terms(cv, 'b', a)
        div = '(%s - (%s + %s) + %s)' % (s, c, c, e)
        pre = ['%s == 0real || abs_r(%s) > eps_r()' % (div, div), '0real <= w.v@ <= 1real']
        body = ('    let ghost dv = %s;\n    let ghost t = (%s - %s) / dv;\n'
                '    proof { axiom_eps(); if dv != 0real { assert(t * dv == %s - %s) by (nonlinear_arith) requires dv != 0real, t == (%s - %s) / dv; } }\n'
                '    let mn = b.min_%s();\n    let mx = b.max_%s();\n    let infl = b.%s_inflection();\n'
                '    let pw = b.evaluate(w);\n    let pmn = b.evaluate(mn);\n    let pmx = b.evaluate(mx);\n'
                '    proof { crate::%s(%s, %s, %s, w.v@, t, mn.v@); crate::%s(%s, %s, %s, w.v@, t, mx.v@);\n'
                '            if dv != 0real { crate::%s(%s, %s, %s, t); } }\n'
                % (div, s, c, s, c, s, c, a, a, a, lq[0].name, s, c, e, lq[1].name, s, c, e, lq[2].name, s, c, e))
        dspec = X.verus(hodo(2, [SV([leaf(s)]), SV([leaf(c)]), SV([leaf(e)])], var('ti', verus='infl.unwrap().v@'))[0])
        asserts = ['0real <= mn.v@ <= 1real', '0real <= mx.v@ <= 1real', 'pw.%s.v@ >= pmn.%s.v@' % (a, a), 'pw.%s.v@ <= pmx.%s.v@' % (a, a),
                   'infl.is_some() ==> (0real <= infl.unwrap().v@ <= 1real && %s == 0real)' % dspec]
        u.add(cv.path, thm_fn('thm_extrema_%s_%s' % (a, cv.mod), ['b: %s<R>' % N, 'w: R'], pre, body, asserts, 'C15'))


def cubic_terms(cv, text, a):
    return [leaf('%s.%s.%s.v@' % (text, p, a)) for p in cv.pts]


def cubic_lets(cv, text, a):
    """derivative coefficients A t^2 + B t + C (power basis of the hodograph), discriminant and roots, as Verus lets"""
    s, c0, c1, e = cubic_terms(cv, text, a)
    A = const(3) * (e - const(3) * c1 + const(3) * c0 - s)
    B = const(6) * (c1 - const(2) * c0 + s)
    Cc = const(3) * (c0 - s)
    lets = ('let ca = %s; let cb = %s; let cc = %s; let disc = cb * cb - 4real * ca * cc; let sq = sqrt_r(disc); '
            'let r1 = (-cb - sq) / (ca + ca); let r2 = (-cb + sq) / (ca + ca); let rd = -cb / (ca + ca); let rl = -cc / cb;'
            % (X.verus(A), X.verus(B), X.verus(Cc)))
    return lets


IN01 = lambda t: '(0real < %s && %s < 1real)' % (t, t)


def cubic_infl_lets(cv, text, a):
    """has1/t1/has2/t2: the inflection parameters *_inflections reports, by cases (zeros of the derivative in (0,1))"""
    e = 'eps_r()'
    return cubic_lets(cv, text, a) + (
        ' let lin = abs_r(ca) <= %s; let cst = abs_r(cb) <= %s; let dbl = abs_r(disc) <= %s;'
        ' let has1 = (lin && cst && abs_r(cc) <= %s) || (lin && !cst && %s) || (!lin && !(disc < 0real) && ((dbl && %s) || (!dbl && (%s || %s))));'
        ' let t1 = if lin { if cst { 0real } else { rl } } else { if dbl { rd } else { if %s { r1 } else { r2 } } };'
        ' let has2 = !lin && !(disc < 0real) && !dbl && %s && %s; let t2 = r2;'
        % (e, e, e, e, IN01('rl'), IN01('rd'), IN01('r1'), IN01('r2'), IN01('r1'), IN01('r1'), IN01('r2')))


def cubic_param_lets(cv, text, a, kind):
    s, c0, c1, e = cubic_terms(cv, text, a)
    x = lambda tt: X.verus(bern(3, [SV([s]), SV([c0]), SV([c1]), SV([e])], var('tt', verus=tt))[0])
    lt = '<' if kind == 'min' else '>'
    sv, ev = X.verus(s), X.verus(e)
    return (' let p1 = %s; let p2 = %s;'
            ' let tp = if has1 && has2 && ((p1 %s %s && p1 %s %s) || (p2 %s %s && p2 %s %s)) { if p1 %s p2 { t1 } else { t2 } }'
            ' else { if has1 && !has2 && p1 %s %s && p1 %s %s { t1 } else { if %s %s %s { 0real } else { 1real } } };'
            % (x('t1'), x('t2'), lt, sv, lt, ev, lt, sv, lt, ev, lt, lt, sv, lt, ev, sv, lt, ev))


def add_cubic(u, cv):
    P, N = cv.path, cv.name
    gh = 'impl<T: Real> %s<T>' % N
    for k in range(cv.dim):
        a = AX[k]
        lets = cubic_infl_lets(cv, 'self', a)
        ens = ['({ %s res.is_some() == has1 })' % lets,
               '({ %s has1 ==> (res.unwrap().0.v@ == t1 && res.unwrap().1.is_some() == has2) })' % lets,
               '({ %s has2 ==> res.unwrap().1.unwrap().v@ == t2 })' % lets]
        u.take(P, gh, a + '_inflections', C(
            ensures=ens,
            closures=[('|t|', '|t: R| -> (r: bool) ensures r == (0real < t.v@ && t.v@ < 1real)', '')]))
        for kind in ('min', 'max'):
            u.take(P, gh, '%s_%s' % (kind, a), C(ensures=['({ %s %s res.v@ == tp })' % (lets, cubic_param_lets(cv, 'self', a, kind))]))
        u.take(P, gh, a + '_bounds', C(ensures=['({ %s %s res.0.v@ == tp })' % (lets, cubic_param_lets(cv, 'self', a, 'min')),
                                               '({ %s %s res.1.v@ == tp })' % (lets, cubic_param_lets(cv, 'self', a, 'max'))]))
    bn = 'aabr' if cv.dim == 2 else 'aabb'
    ens = []
    for k in range(cv.dim):
        a = AX[k]
        s, c0, c1, e = cubic_terms(cv, 'self', a)
        for side in ('min', 'max'):
            ens.append('({ %s %s res.%s.%s.v@ == %s })' % (cubic_infl_lets(cv, 'self', a), cubic_param_lets(cv, 'self', a, side), side, a,
                                                          X.verus(bern(3, [SV([s]), SV([c0]), SV([c1]), SV([e])], var('tp', verus='tp'))[0])))
    u.take(P, gh, bn, C(ensures=ens))


def cubic_root_lemma():
    ca, cb, cc, t, sq = var('ca'), var('cb'), var('cc'), var('t'), var('sq')
    D = lambda tt: ca * tt * tt + cb * tt + cc
    disc = cb * cb - const(4) * ca * cc
    l1 = L.Lemma('lemma_cubic_roots', [ca, cb, cc, sq], [ca.ne(0), disc.ge(0), (sq * sq).eq(disc)],
                 [D((-cb - sq) / (ca + ca)).eq(0), D((-cb + sq) / (ca + ca)).eq(0)], doc='both quadratic-formula roots are zeros of a t^2 + b t + c')
    l2 = L.Lemma('lemma_cubic_double_root', [ca, cb, cc], [ca.ne(0), disc.eq(0)], [D(-cb / (ca + ca)).eq(0)], doc='the double root')
    l3 = L.Lemma('lemma_cubic_linear_root', [cb, cc], [cb.ne(0)], [(cb * (-cc / cb) + cc).eq(0)], doc='root of the linear derivative')
    q = [var('q%d' % k) for k in range(4)]
    A = const(3) * (q[3] - const(3) * q[2] + const(3) * q[1] - q[0])
    B = const(6) * (q[2] - const(2) * q[1] + q[0])
    Cc = const(3) * (q[1] - q[0])
    l4 = L.Lemma('lemma_cubic_hodograph_power', q + [t], [], [hodo(3, [SV([x]) for x in q], t)[0].eq(A * t * t + B * t + Cc)],
                 doc='the derivative of the cubic in the power basis: a t^2 + b t + c')
    return [l1, l2, l3, l4]


def add_cubic_theorems(u, cv, lc):
    N = cv.name
    for k in range(cv.dim):
        a = AX[k]
        lets = cubic_lets(cv, 'b', a)
        ghost = lets.replace('let ', 'let ghost ')
        pm = '({ %s %s tp })' % (cubic_infl_lets(cv, 'b', a), cubic_param_lets(cv, 'b', a, 'min'))
        q = ', '.join('b.%s.%s.v@' % (p, a) for p in cv.pts)
        pre = ['({ %s (ca == 0real || abs_r(ca) > eps_r()) && (cb == 0real || abs_r(cb) > eps_r()) && (disc == 0real || abs_r(disc) > eps_r()) })' % lets]
        D = lambda tt: X.verus(hodo(3, [SV([x]) for x in cubic_terms(cv, 'b', a)], var('tt', verus=tt))[0])
        body = ('    %s\n'
                '    proof { axiom_eps();\n'
                '        if ca != 0real && disc >= 0real { axiom_sqrt(disc); crate::%s(ca, cb, cc, sq); }\n'
                '        if ca != 0real && disc == 0real { crate::%s(ca, cb, cc); }\n'
                '        if cb != 0real { crate::%s(cb, cc); }\n'
                '    }\n'
                '    let infl = b.%s_inflections();\n    let mn = b.min_%s();\n    let mx = b.max_%s();\n'
                '    proof { if infl.is_some() { crate::%s(%s, infl.unwrap().0.v@);\n'
                '            if infl.unwrap().1.is_some() { crate::%s(%s, infl.unwrap().1.unwrap().v@); } } }\n'
                % (ghost, lc[0].name, lc[1].name, lc[2].name, a, a, a, lc[3].name, q, lc[3].name, q))
        asserts = ['infl.is_some() ==> (0real <= infl.unwrap().0.v@ <= 1real && (ca != 0real || cb != 0real) ==> %s == 0real)' % D('infl.unwrap().0.v@'),
                   '(infl.is_some() && infl.unwrap().1.is_some()) ==> (0real < infl.unwrap().1.unwrap().v@ < 1real && %s == 0real)'
                   % D('infl.unwrap().1.unwrap().v@')]
        asserts += ['0real <= mn.v@ <= 1real', '0real <= mx.v@ <= 1real']
        u.add(cv.path, thm_fn('thm_inflections_%s_%s' % (a, cv.mod), ['b: %s<R>' % N], pre, body, asserts, 'C15'))


def cubic_extremality_lemmas():
    """no point of a cubic on [0,1] lies beyond the best of: both ends and the zeros of the derivative inside (0,1).
    Stated for G(t) = x(t) - x(0) = a t^3/3 + b t^2/2 + c t (a, b, c the derivative's power-basis coefficients): in this form z3 (nlsat)
    decides each case at once; `lemma_cubic_power` (an identity) ties G to the Bernstein form of the control points."""
    from fractions import Fraction
    out = []
    q = [var('q%d' % k) for k in range(4)]
    t = var('t')
    A = const(3) * (q[3] - const(3) * q[2] + const(3) * q[1] - q[0])
    B = const(6) * (q[2] - const(2) * q[1] + q[0])
    Cc = const(3) * (q[1] - q[0])
    Gq = lambda tt: A * const(Fraction(1, 3)) * tt * tt * tt + B * const(Fraction(1, 2)) * tt * tt + Cc * tt
    out.append(L.Lemma('lemma_cubic_power', q + [t], [], [(bern(3, [SV([x]) for x in q], t)[0] - q[0]).eq(Gq(t))],
                       doc='x(t) - x(0) in the power basis of the derivative coefficients'))
    a, b, c, uu, sq, r1, r2, rl = [var(n) for n in ('a', 'b', 'c', 'u', 'sq', 'r1', 'r2', 'rl')]
    G = lambda tt: a * const(Fraction(1, 3)) * tt * tt * tt + b * const(Fraction(1, 2)) * tt * tt + c * tt
    IN = lambda x: X.and_(x.gt(0), x.lt(1))
    dom = [uu.ge(0), uu.le(1)]
    for kind in ('min', 'max'):
        better = (lambda p_, q_: p_.ge(q_)) if kind == 'min' else (lambda p_, q_: p_.le(q_))
        ends = [better(G(uu), ZERO), better(G(uu), G(ONE))]
        out.append(L.Lemma('lemma_cubic_%s_two_roots' % kind, [a, b, c, uu, sq, r1, r2],
                           [a.ne(0), sq.ge(0), (sq * sq).eq(b * b - const(4) * a * c), (r1 * (a + a)).eq(-b - sq), (r2 * (a + a)).eq(-b + sq)] + dom,
                           [X.or_(*(ends + [X.and_(IN(r1), better(G(uu), G(r1))), X.and_(IN(r2), better(G(uu), G(r2)))]))],
                           doc='derivative with two real zeros: the %s over [0,1] is at an end or at a zero inside (0,1)' % kind))
        out.append(L.Lemma('lemma_cubic_%s_no_root' % kind, [a, b, c, uu], [a.ne(0), (b * b - const(4) * a * c).le(0)] + dom, [X.or_(*ends)],
                           doc='derivative of constant sign: the %s is at an end' % kind))
        out.append(L.Lemma('lemma_cubic_%s_linear' % kind, [a, b, c, uu, rl], [a.eq(0), b.ne(0), (rl * b).eq(-c)] + dom,
                           [X.or_(*(ends + [X.and_(IN(rl), better(G(uu), G(rl)))]))], doc='linear derivative'))
        out.append(L.Lemma('lemma_cubic_%s_const' % kind, [a, b, c, uu], [a.eq(0), b.eq(0)] + dom, [X.or_(*ends)], doc='constant derivative'))
    return out


def add_cubic_extrema_theorems(u, cv):
    """for every axis: no point of the cubic on [0,1] has a smaller (larger) coordinate than the curve at min_* (max_*); the bounding
    rectangle / box (in curve coordinates) therefore contains every point of the curve on [0,1] and touches it on each side"""
    N = cv.name
    bn = 'aabr' if cv.dim == 2 else 'aabb'
    for k in range(cv.dim):
        a = AX[k]
        lets = cubic_lets(cv, 'b', a)
        ghost = lets.replace('let ', 'let ghost ')
        q = ', '.join('b.%s.%s.v@' % (p, a) for p in cv.pts)
        pre = ['({ %s (ca == 0real || abs_r(ca) > eps_r()) && (cb == 0real || abs_r(cb) > eps_r()) && (disc == 0real || abs_r(disc) > eps_r())'
               ' && (cc == 0real || abs_r(cc) > eps_r()) })' % lets, '0real <= w.v@ <= 1real']
        body = ('    %s\n'
                '    proof { axiom_eps();\n'
                '        if ca != 0real && disc >= 0real { axiom_sqrt(disc); lemma_div_mul(-cb - sq, ca + ca); lemma_div_mul(-cb + sq, ca + ca); }\n'
                '        if ca != 0real { lemma_div_mul(-cb, ca + ca); }\n'
                '        if cb != 0real { lemma_div_mul(-cc, cb); }\n'
                '    }\n'
                '    let mn = b.min_%s();\n    let mx = b.max_%s();\n'
                '    let pw = b.evaluate(w);\n    let pmn = b.evaluate(mn);\n    let pmx = b.evaluate(mx);\n    let bx = b.BOXFN();\n'
                '    proof {\n'
                '        crate::lemma_cubic_power(%s, w.v@); crate::lemma_cubic_power(%s, 0real); crate::lemma_cubic_power(%s, 1real);\n'
                '        crate::lemma_cubic_power(%s, r1); crate::lemma_cubic_power(%s, r2); crate::lemma_cubic_power(%s, rl); crate::lemma_cubic_power(%s, rd);\n'
                '        if ca != 0real && disc >= 0real { crate::lemma_cubic_min_two_roots(ca, cb, cc, w.v@, sq, r1, r2); crate::lemma_cubic_max_two_roots(ca, cb, cc, w.v@, sq, r1, r2); }\n'
                '        if ca != 0real && disc <= 0real { crate::lemma_cubic_min_no_root(ca, cb, cc, w.v@); crate::lemma_cubic_max_no_root(ca, cb, cc, w.v@); }\n'
                '        if ca == 0real && cb != 0real { crate::lemma_cubic_min_linear(ca, cb, cc, w.v@, rl); crate::lemma_cubic_max_linear(ca, cb, cc, w.v@, rl); }\n'
                '        if ca == 0real && cb == 0real { crate::lemma_cubic_min_const(ca, cb, cc, w.v@); crate::lemma_cubic_max_const(ca, cb, cc, w.v@); }\n'
                '    }\n'
                % (ghost, a, a, q, q, q, q, q, q, q)).replace('BOXFN', bn)
        asserts = ['0real <= mn.v@ <= 1real', '0real <= mx.v@ <= 1real', 'pw.%s.v@ >= pmn.%s.v@' % (a, a), 'pw.%s.v@ <= pmx.%s.v@' % (a, a),
                   'bx.min.%s.v@ == pmn.%s.v@ && bx.max.%s.v@ == pmx.%s.v@' % (a, a, a, a),
                   'bx.min.%s.v@ <= pw.%s.v@ && pw.%s.v@ <= bx.max.%s.v@' % (a, a, a, a)]
        u.add(cv.path, thm_fn('thm_cubic_extrema_%s_%s' % (a, cv.mod), ['b: %s<R>' % N, 'w: R'], pre, body, asserts, 'C15'))


def add_quad_box_theorem(u, cv, lq):
    """the bounding rectangle / box (in curve coordinates) contains every point of the curve on [0,1] and touches it on each side"""
    N = cv.name
    bn = 'aabr' if cv.dim == 2 else 'aabb'
    pre = ['0real <= w.v@ <= 1real']
    lines = ['    proof { axiom_eps(); }']
    for k in range(cv.dim):
        a = AX[k]
        s, c, e = quad_axis_terms(cv, 'b', a)
        div = '(%s - (%s + %s) + %s)' % (s, c, c, e)
        pre.append('%s == 0real || abs_r(%s) > eps_r()' % (div, div))
        lines += ['    let ghost dv_%s = %s;' % (a, div), '    let ghost t_%s = (%s - %s) / dv_%s;' % (a, s, c, a),
                  '    proof { if dv_%s != 0real { assert(t_%s * dv_%s == %s - %s) by (nonlinear_arith) requires dv_%s != 0real, t_%s == (%s - %s) / dv_%s; } }'
                  % (a, a, a, s, c, a, a, s, c, a),
                  '    let mn_%s = b.min_%s();' % (a, a), '    let mx_%s = b.max_%s();' % (a, a),
                  '    proof { crate::%s(%s, %s, %s, w.v@, t_%s, mn_%s.v@); crate::%s(%s, %s, %s, w.v@, t_%s, mx_%s.v@); }'
                  % (lq[0].name, s, c, e, a, a, lq[1].name, s, c, e, a, a),
                  '    let pmn_%s = b.evaluate(mn_%s);' % (a, a), '    let pmx_%s = b.evaluate(mx_%s);' % (a, a)]
    lines += ['    let bx = b.%s();' % bn, '    let pw = b.evaluate(w);']
    asserts = []
    for k in range(cv.dim):
        a = AX[k]
        asserts += ['bx.min.%s.v@ <= pw.%s.v@ && pw.%s.v@ <= bx.max.%s.v@' % (a, a, a, a),
                    'bx.min.%s.v@ == pmn_%s.%s.v@ && bx.max.%s.v@ == pmx_%s.%s.v@' % (a, a, a, a, a, a)]
    u.add(cv.path, thm_fn('thm_bounding_box_%s' % cv.mod, ['b: %s<R>' % N, 'w: R'], pre, '\n'.join(lines) + '\n', asserts, 'C15'))


def triangle_lemmas():
    out = []
    for n in (2, 3):
        a, b = SV.params('a', n), SV.params('b', n)
        ma, mb, mc = var('ma'), var('mb'), var('mc')
        out.append(L.Lemma('lemma_triangle%d' % n, a.e + b.e + [ma, mb, mc],
                           [ma.ge(0), mb.ge(0), mc.ge(0), (ma * ma).eq(a.norm2()), (mb * mb).eq(b.norm2()), (mc * mc).eq((a + b).norm2())],
                           [mc.le(ma + mb)], doc='triangle inequality for the Euclidean norm (radicals as free symbols)'))
    return out


def bern_end_lemma(deg):
    ps = [var('p%d' % i) for i in range(deg + 1)]
    t = var('t')
    return L.Lemma('lemma_bern%d_at_one' % deg, ps + [t], [t.eq(1)], [bern(deg, [SV([q]) for q in ps], t)[0].eq(ps[-1])],
                   doc='a Bezier curve passes through its last control point at t = 1')


def wpoly(deg):
    """W_i(t) = integral_0^t n b_{i,n-1}: B(t) - P0 = sum_i W_i(t) (P_{i+1} - P_i); increasing on [0,1], W_i(0) = 0, W_i(1) = 1"""
    if deg == 2:
        return [lambda t: const(2) * t - t * t, lambda t: t * t]
    return [lambda t: const(3) * t - const(3) * t * t + t * t * t, lambda t: const(3) * t * t - const(2) * t * t * t, lambda t: t * t * t]


def length_lemmas():
    """arithmetic behind `length_by_discretization <= control polygon`"""
    out = []
    tp, t = var('tp'), var('t')
    for deg in (2, 3):
        W = wpoly(deg)
        q = [var('q%d' % k) for k in range(deg + 1)]
        incr = sum_([(W[i](t) - W[i](tp)) * (q[i + 1] - q[i]) for i in range(deg)])
        out.append(L.Lemma('lemma_bern%d_increment' % deg, q + [tp, t], [],
                           [(bern(deg, [SV([x]) for x in q], t)[0] - bern(deg, [SV([x]) for x in q], tp)[0]).eq(incr)],
                           doc='B(t) - B(tp) = sum_i (W_i(t) - W_i(tp)) (P_{i+1} - P_i)'))
        out.append(L.Lemma('lemma_w%d_monotone' % deg, [tp, t], [tp.ge(0), tp.le(t), t.le(1)],
                           [(W[i](t) - W[i](tp)).ge(0) for i in range(deg)], doc='the weights W_i are non-decreasing on [0,1]'))
        m = [var('m%d' % i) for i in range(deg)]
        out.append(L.Lemma('lemma_bound%d_step' % deg, [tp, t] + m, [],
                           [(sum_([W[i](tp) * m[i] for i in range(deg)]) + sum_([(W[i](t) - W[i](tp)) * m[i] for i in range(deg)]))
                            .eq(sum_([W[i](t) * m[i] for i in range(deg)]))], doc='telescoping of the bound'))
        out.append(L.Lemma('lemma_bound%d_ends' % deg, [t] + m, [t.eq(1)], [sum_([W[i](t) * m[i] for i in range(deg)]).eq(sum_(m))],
                           doc='at t = 1 the bound is the control-polygon length'))
    n1, k = var('n1'), var('k')
    out.append(L.Lemma('lemma_param_order', [n1, k, tp, t], [n1.gt(0), (tp * n1).eq(k), (t * n1).eq(k + 1), k.ge(0), (k + 1).le(n1)],
                       [tp.ge(0), tp.le(t), t.le(1)], doc='consecutive sample parameters k/n1 <= (k+1)/n1 lie in [0,1]'))
    for n in (2, 3):
        uu, vv, dd = SV.params('u', n), SV.params('v', n), SV.params('d', n)
        a, b, mu, mv, md = var('a'), var('b'), var('mu'), var('mv'), var('md')
        out.append(L.Lemma('lemma_combo%d' % n, uu.e + vv.e + dd.e + [a, b, mu, mv, md],
                           [a.ge(0), b.ge(0), mu.ge(0), mv.ge(0), md.ge(0), (mu * mu).eq(uu.norm2()), (mv * mv).eq(vv.norm2()),
                            (md * md).eq(dd.norm2())] + [dd[c].eq(a * uu[c] + b * vv[c]) for c in range(n)],
                           [md.le(a * mu + b * mv)], doc='|a u + b v| <= a |u| + b |v| for a, b >= 0 (radicals as free symbols)'))
    return out


def doubling_text(cv):
    """spec functions for the discretised length and the refinement lemma: doubling the number of segments does not shorten the polyline"""
    N, M = cv.name, cv.mod
    sh = cv.sh
    pts = [SV.of(sh, 'c.%s' % p) for p in cv.pts]
    tt = leaf('t')
    b = bern(cv.deg, pts, tt)
    o = []
    for i, f in enumerate(sh.fields):
        o.append('pub open spec fn bz_%s_%s(c: %s<R>, t: real) -> real { %s }' % (M, f, N, X.verus(b[i])))
    diff = lambda t1, t0: ['(bz_%s_%s(c, %s) - bz_%s_%s(c, %s))' % (M, f, t1, M, f, t0) for f in sh.fields]

    def n2a(d):
        # in the association the vector code produces: ((dx*dx) + (dy*dy)) + (dz*dz)
        e = '(%s * %s)' % (d[0], d[0])
        for x in d[1:]:
            e = '(%s + (%s * %s))' % (e, x, x)
        return e
    o.append('pub open spec fn seg_%s(c: %s<R>, n1: real, j: real) -> real { sqrt_r(%s) }' % (M, N, n2a(diff('((j + 1real) / n1)', '(j / n1)'))))
    o.append('pub open spec fn plen_%s(c: %s<R>, n1: real, k: nat) -> real decreases k {\n'
             '    if k == 0 { 0real } else { plen_%s(c, n1, (k - 1) as nat) + seg_%s(c, n1, (k - 1) as real) }\n}' % (M, N, M, M))
    d_a, d_b, d_c = diff('tm', 't0'), diff('t1', 'tm'), diff('t1', 't0')
    tmpl = """pub proof fn lemma_doubling_%(M)s(c: %(N)s<R>, n1: real, k: nat)
    requires n1 > 0real
    ensures plen_%(M)s(c, 2real * n1, 2 * k) >= plen_%(M)s(c, n1, k)
    decreases k
{
    if k > 0 {
        lemma_doubling_%(M)s(c, n1, (k - 1) as nat);
        let j = (k - 1) as real;
        let t0 = j / n1; let t1 = (j + 1real) / n1; let tm = ((2real * j) + 1real) / (2real * n1);
        assert(((2real * j) / (2real * n1)) == t0) by (nonlinear_arith) requires n1 > 0real, t0 == j / n1;
        assert(((((2real * j) + 1real) + 1real) / (2real * n1)) == t1) by (nonlinear_arith) requires n1 > 0real, t1 == (j + 1real) / n1;
        assert(plen_%(M)s(c, 2real * n1, 2 * k) == plen_%(M)s(c, 2real * n1, (2 * k - 2) as nat) + seg_%(M)s(c, 2real * n1, (2 * k - 2) as real)
               + seg_%(M)s(c, 2real * n1, (2 * k - 1) as real)) by { reveal_with_fuel(plen_%(M)s, 3); }
        assert(((2 * k - 2) as real) == 2real * j);
        assert(((2 * k - 1) as real) == (2real * j) + 1real);
        assert((2 * k - 2) as nat == 2 * ((k - 1) as nat));
        let da = %(da)s; let db = %(db)s; let dc = %(dc)s;
        axiom_sqrt(da); axiom_sqrt(db); axiom_sqrt(dc);
        crate::lemma_triangle%(n)d(%(va)s, %(vb)s, sqrt_r(da), sqrt_r(db), sqrt_r(dc));
        assert(seg_%(M)s(c, 2real * n1, 2real * j) == sqrt_r(da));
        assert(seg_%(M)s(c, 2real * n1, (2real * j) + 1real) == sqrt_r(db));
        assert(seg_%(M)s(c, n1, j) == sqrt_r(dc));
    }
}"""
    o.append(tmpl % dict(M=M, N=N, n=sh.dim, da=n2a(d_a), db=n2a(d_b), dc=n2a(d_c), va=', '.join(d_a), vb=', '.join(d_b)))
    o.append(thm_fn('thm_length_doubling_%s' % M, ['b: %s<R>' % N, 'n: u16'], ['n < 32767'],
                    '    let l1 = b.length_by_discretization(n);\n    let m: u16 = 2 * n + 1;\n    let l2 = b.length_by_discretization(m);\n'
                    '    proof { lemma_doubling_%s(b, n as real + 1real, (n + 1) as nat);\n'
                    '            assert((m as real + 1real) == 2real * (n as real + 1real));\n'
                    '            assert(((m + 1) as nat) == 2 * ((n + 1) as nat)); }\n' % M,
                    ['l2.v@ >= l1.v@'], 'C15'))
    return '\n'.join(o)


def add_length(u, cv):
    """length_by_discretization: the polyline through curve points from t=0 to t=1 is at least as long as the chord and at most as
    long as the control polygon"""
    P, N = cv.path, cv.name
    gh = 'impl<T: Real> %s<T>' % N
    sh = cv.sh
    deg = cv.deg
    pts = cv.points('self')
    k = leaf('(it.index@ as real / (step_count as real + 1real))')
    at_k = bern(cv.deg, pts, k)
    start = SV.of(sh, 'self.start')
    end = SV.of(sh, 'self.end')
    prev = SV.of(sh, 'prev_point')
    d2 = lambda a, b: X.verus((a - b).norm2())
    W = wpoly(deg)
    mleaf = [leaf('m%d' % i) for i in range(deg)]
    bound = lambda tt: sum_([W[i](tt) * mleaf[i] for i in range(deg)])
    poly = ' + '.join('sqrt_r(%s)' % d2(pts[i + 1], pts[i]) for i in range(deg))
    inv = ['prev_point.%s.v@ == %s' % (f, X.verus(at_k[i])) for i, f in enumerate(sh.fields)]
    inv += ['length.v@ >= sqrt_r(%s)' % d2(prev, start), 'length.v@ >= 0real']
    inv += ['(it.index@ == step_count as int + 1) ==> (%s)' % ' && '.join('prev_point.%s.v@ == self.end.%s.v@' % (f, f) for f in sh.fields)]
    M = cv.mod
    inv += ['length.v@ == plen_%s(self, step_count as real + 1real, it.index@ as nat)' % M]
    inv += ['%s' % ' && '.join('m%d == sqrt_r(%s)' % (i, d2(pts[i + 1], pts[i])) for i in range(deg)),
            'length.v@ <= %s' % X.verus(bound(k)),
            '(it.index@ == step_count as int + 1) ==> length.v@ <= %s' % ' + '.join('m%d' % i for i in range(deg))]
    entry = ('%s\nproof { lemma_sqrt_zero();\n'
             '    %s }' % (' '.join('let ghost m%d = sqrt_r(%s);' % (i, d2(pts[i + 1], pts[i])) for i in range(deg)),
                           ' '.join('assert(prev_point.%s.v@ == self.start.%s.v@);' % (f, f) for f in sh.fields)))
    last = ('proof { if i == step_count { let ghost n1 = step_count as real + 1real; lemma_div_self(n1); assert(t.v@ == 1real); assert(1real - t.v@ == 0real); %s crate::lemma_bound%d_ends(t.v@, %s); } }'
            % (' '.join('crate::lemma_bern%d_at_one(%s, t.v@); assert(next_point.%s.v@ == self.end.%s.v@);'
                        % (cv.deg, ', '.join('self.%s.%s.v@' % (q, f) for q in cv.pts), f, f) for f in sh.fields),
               deg, ', '.join('m%d' % i for i in range(deg))))
    nxt = SV.of(sh, 'next_point')
    # ghost block at the end of the loop body: one triangle-inequality step (lower bound) ...
    tri = ('proof { let ghost da = %s; let ghost db = %s; let ghost dc = %s; axiom_sqrt(da); axiom_sqrt(db); axiom_sqrt(dc);\n'
           '    crate::lemma_triangle%d(%s, %s, sqrt_r(da), sqrt_r(db), sqrt_r(dc)); }'
           % (d2(prev, start), d2(nxt, prev), d2(nxt, start), sh.dim,
              ', '.join(X.verus(e) for e in (prev - start).e), ', '.join(X.verus(e) for e in (nxt - prev).e)))
    # ... and one step of the upper bound: next - prev = sum_i (W_i(t) - W_i(tp)) dP_i with non-negative weights
    tpv, tv = leaf('tp'), leaf('t.v@')
    wd = [W[i](tv) - W[i](tpv) for i in range(deg)]
    dP = [pts[i + 1] - pts[i] for i in range(deg)]
    up = ['let ghost n1 = step_count as real + 1real; let ghost tp = i as real / n1;',
          'lemma_div_mul(i as real, n1); lemma_div_mul(i as real + 1real, n1);',
          'crate::lemma_param_order(n1, i as real, tp, t.v@); crate::lemma_w%d_monotone(tp, t.v@);' % deg]
    for c, f in enumerate(sh.fields):
        up.append('crate::lemma_bern%d_increment(%s, tp, t.v@);' % (deg, ', '.join('self.%s.%s.v@' % (q, f) for q in cv.pts)))
    up.append(' '.join('axiom_sqrt(%s);' % d2(pts[i + 1], pts[i]) for i in range(deg)))
    up.append('let ghost dn = %s; axiom_sqrt(dn);' % d2(nxt, prev))
    dvec = (nxt - prev)
    if deg == 2:
        up.append('crate::lemma_combo%d(%s, %s, %s, %s, %s, m0, m1, sqrt_r(dn));'
                  % (sh.dim, ', '.join(X.verus(e) for e in dP[0].e), ', '.join(X.verus(e) for e in dP[1].e),
                     ', '.join(X.verus(e) for e in dvec.e), X.verus(wd[0]), X.verus(wd[1])))
    else:
        # x = w0 dP0 + w1 dP1 (ghost), then next - prev = 1 x + w2 dP2
        xs = [wd[0] * dP[0][c] + wd[1] * dP[1][c] for c in range(sh.dim)]
        up.append('let ghost xn = %s; axiom_sqrt(xn);' % X.verus(sum_([x * x for x in xs])))
        up.append('crate::lemma_combo%d(%s, %s, %s, %s, %s, m0, m1, sqrt_r(xn));'
                  % (sh.dim, ', '.join(X.verus(e) for e in dP[0].e), ', '.join(X.verus(e) for e in dP[1].e),
                     ', '.join(X.verus(e) for e in xs), X.verus(wd[0]), X.verus(wd[1])))
        up.append('crate::lemma_combo%d(%s, %s, %s, 1real, %s, sqrt_r(xn), m2, sqrt_r(dn));'
                  % (sh.dim, ', '.join(X.verus(e) for e in xs), ', '.join(X.verus(e) for e in dP[2].e),
                     ', '.join(X.verus(e) for e in dvec.e), X.verus(wd[2])))
    up.append('crate::lemma_bound%d_step(tp, t.v@, %s);' % (deg, ', '.join('m%d' % i for i in range(deg))))
    upper = 'proof { ' + '\n    '.join(up) + ' }'
    unfold = ('proof { assert(plen_%s(self, step_count as real + 1real, (i + 1) as nat) == plen_%s(self, step_count as real + 1real, i as nat)'
              ' + seg_%s(self, step_count as real + 1real, i as real)); }' % (M, M, M))
    u.take(P, gh, 'length_by_discretization', C(
        ensures=['res.v@ >= sqrt_r(%s)' % d2(end, start), 'res.v@ <= %s' % poly,
                 'res.v@ == plen_%s(self, step_count as real + 1real, (step_count + 1) as nat)' % M],
        loops=[dict(iter='it', invariant=inv)],
        inserts=[('prev_point = next_point;', tri + '\n' + upper + '\n' + unfold + '\n' + last), ('for i in', entry)]))
    u.add(cv.path, doubling_text(cv))


def add_search(u, cv):
    """binary_search_point: the returned pair is (t, curve(t)) and is no farther from the query than the end point and every coarse sample.
    The generic `I: IntoIterator<Item = (T, Point<T>)>` is instantiated at `Vec<(R, Point<R>)>` (D3; Verus needs the iterator's
    specification). Partial correctness only: the refinement loop carries no decreases clause (its termination in exact reals depends on
    the halving reaching epsilon while the walk can continue indefinitely)."""
    P, N = cv.path, cv.name
    gh = 'impl<T: Real> %s<T>' % N
    sh = cv.sh
    pts = cv.points('self')
    ev = lambda tt: bern(cv.deg, pts, leaf(tt))
    d2 = lambda a: X.verus((SV.of(sh, a) - SV.of(sh, 'p')).norm2())
    on_curve = lambda pt, tt: ' && '.join('%s.%s.v@ == %s' % (pt, f, X.verus(ev(tt)[i])) for i, f in enumerate(sh.fields))
    samples_ok = lambda q: 'forall|j: int| 0 <= j < %s.len() ==> (%s)' % (q, on_curve('(#[trigger] %s[j]).1' % q, '%s[j].0.v@' % q))
    req = ['epsilon.v@ > eps_r()', samples_ok('coarse@')]
    ens = [on_curve('res.1', 'res.0.v@'),
           '%s <= %s' % (d2('res.1'), d2('self.end')),
           'forall|j: int| 0 <= j < coarse@.len() ==> %s <= %s' % (d2('res.1'), d2('(#[trigger] coarse@[j]).1'))]
    best = ['d.v@ == ' + d2('pt'), on_curve('pt', 't.v@'), 'd.v@ <= ' + d2('self.end')]
    inv_for = ['it.seq() == cs', samples_ok('cs')] + best + [
        'forall|j: int| 0 <= j < it.index@ ==> d.v@ <= %s' % d2('(#[trigger] cs[j]).1')]
    inv_while = best + ['forall|j: int| 0 <= j < cs.len() ==> d.v@ <= %s' % d2('(#[trigger] cs[j]).1')]
    at_one = 'proof { %s }' % ' '.join('crate::lemma_bern%d_at_one(%s, t.v@);' % (cv.deg, ', '.join('self.%s.%s.v@' % (q, f) for q in cv.pts))
                                       for f in sh.fields)
    sym = 'proof { %s }' % ' '.join('crate::lemma_dist2_sym%d(%s, %s);' % (sh.dim, ', '.join('p.%s.v@' % f for f in sh.fields),
                                                                             ', '.join('%s.%s.v@' % (q, f) for f in sh.fields)) for q in ('p1', 'p2'))
    u.take(P, gh, 'binary_search_point', C(
        requires=req, ensures=ens, tsubst={'I': 'Vec<(R, %s<R>)>' % sh.name}, attrs=['exec_allows_no_decreases_clause'],
        loops=[dict(iter='it', invariant=inv_for), dict(invariant=inv_while)],
        inserts=[('let mut d =', at_one), ('for (t_, pt_) in', 'let ghost cs = coarse@;'), ('if d1 < d || d2 < d', sym)]))


def dist_sym_lemmas():
    out = []
    for n in (2, 3):
        a, b = SV.params('a', n), SV.params('b', n)
        out.append(L.Lemma('lemma_dist2_sym%d' % n, a.e + b.e, [], [(a - b).norm2().eq((b - a).norm2())],
                           doc='the squared distance is symmetric'))
    return out


def plan(exp, tier):
    p = driver.Plan('C15')
    u = vec_unit(exp, 'c15', [VEC['Vec2'], VEC['Vec3'], VEC['Vec4']])
    veccore.add_conversions(u, only=('Vec2', 'Vec3', 'Vec4'))
    for nm in ('Vec2', 'Vec3'):
        veccore.add_spatial_basic(u, VEC[nm])
    opscore.add_traits(u, ('Clamp', 'Lerp'))
    opscore.add_float_impls(u, ('Clamp', 'Lerp'))
    lq = quad_lemma()
    for dim in (2, 3):
        cv = Curve(2, dim)
        t = leaf('t.v@')
        pts = cv.points('self')
        u.take(cv.path, 'impl<T: Real> %s<T>' % cv.name, 'evaluate', C(ensures=veq(cv.sh, 'res', bern(2, pts, t))))
        add_quadratic(u, cv)
        add_quad_theorems(u, cv, lq)
        add_quad_box_theorem(u, cv, lq)
        add_length(u, cv)
        add_search(u, cv)
    lc = cubic_root_lemma()
    for dim in (2, 3):
        cv = Curve(3, dim)
        t = leaf('t.v@')
        pts = cv.points('self')
        u.take(cv.path, 'impl<T: Real> %s<T>' % cv.name, 'evaluate', C(ensures=veq(cv.sh, 'res', bern(3, pts, t))))
        add_cubic(u, cv)
        add_cubic_theorems(u, cv, lc)
        add_cubic_extrema_theorems(u, cv)
        add_length(u, cv)
        add_search(u, cv)
    lt = triangle_lemmas() + [bern_end_lemma(2), bern_end_lemma(3)] + dist_sym_lemmas() + length_lemmas() + cubic_extremality_lemmas()
    import prelude
    u.add_root(prelude.FROM_U16)
    for lm in lq + lc + lt:
        u.add_root(lm.verus_text('C15'))
    p.lemmas += lq + lc + lt + [opscore.lerp_lemma()]
    p.add_unit('c15', u, ['ops', 'vec', 'quaternion', 'transform', 'mat', 'geom', 'bezier'])
    import kani_driver
    p.kani = kani_driver.load_specs('c15')
    for sp in p.kani:
        if sp.get('bounded'):
            p.bounded.append('%s: %s' % (sp['harness'], sp['bounded']))
    p.assumptions += ['binary_search_point: the generic sample iterator I is instantiated at Vec<(R, Point<R>)> (Verus needs the iterator\'s specification); '
                      'partial correctness only (no decreases clause on the refinement loop)',
                      'binary_search_point_by_steps: Range::map is outside the Verus subset; its hand-over to binary_search_point is checked by Kani (bounded: steps <= 6) on f32 curves']
    p.not_decided += ['termination of binary_search_point (the unchanged code does not terminate for steps = 0: the half interval is 1/0)',
                      'inputs inside the tolerance bands 0 < |q| <= epsilon of the tested quantities (stated as a precondition of the theorems)']
    return p
