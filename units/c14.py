"""C14 — Bezier evaluate, derivative, split and conversions obey the Bernstein identities."""
import driver
import veccore
import opscore
import geomcore as G
import matcore
import expr as X
import lemma as L
from expr import const, var, app
from extract import Contract as C
from xparse import norm
from sym import SV, SM, leaf
from common import vec_unit
from shapes import VEC, MATS, mat
from matcore import thm_fn, veq

ONE, ZERO = const(1), const(0)
BP = 'bezier::repr_c'


class Curve:
    def __init__(self, deg, dim):
        self.deg, self.dim = deg, dim
        self.name = '%sBezier%d' % ('Quadratic' if deg == 2 else 'Cubic', dim)
        self.mod = '%s_bezier%d' % ('quadratic' if deg == 2 else 'cubic', dim)
        self.path = BP + '::' + self.mod
        self.sh = VEC['Vec%d' % dim]
        self.pts = ['start', 'ctrl', 'end'] if deg == 2 else ['start', 'ctrl0', 'ctrl1', 'end']

    def points(self, text):
        return [SV.of(self.sh, '%s.%s' % (text, p)) for p in self.pts]

    def ppoints(self, prefix):
        return [SV.params('%s%d_' % (prefix, k), self.dim) for k in range(self.deg + 1)]


def bern(deg, pts, t):
    """sum_i C(n,i) (1-t)^(n-i) t^i P_i, per coordinate; products left-associated from the control point"""
    l = ONE - t
    if deg == 2:
        terms = [lambda P: P * l * l, lambda P: P * const(2) * l * t, lambda P: P * t * t]
    else:
        terms = [lambda P: P * l * l * l, lambda P: P * const(3) * l * l * t, lambda P: P * const(3) * l * t * t, lambda P: P * t * t * t]
    dim = pts[0].n
    return SV([X.sum_([terms[i](pts[i][c]) for i in range(deg + 1)]) for c in range(dim)])


def hodo(deg, pts, t):
    """n * Bezier of degree n-1 on the differences"""
    l = ONE - t
    n = const(deg)
    dim = pts[0].n
    if deg == 2:
        return SV([(pts[1][c] - pts[0][c]) * l * n + (pts[2][c] - pts[1][c]) * t * n for c in range(dim)])
    return SV([(pts[1][c] - pts[0][c]) * l * l * n + (pts[2][c] - pts[1][c]) * const(2) * l * t * n + (pts[3][c] - pts[2][c]) * t * t * n
               for c in range(dim)])


def casteljau(deg, pts, t):
    """control points of the two halves [0,t] and [t,1] by de Casteljau's construction"""
    def lerp(a, b):
        return SV([a[c] + (b[c] - a[c]) * t for c in range(a.n)])
    levels = [pts]
    while len(levels[-1]) > 1:
        prev = levels[-1]
        levels.append([lerp(prev[i], prev[i + 1]) for i in range(len(prev) - 1)])
    first = [lv[0] for lv in levels]
    second = [lv[-1] for lv in reversed(levels)]
    return first, second


def add_curve(u, cv):
    P, N = cv.path, cv.name
    gh = 'impl<T: Real> %s<T>' % N
    t = leaf('t.v@')
    pts = cv.points('self')
    u.take(P, gh, 'evaluate', C(ensures=veq(cv.sh, 'res', bern(cv.deg, pts, t))))
    u.take(P, gh, 'evaluate_derivative', C(ensures=veq(cv.sh, 'res', hodo(cv.deg, pts, t))))
    first, second = casteljau(cv.deg, pts, t)
    ens = []
    for h, cps in ((0, first), (1, second)):
        for k, pn in enumerate(cv.pts):
            for c, x in enumerate(cv.sh.fields):
                ens.append('res@[%d].%s.%s.v@ == %s' % (h, pn, x, X.verus(cps[k][c])))
    pro = ''
    lems = []
    if True:
        # the code writes the split control points in expanded power form; a per-coordinate bridge lemma (z3) equates them
        pp = cv.ppoints('p')
        tv = var('t')
        code1, code2 = split_code_shape(cv.deg, pp, tv)
        f1, f2 = casteljau(cv.deg, pp, tv)
        goals = []
        for k in range(cv.deg + 1):
            for c in range(1):
                goals += [code1[k][c].eq(f1[k][c]), code2[k][c].eq(f2[k][c])]
        # one-coordinate lemma reused for every coordinate
        p1 = [SV([var('q%d' % k)]) for k in range(cv.deg + 1)]
        c1, c2 = split_code_shape(cv.deg, p1, tv)
        g1, g2 = casteljau(cv.deg, p1, tv)
        lm = L.Lemma('lemma_split_shape%d' % cv.deg, [p[0] for p in p1] + [tv], [],
                     [c1[k][0].eq(g1[k][0]) for k in range(cv.deg + 1)] + [c2[k][0].eq(g2[k][0]) for k in range(cv.deg + 1)],
                     doc='the split control points as written in bezier.rs equal de Casteljau\'s construction')
        lems.append(lm)
        calls = ' '.join('crate::%s(%s, t.v@);' % (lm.name, ', '.join(X.verus(pts[k][c]) for k in range(cv.deg + 1))) for c in range(cv.dim))
        pro = 'proof { %s }' % calls
    u.take(P, gh, 'split', C(ensures=ens, prologue=pro))
    g2 = 'impl<T>%s<T>' % N
    rev = list(reversed(cv.pts))
    u.take(P, g2, 'reverse', C(ret=None, ensures=['final(self).%s == old(self).%s' % (a, b) for a, b in zip(cv.pts, rev)]), mode='G')
    u.take(P, g2, 'reversed', C(ensures=['res.%s == self.%s' % (a, b) for a, b in zip(cv.pts, rev)]), mode='G')
    return lems


def split_code_shape(deg, p, t):
    """mirror of bezier.rs `split` (a proof artifact, cf. det4_code_shape)"""
    l = ONE
    two, three = const(2), const(3)
    dim = p[0].n
    V = lambda f: SV([f(c) for c in range(dim)])
    if deg == 2:
        s, c_, e = p
        mid = V(lambda c: e[c] * t * t - c_[c] * two * t * (t - l) + s[c] * (t - l) * (t - l))
        first = [s, V(lambda c: c_[c] * t - s[c] * (t - l)), mid]
        second = [mid, V(lambda c: e[c] * t - c_[c] * (t - l)), e]
        return first, second
    s, c0, c1, e = p
    mid = V(lambda c: e[c] * t * t * t - c1[c] * three * t * t * (t - l) + c0[c] * three * t * (t - l) * (t - l) - s[c] * (t - l) * (t - l) * (t - l))
    first = [s, V(lambda c: c0[c] * t - s[c] * (t - l)),
             V(lambda c: c1[c] * t * t - c0[c] * two * t * (t - l) + s[c] * (t - l) * (t - l)), mid]
    second = [mid, V(lambda c: e[c] * t * t - c1[c] * two * t * (t - l) + c0[c] * (t - l) * (t - l)),
              V(lambda c: e[c] * t - c1[c] * (t - l)), e]
    return first, second


def curve_lemmas(deg):
    """Layer 2, one coordinate (the curve functions act per coordinate)"""
    q = [var('q%d' % k) for k in range(deg + 1)]
    t, uu = var('t'), var('u')
    P1 = [SV([x]) for x in q]
    B = lambda pts, tt: bern(deg, pts, tt)[0]
    out = []
    out.append(L.Lemma('lemma_bezier%d_ends_derivative' % deg, q + [t], [],
                       [B(P1, ZERO).eq(q[0]), B(P1, ONE).eq(q[deg]), hodo(deg, P1, t)[0].eq(X.diff(B(P1, t), 't'))],
                       doc='evaluate(0) = start, evaluate(1) = end, evaluate_derivative is the formal derivative of evaluate'))
    f1, f2 = casteljau(deg, P1, t)
    out.append(L.Lemma('lemma_bezier%d_split' % deg, q + [t, uu], [],
                       [B(f1, uu).eq(B(P1, t * uu)), B(f2, uu).eq(B(P1, t + (ONE - t) * uu)), f1[deg][0].eq(B(P1, t)), f2[0][0].eq(B(P1, t))],
                       doc='the halves of split(t) re-parametrise the curve on [0,t] and [t,1] and meet at evaluate(t)'))
    rv = list(reversed(P1))
    out.append(L.Lemma('lemma_bezier%d_reversed' % deg, q + [t], [], [B(rv, t).eq(B(P1, ONE - t))], doc='reversed.evaluate(t) == evaluate(1-t)'))
    if deg == 2:
        el = [P1[0], SV([(q[0] + q[1] + q[1]) / const(3)]), SV([(q[2] + q[1] + q[1]) / const(3)]), P1[2]]
        out.append(L.Lemma('lemma_bezier_elevation', q + [t], [], [bern(3, el, t)[0].eq(B(P1, t))],
                           doc='degree elevation preserves the curve'))
    else:
        a, b = var('a'), var('b')
        th = ONE / const(3)
        seg = [SV([a]), SV([a + th * (b - a)]), SV([a + (th + th) * (b - a)]), SV([b])]
        out.append(L.Lemma('lemma_bezier_from_segment', [a, b, t], [], [bern(3, seg, t)[0].eq(a + t * (b - a))],
                           doc='the cubic built from a line segment evaluates to the linear interpolation'))
    return out


def add_conversions(u, dim):
    """degree elevation, from a line segment, the coefficient matrix, the unit quarter circle (2-D)"""
    q, c = Curve(2, dim), Curve(3, dim)
    sh = q.sh
    hdr = 'impl<T: Real> From<%s<T>> for %s<T>' % (q.name, c.name)
    b = q.points('b')
    el = [b[0], SV([(b[0][k] + b[1][k] + b[1][k]) / const(3) for k in range(dim)]),
          SV([(b[2][k] + b[1][k] + b[1][k]) / const(3) for k in range(dim)]), b[2]]
    ens = []
    for pn, pt in zip(c.pts, el):
        ens += ['res.%s.%s.v@ == %s' % (pn, x, X.verus(pt[k])) for k, x in enumerate(sh.fields)]
    u.take_impl(c.path, hdr, {'from': C(ensures=ens)})
    u.take(q.path, 'impl<T: Real> %s<T>' % q.name, 'into_cubic', C(ensures=[e.replace('b.', 'self.') for e in ens]))
    hdr = 'impl<T: Real + Lerp<T, Output = T>> From<LineSegment%d<T>> for %s<T>' % (dim, c.name)
    s0, s1 = SV.of(sh, 'line_segment.start'), SV.of(sh, 'line_segment.end')
    th = ONE / const(3)
    seg = [s0, SV([s0[k] + th * (s1[k] - s0[k]) for k in range(dim)]), SV([s0[k] + (th + th) * (s1[k] - s0[k]) for k in range(dim)]), s1]
    ens = []
    for pn, pt in zip(c.pts, seg):
        ens += ['res.%s.%s.v@ == %s' % (pn, x, X.verus(pt[k])) for k, x in enumerate(sh.fields)]
    u.take_impl(c.path, hdr, {'from': C(ensures=ens)})
    if dim == 2:
        k = (const(2) + const(2)) * (app('sqrt_r', ONE + ONE) - ONE) / const(3)
        ks = X.verus(k)
        u.take(c.path, 'impl<T: Real> %s<T>' % c.name, 'unit_quarter_circle', C(ensures=[
            'res.start.x.v@ == 1real', 'res.start.y.v@ == 0real', 'res.ctrl0.x.v@ == 1real', 'res.ctrl0.y.v@ == ' + ks,
            'res.ctrl1.x.v@ == ' + ks, 'res.ctrl1.y.v@ == 1real', 'res.end.x.v@ == 0real', 'res.end.y.v@ == 1real']))


def add_more_conversions(u, dim):
    """quadratic from a line segment, both degrees from a Range of points, LineSegment from a Range"""
    q, c = Curve(2, dim), Curve(3, dim)
    sh = q.sh
    f = sh.fields
    hdr = 'impl<T: Real> From<LineSegment%d<T>> for %s<T>' % (dim, q.name)
    s0, s1 = SV.of(sh, 'line_segment.start'), SV.of(sh, 'line_segment.end')
    ens = []
    for pn, pt in zip(q.pts, [s0, SV([(s0[k] + s1[k]) / const(2) for k in range(dim)]), s1]):
        ens += ['res.%s.%s.v@ == %s' % (pn, x, X.verus(pt[k])) for k, x in enumerate(f)]
    u.take_impl(q.path, hdr, {'from': C(ensures=ens)})
    # Range<Point>: LineSegment::from(range) keeps start and end; the curves go through that segment
    G = 'geom::repr_c'
    hl = 'impl<T> From<Range<%s<T>>> for LineSegment%d<T>' % (sh.name, dim)
    u.take_impl(G, hl, {'from': C(ensures=['res.start == range.start', 'res.end == range.end'])}, mode='G')
    r0, r1 = SV.of(sh, 'range.start'), SV.of(sh, 'range.end')
    hq = 'impl<T: Real> From<Range<Point<T>>> for %s<T>' % q.name
    ens = []
    for pn, pt in zip(q.pts, [r0, SV([(r0[k] + r1[k]) / const(2) for k in range(dim)]), r1]):
        ens += ['res.%s.%s.v@ == %s' % (pn, x, X.verus(pt[k])) for k, x in enumerate(f)]
    u.take_impl(q.path, hq, {'from': C(ensures=ens)})
    hc = 'impl<T: Real + Lerp<T, Output = T>> From<Range<Point<T>>> for %s<T>' % c.name
    th = ONE / const(3)
    seg = [r0, SV([r0[k] + th * (r1[k] - r0[k]) for k in range(dim)]), SV([r0[k] + (th + th) * (r1[k] - r0[k]) for k in range(dim)]), r1]
    ens = []
    for pn, pt in zip(c.pts, seg):
        ens += ['res.%s.%s.v@ == %s' % (pn, x, X.verus(pt[k])) for k, x in enumerate(f)]
    u.take_impl(c.path, hc, {'from': C(ensures=ens)})


def add_dim_conversions(u, deg):
    """2D -> 3D (z = 0) and 3D -> 2D (z dropped): `c.into_vector().map(Into::into).into()`"""
    c2, c3 = Curve(deg, 2), Curve(deg, 3)
    ens = []
    for pn in c2.pts:
        ens += ['res.%s.x == c.%s.x' % (pn, pn), 'res.%s.y == c.%s.y' % (pn, pn), 'res.%s.z.v@ == 0real' % pn]
    u.take_impl(c2.path, 'impl<T: Zero> From<%s<T>> for %s<T>' % (c2.name, c3.name), {'from': C(ensures=ens)})
    u.take(c2.path, 'impl<T: Zero> %s<T>' % c2.name, 'into_3d', C(ensures=[e.replace('c.', 'self.') for e in ens]))
    ens = []
    for pn in c2.pts:
        ens += ['res.%s.x == c.%s.x' % (pn, pn), 'res.%s.y == c.%s.y' % (pn, pn)]
    u.take_impl(c3.path, 'impl<T> From<%s<T>> for %s<T>' % (c3.name, c2.name), {'from': C(ensures=ens)}, mode='G')
    u.take(c3.path, 'impl<T> %s<T>' % c3.name, 'into_2d', C(ensures=[e.replace('c.', 'self.') for e in ens]), mode='G')


COEF = {2: [[1, 0, 0], [-2, 2, 0], [1, -2, 1]], 3: [[1, 0, 0, 0], [-3, 3, 0, 0], [3, -6, 3, 0], [-1, 3, -3, 1]]}


def matrix_lemma(deg):
    ps = [var('p%d' % i) for i in range(deg + 1)]
    t = var('t')
    pw = [ONE, t, t * t, t * t * t][:deg + 1]
    cs = [X.sum_([pw[i] * const(COEF[deg][i][j]) for i in range(deg + 1)]) for j in range(deg + 1)]
    return L.Lemma('lemma_bezier%d_matrix_form' % deg, ps + [t], [],
                   [X.sum_([cs[j] * ps[j] for j in range(deg + 1)]).eq(bern(deg, [SV([q]) for q in ps], t)[0])],
                   doc='[1, t, .., t^n] * M * P is the Bernstein form')


def add_matrix_form(u, cv, lm):
    """the coefficient matrix M (rows = powers of t, columns = control points): [1, t, t^2(, t^3)] * M * P == evaluate(t)"""
    from shapes import mat
    deg = cv.deg
    ms = mat(deg + 1, 'rows')
    ens = ['%s.v@ == %s' % (ms.at('res', i, j), X.verus(const(COEF[deg][i][j]))) for i in range(deg + 1) for j in range(deg + 1)]
    u.take(cv.path, 'impl<T: Real> %s<T>' % cv.name, 'matrix', C(ensures=ens))
    VK = vecK(cv)
    kf = VK.fields
    pw = ['R::one()', 't', 't * t', 't * t * t'][:deg + 1]
    body = ('    let m = %s::matrix();\n    let tv = %s::new(%s);\n    let c = tv * m;\n    let e = b.evaluate(t);\n'
            '    proof { %s }\n'
            % (cv.name, VK.name, ', '.join(pw),
               ' '.join('crate::%s(%s, t.v@);' % (lm.name, ', '.join('b.%s.%s.v@' % (q, x) for q in cv.pts)) for x in cv.sh.fields)))
    asserts = ['%s == e.%s.v@' % (' + '.join('c.%s.v@ * b.%s.%s.v@' % (kf[j], cv.pts[j], x) for j in range(deg + 1)), x) for x in cv.sh.fields]
    u.add(cv.path, thm_fn('thm_matrix_form_%s' % cv.name.lower(), ['b: %s<R>' % cv.name, 't: R'], [], body, asserts, 'C14'))


def circle_lemma():
    t, rho = var('t'), var('rho')
    k = (const(2) + const(2)) * (rho - ONE) / const(3)
    pts = [SV([ONE, ZERO]), SV([ONE, k]), SV([k, ONE]), SV([ZERO, ONE])]
    Pt = bern(3, pts, t)
    r2 = Pt[0] * Pt[0] + Pt[1] * Pt[1]
    from fractions import Fraction
    lo, hi = const(Fraction(9997, 10000)), const(Fraction(10003, 10000))
    return L.Lemma('lemma_quarter_circle', [t, rho], [(rho * rho).eq(2), rho.gt(0), t.ge(0), t.le(1)],
                   [r2.ge(lo * lo), r2.le(hi * hi)], doc='the cubic quarter circle stays within 0.03% of radius 1 on [0,1]')


def add_conv_theorems(u, dim, ls2, ls3, lc):
    q, c = Curve(2, dim), Curve(3, dim)
    sh = q.sh
    l_el = ls2[3]
    l_seg = ls3[3]
    body = ('    let cb = %s::from(b);\n    let a1 = cb.evaluate(t);\n    let a2 = b.evaluate(t);\n'
            '    let sc = %s::from(g);\n    let s1 = sc.evaluate(t);\n'
            '    proof { %s %s }\n'
            % (c.name, c.name,
               ' '.join('crate::%s(%s, t.v@);' % (l_el.name, ', '.join('b.%s.%s.v@' % (p, x) for p in q.pts)) for x in sh.fields),
               ' '.join('crate::%s(g.start.%s.v@, g.end.%s.v@, t.v@);' % (l_seg.name, x, x) for x in sh.fields)))
    asserts = ['a1.%s.v@ == a2.%s.v@' % (x, x) for x in sh.fields]
    asserts += ['s1.%s.v@ == g.start.%s.v@ + t.v@ * (g.end.%s.v@ - g.start.%s.v@)' % (x, x, x, x) for x in sh.fields]
    u.add(c.path, thm_fn('thm_conversions_%dd' % dim, ['b: %s<R>' % q.name, 'g: LineSegment%d<R>' % dim, 't: R'], [], body, asserts, 'C14'))
    if dim == 2:
        body = ('    let qc = CubicBezier2::unit_quarter_circle();\n    let p = qc.evaluate(t);\n    let ghost rho = sqrt_r(1real + 1real);\n'
                '    proof { axiom_sqrt(1real + 1real); crate::lemma_pos_root(rho, 2real); crate::%s(t.v@, rho); }\n' % lc.name)
        u.add(c.path, thm_fn('thm_quarter_circle', ['t: R'], ['0real <= t.v@ <= 1real'], body,
                             ['p.x.v@ * p.x.v@ + p.y.v@ * p.y.v@ >= (9997real / 10000real) * (9997real / 10000real)',
                              'p.x.v@ * p.x.v@ + p.y.v@ * p.y.v@ <= (10003real / 10000real) * (10003real / 10000real)'], 'C14'))


def vecK(cv):
    return VEC['Vec%d' % (cv.deg + 1)]


def add_vector_forms(u, cv):
    """curve <-> vector of control points, axis flips, matrix * curve (closure-based `map` code; the closures get ghost ensures, D2)"""
    import affcore
    P, N = cv.path, cv.name
    VK = vecK(cv)
    PT = cv.sh.name
    g = 'impl<T>%s<T>' % N
    kf = VK.fields
    u.take(P, g, 'into_vector', C(ensures=['res.%s == self.%s' % (a, b) for a, b in zip(kf, cv.pts)]), mode='G')
    u.take(P, g, 'into_vec%d' % (cv.deg + 1), C(ensures=['res.%s == self.%s' % (a, b) for a, b in zip(kf, cv.pts)]), mode='G')
    h1 = 'impl<T> From<%s<Point<T>>> for %s<T>' % (VK.name, N)
    h2 = 'impl<T> From<%s<T>> for %s<Point<T>>' % (N, VK.name)
    u.take_impl(P, h1, mode='G')
    u.take_impl(P, h2, mode='G')
    u.from_given.add(norm(h1))
    u.from_given.add(norm(h2))
    u.add(P, 'impl<T> FromSpecImpl<%s<Point<T>>> for %s<T> {\n    open spec fn obeys_from_spec() -> bool { true }\n'
             '    open spec fn from_spec(v: %s<Point<T>>) -> %s<T> { %s { %s } }\n}'
          % (VK.name, N, VK.name, N, N, ', '.join('%s: v.%s' % (b, a) for a, b in zip(kf, cv.pts))))
    u.add(P, 'impl<T> FromSpecImpl<%s<T>> for %s<Point<T>> {\n    open spec fn obeys_from_spec() -> bool { true }\n'
             '    open spec fn from_spec(v: %s<T>) -> %s<Point<T>> { %s }\n}'
          % (N, VK.name, N, VK.name, VK.lit(['v.%s' % b for b in cv.pts])))
    u.take(VK.path, 'impl<T>%s<T>' % VK.name, 'map', C(requires=['forall|x: T| call_requires(f, (x,))'],
                                                       ensures=['call_ensures(f, (self.%s,), res.%s)' % (x, x) for x in kf]), mode='G')
    gr = 'impl<T: Real> %s<T>' % N
    for k, a in enumerate(cv.sh.fields):
        others = [x for x in cv.sh.fields if x != a]
        clo_new = ('|p: %s<R>| -> (q: %s<R>) ensures q.%s.v@ == -p.%s.v@, %s'
                   % (PT, PT, a, a, ', '.join('q.%s == p.%s' % (x, x) for x in others)))
        ens = []
        for pn in cv.pts:
            ens += ['res.%s.%s.v@ == -self.%s.%s.v@' % (pn, a, pn, a)] + ['res.%s.%s == self.%s.%s' % (pn, x, pn, x) for x in others]
        nth = 0
        u.take(P, gr, 'flipped_' + a, C(ensures=ens, closures=[('|mut p|', clo_new, 'let mut p = p;')]))
        u.take(P, gr, 'flip_' + a, C(ret=None, ensures=[e.replace('res.', 'final(self).').replace('self.', 'old(self).').replace('final(old(self))', 'final(self)') for e in ens]))
    # matrix * curve
    d = cv.dim
    for layout, alias in (('rows', 'Rows'), ('cols', 'Cols')):
        # linear: MatD * curve_D
        ms = mat(d, layout)
        hdr = 'impl<T> Mul<%s<T>> for %s%d<T> where T: Real + MulAdd<T, T, Output = T>' % (N, alias, d)
        Mself = SM.of(ms, 'self')
        pv = SV.of(cv.sh, 'p')
        img = Mself @ pv
        clo_new = ('|p: %s<R>| -> (q: %s<R>) ensures %s'
                   % (PT, PT, ', '.join('q.%s.v@ == %s' % (x, X.verus(img[i])) for i, x in enumerate(cv.sh.fields))))
        ens = []
        for pn in cv.pts:
            pi = Mself @ SV.of(cv.sh, 'rhs.' + pn)
            ens += ['res.%s.%s.v@ == %s' % (pn, x, X.verus(pi[i])) for i, x in enumerate(cv.sh.fields)]
        u.take_impl(P, hdr, {'mul': C(ensures=ens, closures=[('|p|', clo_new, '')])})
        # affine: Mat(D+1) * curve_D through mul_point(_2d)
        ma = mat(d + 1, layout)
        fn = 'mul_point_2d' if d == 2 else 'mul_point'
        hdr = 'impl<T> Mul<%s<T>> for %s%d<T> where T: Real + MulAdd<T, T, Output = T>' % (N, alias, d + 1)
        Ma = SM.of(ma, 'self')
        imga = Ma @ pv.ext(ONE)
        clo_new = ('|p: %s<R>| -> (q: %s<R>) ensures %s'
                   % (PT, PT, ', '.join('q.%s.v@ == %s' % (x, X.verus(imga[i])) for i, x in enumerate(cv.sh.fields))))
        ens = []
        for pn in cv.pts:
            pi = Ma @ SV.of(cv.sh, 'rhs.' + pn).ext(ONE)
            ens += ['res.%s.%s.v@ == %s' % (pn, x, X.verus(pi[i])) for i, x in enumerate(cv.sh.fields)]
        u.take_impl(P, hdr, {'mul': C(ensures=ens, closures=[('|p|', clo_new, '')])})


def affine_lemma(deg):
    """one output coordinate of an affine map commutes with the Bernstein form (partition of unity)"""
    n = deg + 1
    xs = [[var('p%d%d' % (k, c)) for c in range(3)] for k in range(n)]
    m = [var('m%d' % c) for c in range(4)]
    t = var('t')
    coord = lambda pt: m[0] * pt[0] + m[1] * pt[1] + m[2] * pt[2] + m[3]
    lhs = bern(deg, [SV([coord(xs[k])]) for k in range(n)], t)[0]
    P = [bern(deg, [SV([xs[k][c]]) for k in range(n)], t)[0] for c in range(3)]
    return L.Lemma('lemma_bezier%d_affine' % deg, [x for r in xs for x in r] + m + [t], [], [lhs.eq(coord(P))],
                   doc='sum_i B_i(t) (a . p_i + b) == a . P(t) + b')


def add_theorems(u, cv, lems):
    N, sh = cv.name, cv.sh
    deg = cv.deg
    l_end, l_split, l_rev = lems[0], lems[1], lems[2]
    cargs = lambda c: ', '.join('b.%s.%s.v@' % (p, sh.fields[c]) for p in cv.pts)
    body = ('    let e0 = b.evaluate(R::zero());\n    let e1 = b.evaluate(R::one());\n    let s = b.split(t);\n    let lo = s[0];\n    let hi = s[1];\n'
            '    let a1 = lo.evaluate(w);\n    let a2 = b.evaluate(t * w);\n    let b1 = hi.evaluate(w);\n    let b2 = b.evaluate(t + (R::one() - t) * w);\n'
            '    let m = b.evaluate(t);\n    let r = b.reversed();\n    let r1 = r.evaluate(t);\n    let r2 = b.evaluate(R::one() - t);\n'
            '    proof { %s }\n' % ' '.join('crate::%s(%s, t.v@); crate::%s(%s, t.v@, w.v@); crate::%s(%s, t.v@);'
                                           % (l_end.name, cargs(c), l_split.name, cargs(c), l_rev.name, cargs(c)) for c in range(cv.dim)))
    asserts = []
    for x in sh.fields:
        asserts += ['e0.%s.v@ == b.start.%s.v@' % (x, x), 'e1.%s.v@ == b.end.%s.v@' % (x, x), 'a1.%s.v@ == a2.%s.v@' % (x, x),
                    'b1.%s.v@ == b2.%s.v@' % (x, x), 'lo.end.%s.v@ == m.%s.v@' % (x, x), 'hi.start.%s.v@ == m.%s.v@' % (x, x),
                    'r1.%s.v@ == r2.%s.v@' % (x, x)]
    u.add(cv.path, thm_fn('thm_bernstein_%s' % cv.mod, ['b: %s<R>' % N, 't: R', 'w: R'], [], body, asserts, 'C14'))


def add_mat_theorems(u, cv, la):
    d = cv.dim
    N = cv.name
    PT = cv.sh.name
    for layout, alias in (('rows', 'Rows'), ('cols', 'Cols')):
        ms, ma = mat(d, layout), mat(d + 1, layout)
        fn = 'mul_point_2d' if d == 2 else 'mul_point'
        Mu, Au = SM.of(ms, 'm'), SM.of(ma, 'a')
        calls = []
        for i in range(d):
            for (Mx, nm, aff) in ((Mu, 'm', False), (Au, 'a', True)):
                pts = []
                for pn in cv.pts:
                    pts += ['b.%s.%s.v@' % (pn, x) for x in cv.sh.fields] + (['0real'] if d == 2 else [])
                coef = [X.verus(Mx[i, j]) for j in range(d)] + (['0real'] if d == 2 else []) + [X.verus(Mx[i, d]) if aff else '0real']
                calls.append('crate::%s(%s, %s, t.v@);' % (la.name, ', '.join(pts), ', '.join(coef)))
        body = ('    let mb = m * b;\n    let l = mb.evaluate(t);\n    let pt = b.evaluate(t);\n    let r = m * pt;\n'
                '    let ab = a * b;\n    let la = ab.evaluate(t);\n    let ra: %s<R> = a.%s(pt);\n    proof { %s }\n'
                % (PT, fn, ' '.join(calls)))
        asserts = ['l.%s.v@ == r.%s.v@' % (x, x) for x in cv.sh.fields] + ['la.%s.v@ == ra.%s.v@' % (x, x) for x in cv.sh.fields]
        u.add(cv.path, thm_fn('thm_matrix_times_%s_%s' % (cv.mod, layout),
                              ['m: crate::mat::repr_c::%s::Mat%d<R>' % (ms.major, d), 'a: crate::mat::repr_c::%s::Mat%d<R>' % (ma.major, d + 1),
                               'b: %s<R>' % N, 't: R'], [], body, asserts, 'C14'))


def add_tangent(u, cv):
    """normalized_tangent(t) = evaluate_derivative(t) / |evaluate_derivative(t)|"""
    P, N = cv.path, cv.name
    gh = 'impl<T: Real> %s<T>' % N
    t = leaf('t.v@')
    h = hodo(cv.deg, cv.points('self'), t)
    u.take(P, gh, 'evaluate_derivative', C(ensures=veq(cv.sh, 'res', h)))
    veccore.add_spatial_basic(u, cv.sh)
    n2 = X.verus(h.norm2())
    u.take(P, gh, 'normalized_tangent', C(ensures=['({ let m = sqrt_r(%s); res.%s.v@ == %s / m })' % (n2, f, X.verus(h[i]))
                                                   for i, f in enumerate(cv.sh.fields)]))


def add_circle_and_tangent(u):
    """CubicBezier2::unit_quarter_circle / unit_circle (the quarter arc and its three mirror images: NE, NW, SW, SE)"""
    c = Curve(3, 2)
    k = (const(2) + const(2)) * (app('sqrt_r', ONE + ONE) - ONE) / const(3)
    ks = X.verus(k)
    q = {'start': ('1real', '0real'), 'ctrl0': ('1real', ks), 'ctrl1': (ks, '1real'), 'end': ('0real', '1real')}
    gh = 'impl<T: Real> %s<T>' % c.name
    u.take(c.path, gh, 'unit_quarter_circle', C(ensures=['res.%s.%s.v@ == %s' % (pn, ax, q[pn][i]) for pn in c.pts for i, ax in enumerate('xy')]))
    ens = []
    for idx, (sx, sy) in enumerate((('', ''), ('-', ''), ('-', '-'), ('', '-'))):
        for pn in c.pts:
            ens += ['res@[%d].%s.x.v@ == %s(%s)' % (idx, pn, sx, q[pn][0]), 'res@[%d].%s.y.v@ == %s(%s)' % (idx, pn, sy, q[pn][1])]
    u.take(c.path, gh, 'unit_circle', C(ensures=ens))
    add_tangent(u, Curve(3, 2))
    add_tangent(u, Curve(3, 3))


def mat_unit(exp, name, deg, lsd):
    import affcore
    u = vec_unit(exp, name, [VEC['Vec2'], VEC['Vec3'], VEC['Vec4']], mats=MATS)
    veccore.add_conversions(u, only=('Vec2', 'Vec3', 'Vec4'))
    affcore.add_point_ctors(u)
    opscore.add_traits(u, ('Clamp', 'Lerp'))
    opscore.add_float_impls(u, ('Clamp', 'Lerp'))
    for ms in MATS:
        matcore.add_mat_struct(u, ms)
        matcore.add_mat_mul(u, ms)
        if ms.n == 4:
            affcore.add_mul_point(u, ms, 'mul_point', VEC['Vec3'], VEC['Vec4'], 1)
            affcore.add_mul_point(u, ms, 'mul_direction', VEC['Vec3'], VEC['Vec4'], 0)      # sibling helpers: keep the unit deciding
        if ms.n == 3:
            affcore.add_mul_point(u, ms, 'mul_point_2d', VEC['Vec2'], VEC['Vec3'], 1)
            affcore.add_mul_point(u, ms, 'mul_direction_2d', VEC['Vec2'], VEC['Vec3'], 0)
    la = affine_lemma(deg)
    u.add_root(la.verus_text('C14'))
    for dim in (2, 3):
        cv = Curve(deg, dim)
        t = leaf('t.v@')
        u.take(cv.path, 'impl<T: Real> %s<T>' % cv.name, 'evaluate', C(ensures=veq(cv.sh, 'res', bern(deg, cv.points('self'), t))))
        add_vector_forms(u, cv)
        add_mat_theorems(u, cv, la)
    veccore.add_unit_ctors(u)
    if deg == 3:
        add_circle_and_tangent(u)
    else:
        add_tangent(u, Curve(2, 2)); add_tangent(u, Curve(2, 3))
    add_dim_conversions(u, deg)
    lmx = matrix_lemma(deg)
    u.add_root(lmx.verus_text('C14'))
    for dim in (2, 3):
        add_matrix_form(u, Curve(deg, dim), lmx)
    return u, [la, lmx]


def plan(exp, tier):
    p = driver.Plan('C14')
    u = vec_unit(exp, 'c14', [VEC['Vec2'], VEC['Vec3'], VEC['Vec4']])
    veccore.add_conversions(u, only=('Vec2', 'Vec3', 'Vec4'))
    import c12
    import c16
    opscore.add_traits(u, ('Clamp', 'Lerp'))
    opscore.add_float_impls(u, ('Clamp', 'Lerp'))
    for nm in ('Vec2', 'Vec3'):
        c12.add_vec_lerp(u, VEC[nm])
        for f in VEC[nm].fields:
            u.take(VEC[nm].path, 'impl<T>%s<T>' % nm, 'unit_' + f,
                   C(ensures=['res.%s.v@ == %dreal' % (g, 1 if g == f else 0) for g in VEC[nm].fields]))
    all_l = {}
    lsd = {}
    for deg in (2, 3):
        ls = curve_lemmas(deg)
        lsd[deg] = ls
        for lm in ls:
            all_l[lm.name] = lm
        for dim in (2, 3):
            cv = Curve(deg, dim)
            for lm in add_curve(u, cv):
                all_l[lm.name] = lm
            add_theorems(u, cv, ls)
    lc = circle_lemma()
    lp = c16.pos_root_lemma()
    all_l[lc.name] = lc
    all_l[lp.name] = lp
    all_l['lemma_lerp_precise'] = opscore.lerp_lemma()
    for dim in (2, 3):
        add_conversions(u, dim)
        add_more_conversions(u, dim)
        add_conv_theorems(u, dim, lsd[2], lsd[3], lc)
    for lm in all_l.values():
        if lm.name != 'lemma_lerp_precise':
            u.add_root(lm.verus_text('C14'))
    p.lemmas += list(all_l.values())
    for deg in (2, 3):
        um, lm = mat_unit(exp, 'c14_mat%d' % deg, deg, lsd)
        p.add_unit('c14_mat%d' % deg, um, ['ops', 'vec', 'quaternion', 'transform', 'mat', 'geom', 'bezier'])
        p.lemmas += lm
    p.add_unit('c14', u, ['ops', 'vec', 'quaternion', 'transform', 'mat', 'geom', 'bezier'])
    return p
