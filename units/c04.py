"""C04 — rotation builders yield proper right-handed rotations, consistent across types."""
import driver
import matcore
import rotcore
import veccore
import expr as X
import lemma as L
from expr import const, var
from extract import Contract as C
from sym import SM, SV, leaf
from common import vec_unit
from shapes import VEC, MATS, mat
from matcore import thm_fn, lemma_args, eq_all, veq


def unit_vec_types(u):
    for nm in ('Vec2', 'Vec3', 'Vec4'):
        veccore.add_spatial_basic(u, VEC[nm])
    sh = VEC['Vec3']
    for k, f in enumerate('xyz'):
        u.take(sh.path, 'impl<T>Vec3<T>', 'unit_' + f,
               C(ensures=['res.%s.v@ == %dreal' % (g, 1 if g == f else 0) for g in sh.fields]))
    sh4 = VEC['Vec4']
    for k, f in enumerate('xyzw'):
        u.take(sh4.path, 'impl<T>Vec4<T>', 'unit_' + f,
               C(ensures=['res.%s.v@ == %dreal' % (g, 1 if g == f else 0) for g in sh4.fields]))


def lemmas_axis(n, k):
    """orthogonality / det / handedness of the coordinate-axis rotation, in c, s with c^2+s^2 = 1"""
    c, s = var('c'), var('s')
    R = rotcore.rot_axis_spec(n, k, c, s)
    I = SM.identity(n)
    name = 'lemma_rot%d_%s' % (n, 'xyz'[k])
    return L.Lemma(name, [c, s], [(c * c + s * s).eq(1)],
                   (R.T() @ R).eqs(I) + [R.det().eq(1)],
                   doc='R^T R = I and det R = 1 for the coordinate-axis rotation matrix')


def lemma_axis_add(n, k):
    """A = R_k(ca, sa), B = R_k(cb, sb) entry-wise (hypotheses: the constructors' contracts), cab/sab by the addition formulas
    (hypotheses: the trigonometric axioms)  ==>  A*B = R_k(cab, sab) entry-wise.  Matrix entries are lemma parameters, so the
    theorem function needs no nonlinear reasoning of its own."""
    A, B = SM.params('a', n), SM.params('b', n)
    ca, sa, cb, sb, cab, sab = [var(v) for v in ('ca', 'sa', 'cb', 'sb', 'cab', 'sab')]
    RA, RB, RS = rotcore.rot_axis_spec(n, k, ca, sa), rotcore.rot_axis_spec(n, k, cb, sb), rotcore.rot_axis_spec(n, k, cab, sab)
    hy = A.eqs(RA) + B.eqs(RB) + [cab.eq(ca * cb - sa * sb), sab.eq(sa * cb + ca * sb)]
    return L.Lemma('lemma_rot%d_%s_add' % (n, 'xyz'[k]), A.flat() + B.flat() + [ca, sa, cb, sb, cab, sab], hy, (A @ B).eqs(RS),
                   doc='R_k(a) R_k(b) = R_k(a+b) for the coordinate-axis rotation (angle addition)')


def lemmas_rodrigues(n):
    x, y, z, r, c, s = [var(v) for v in ('x', 'y', 'z', 'r', 'c', 's')]
    ax = SV([x / r, y / r, z / r])
    R = rotcore.rodrigues_spec(n, c, s, ax)
    I = SM.identity(n)
    hy = [(c * c + s * s).eq(1), (r * r).eq(x * x + y * y + z * z), r.gt(0)]
    axn = ax.ext(const(0)) if n == 4 else ax
    l1 = L.Lemma('lemma_rodrigues%d_orth' % n, [x, y, z, r, c, s], hy, (R.T() @ R).eqs(I),
                 doc='Rodrigues matrix of a normalised axis is orthogonal')
    l2 = L.Lemma('lemma_rodrigues%d_det_axis' % n, [x, y, z, r, c, s], hy, [R.det().eq(1)] + (R @ axn).eqs(axn),
                 doc='Rodrigues matrix has determinant 1 and fixes its axis')
    return [l1, l2]


def lemma_rodrigues_add(n):
    x, y, z, r, c1, s1, c2, s2 = [var(v) for v in ('x', 'y', 'z', 'r', 'c1', 's1', 'c2', 's2')]
    ax = SV([x / r, y / r, z / r])
    R1, R2 = rotcore.rodrigues_spec(n, c1, s1, ax), rotcore.rodrigues_spec(n, c2, s2, ax)
    R12 = rotcore.rodrigues_spec(n, c1 * c2 - s1 * s2, s1 * c2 + c1 * s2, ax)
    hy = [(r * r).eq(x * x + y * y + z * z), r.gt(0)]
    return L.Lemma('lemma_rodrigues%d_add' % n, [x, y, z, r, c1, s1, c2, s2], hy, (R1 @ R2).eqs(R12),
                   doc='R(a) R(b) = R(a+b) about a common axis (with the angle-addition formulas substituted)')


def lemma_quat_matrix(n):
    x, y, z, r, ch, sh, c, s = [var(v) for v in ('x', 'y', 'z', 'r', 'ch', 'sh', 'c', 's')]
    ax = SV([x / r, y / r, z / r])
    q = rotcore.quat_from_axis_angle(ch, sh, ax)
    Mq = rotcore.mat_from_quat_spec(n, q)
    R = rotcore.rodrigues_spec(n, c, s, ax)
    hy = [(r * r).eq(x * x + y * y + z * z), r.gt(0), (ch * ch + sh * sh).eq(1), c.eq(ch * ch - sh * sh),
          s.eq(const(2) * sh * ch)]
    return L.Lemma('lemma_quat_matrix%d' % n, [x, y, z, r, ch, sh, c, s], hy, Mq.eqs(R),
                   doc='matrix of the quaternion (axis sin(a/2), cos(a/2)) equals the Rodrigues matrix for (a, axis)')


TRIG = ('    let ghost c = cos_r(a.v@); let ghost s = sin_r(a.v@);\n'
        '    proof { axiom_sin_cos(a.v@); }\n')


def add_theorems_axis(u, ms, lemmas):
    n, N = ms.n, ms.name
    T = '%s<R>' % N
    V = ms.vec
    for k in ((2,) if n == 2 else (0, 1, 2)):
        nm = 'xyz'[k]
        lm = lemmas[(n, k)]
        I = SM.identity(n)
        body = TRIG
        body += ('    let m = %s::rotation_%s(a);\n    let mt = m.transposed();\n    let p = mt * m;\n    let d = m.determinant();\n'
                 '    proof { crate::%s(c, s); }\n' % (N, nm, lm.name))
        asserts = eq_all(ms, 'p', I) + ['d.v@ == 1real']
        la = lemmas[('add', n, k)]
        Mu, M2u = SM.of(ms, 'm'), SM.of(ms, 'm2')
        body2 = ('    let m = %s::rotation_%s(a);\n    let m2 = %s::rotation_%s(b);\n    let pr = m * m2;\n    let m3 = %s::rotation_%s(a + b);\n'
                 '    proof { axiom_cos_add(a.v@, b.v@); axiom_sin_add(a.v@, b.v@);\n'
                 '            crate::%s(%s, %s, cos_r(a.v@), sin_r(a.v@), cos_r(b.v@), sin_r(b.v@), cos_r(a.v@ + b.v@), sin_r(a.v@ + b.v@)); }\n'
                 % (N, nm, N, nm, N, nm, la.name, lemma_args(Mu), lemma_args(M2u)))
        asserts2 = ['%s.v@ == %s.v@' % (ms.at('pr', i, j), ms.at('m3', i, j)) for i in range(n) for j in range(n)]
        u.add(ms.path, thm_fn('thm_rotation_%s_add_%s%d' % (nm, ms.layout, n), ['a: R', 'b: R'], [], body2, asserts2, 'C04'))
        # handedness: the next axis (cyclically) turns towards the one after it
        i, j = [(1, 2), (2, 0), (0, 1)][k] if n > 2 else (0, 1)
        ev = [V.lit(['R::one()' if q == t else 'R::zero()' for q in range(n)]) for t in range(n)]
        body += '    let e = %s;\n    let img = m * e;\n' % ev[i]
        for q in range(n):
            asserts.append('img.%s.v@ == %s' % (V.fields[q], 'c' if q == i else ('s' if q == j else '0real')))
        if n > 2:
            body += '    let ea = %s;\n    let fixed = m * ea;\n' % ev[k]
            for q in range(n):
                asserts.append('fixed.%s.v@ == %dreal' % (V.fields[q], 1 if q == k else 0))
        u.add(ms.path, thm_fn('thm_rotation_%s_%s%d' % (nm, ms.layout, n), ['a: R', 'b: R'], [], body, asserts, 'C04'))


AXIS = ('    let ghost n2 = axis.x.v@ * axis.x.v@ + axis.y.v@ * axis.y.v@ + axis.z.v@ * axis.z.v@;\n'
        '    let ghost r = sqrt_r(n2);\n'
        '    proof { axiom_sqrt(n2); assert(r * r == n2); assert(r > 0real) by { if r == 0real { assert(r * r == 0real); } } }\n')


def add_theorems_3d(u, ms, lem):
    n, N = ms.n, ms.name
    V = ms.vec
    I = SM.identity(n)
    l_orth, l_da = lem['rod'][n]
    l_add = lem['add'][n]
    args = 'axis.x.v@, axis.y.v@, axis.z.v@, r, c, s'
    body = TRIG + AXIS
    body += ('    let m = %s::rotation_3d(a, axis);\n    let mt = m.transposed();\n    let p = mt * m;\n    let d = m.determinant();\n'
             '    let nv = axis.normalized();\n    let av = %s;\n    let fixed = m * av;\n'
             '    let m2 = %s::rotation_3d(b, axis);\n    let pr = m * m2;\n    let m3 = %s::rotation_3d(a + b, axis);\n'
             '    proof { crate::%s(%s); crate::%s(%s);\n'
             '            axiom_cos_add(a.v@, b.v@); axiom_sin_add(a.v@, b.v@);\n'
             '            crate::%s(axis.x.v@, axis.y.v@, axis.z.v@, r, c, s, cos_r(b.v@), sin_r(b.v@)); }\n'
             % (N, 'nv' if n == 3 else 'Vec4::new(nv.x, nv.y, nv.z, R::zero())', N, N,
                l_orth.name, args, l_da.name, args, l_add.name))
    asserts = eq_all(ms, 'p', I) + ['d.v@ == 1real']
    asserts += ['fixed.%s.v@ == av.%s.v@' % (f, f) for f in V.fields]
    asserts += ['%s.v@ == %s.v@' % (ms.at('pr', i, j), ms.at('m3', i, j)) for i in range(n) for j in range(n)]
    u.add(ms.path, thm_fn('thm_rotation_3d_%s%d' % (ms.layout, n), ['a: R', 'b: R', 'axis: Vec3<R>'],
                          ['axis.x.v@ * axis.x.v@ + axis.y.v@ * axis.y.v@ + axis.z.v@ * axis.z.v@ > 0real'],
                          body, asserts, 'C04'))
    # about the z unit axis the general builder equals rotation_z
    body = TRIG + ('    let ez = Vec3::unit_z();\n    let m = %s::rotation_3d(a, ez);\n    let mz = %s::rotation_z(a);\n'
                   '    proof { lemma_sqrt_one(); }\n' % (N, N))
    asserts = ['%s.v@ == %s.v@' % (ms.at('m', i, j), ms.at('mz', i, j)) for i in range(n) for j in range(n)]
    u.add(ms.path, thm_fn('thm_rotation_3d_is_z_%s%d' % (ms.layout, n), ['a: R'], [], body, asserts, 'C04'))
    if n == 3:
        # the 3x3 result is the upper-left block of the 4x4 one
        body = ('    let m3 = Mat3::rotation_3d(a, axis);\n    let m4 = Mat4::rotation_3d(a, axis);\n    let b3 = Mat3::from(m4);\n')
        m4s = mat(4, ms.layout)
        asserts = ['%s.v@ == %s.v@' % (ms.at('m3', i, j), m4s.at('m4', i, j)) for i in range(3) for j in range(3)]
        asserts += ['%s.v@ == %s.v@' % (ms.at('m3', i, j), ms.at('b3', i, j)) for i in range(3) for j in range(3)]
        u.add(ms.path, thm_fn('thm_rotation_3d_block_%s' % ms.layout, ['a: R', 'axis: Vec3<R>'], [], body, asserts, 'C04'))
    # quaternion route == direct route
    lq = lem['quat'][n]
    body = TRIG + AXIS
    body += ('    let ghost h = a.v@ / 2real;\n'
             '    proof { axiom_sin_cos(h); axiom_cos_add(h, h); axiom_sin_add(h, h); assert(h + h == a.v@);\n'
             '            crate::%s(axis.x.v@, axis.y.v@, axis.z.v@, r, cos_r(h), sin_r(h), c, s); }\n'
             '    let q = Quaternion::rotation_3d(a, axis);\n    let mq = %s::from(q);\n    let m = %s::rotation_3d(a, axis);\n'
             % (lq.name, N, N))
    asserts = ['%s.v@ == %s.v@' % (ms.at('mq', i, j), ms.at('m', i, j)) for i in range(n) for j in range(n)]
    u.add(ms.path, thm_fn('thm_quat_matrix_%s%d' % (ms.layout, n), ['a: R', 'axis: Vec3<R>'],
                          ['axis.x.v@ * axis.x.v@ + axis.y.v@ * axis.y.v@ + axis.z.v@ * axis.z.v@ > 0real'],
                          body, asserts, 'C04'))


def build(exp, name, sizes, lem):
    shapes = [VEC['Vec2'], VEC['Vec3'], VEC['Vec4']]
    u = vec_unit(exp, name, shapes, mats=MATS)
    veccore.add_conversions(u, only=('Vec2', 'Vec3', 'Vec4'))
    unit_vec_types(u)
    rotcore.add_quat_core(u)
    rotcore.add_quat_rotations(u)
    if 3 in sizes:
        for layout in ('rows', 'cols'):
            m4 = mat(4, layout)
            matcore.add_mat_struct(u, m4)
            rotcore.add_mat_from_quat(u, m4)
            rotcore.add_mat_rotations(u, m4, only=('rotation_3d',))
        matcore.add_mat_size_conversions(u, (3, 4))
    for ms in MATS:
        if ms.n not in sizes:
            continue
        matcore.add_mat_struct(u, ms)
        matcore.add_mat_mul(u, ms)
        matcore.add_determinant_any(u, ms)
        rotcore.add_mat_rotations(u, ms)
        add_theorems_axis(u, ms, lem['axis'])
        if ms.n >= 3:
            rotcore.add_mat_from_quat(u, ms)
            add_theorems_3d(u, ms, lem)
    return u


def plan(exp, tier):
    p = driver.Plan('C04')
    lem = dict(axis={}, rod={}, add={}, quat={})
    for n in (2, 3, 4):
        for k in ((2,) if n == 2 else (0, 1, 2)):
            lem['axis'][(n, k)] = lemmas_axis(n, k)
            lem['axis'][('add', n, k)] = lemma_axis_add(n, k)
        if n >= 3:
            lem['rod'][n] = lemmas_rodrigues(n)
            lem['add'][n] = lemma_rodrigues_add(n)
            lem['quat'][n] = lemma_quat_matrix(n)
    all_l = list(lem['axis'].values()) + [x for v in lem['rod'].values() for x in v] + list(lem['add'].values()) \
        + list(lem['quat'].values())
    lem_shape = matcore.det4_shape_lemma()
    all_l.append(lem_shape)
    for nm, sizes in (('c04_mat4', (4,)), ('c04_mat3', (3,)), ('c04_mat2', (2,))):
        u = build(exp, nm, sizes, lem)
        for lm in all_l:
            u.add_root(lm.verus_text('C04'))
        if 2 in sizes:
            # Vec2::rotated_z agrees with Mat2::rotation_z * v
            sh = VEC['Vec2']
            c = X.app('cos_r', leaf('angle_radians.v@'))
            s = X.app('sin_r', leaf('angle_radians.v@'))
            v = SV.of(sh, 'self')
            R = rotcore.rot_axis_spec(2, 2, c, s)
            u.take(sh.path, 'impl<T>Vec2<T>', 'rotated_z', C(ensures=veq(sh, 'res', R @ v)))
            vo = SV.of(sh, 'old(self)')
            u.take(sh.path, 'impl<T>Vec2<T>', 'rotate_z', C(ret=None, ensures=veq(sh, 'final(self)', R @ vo)))
        p.add_unit(nm, u, ['vec', 'quaternion', 'mat'])
    p.lemmas += all_l
    p.not_decided += ['rotation_from_to_3d (covered under C05)', 'floating-point rounding of sin/cos (exact real trigonometric functions assumed: sin^2+cos^2=1, angle addition)']
    p.assumptions += ['axioms on uninterpreted sin_r/cos_r: sin^2+cos^2 = 1, angle-addition formulas (pre::axiom_sin_cos, axiom_cos_add, axiom_sin_add)',
                      'axiom on sqrt_r: x >= 0 ==> sqrt_r(x) >= 0 && sqrt_r(x)^2 == x']
    return p
