"""C17 — clamp, range test, wrap, ping-pong and angle difference obey their range laws (Kani + Verus float part)."""
import driver
import opscore
import kani_driver
import lemma as L
import expr as X
from expr import var, const
from kani_common import kani_plan
from common import vec_unit
from shapes import VEC
from matcore import thm_fn

ONE, ZERO = const(1), const(0)


def wrap_lemma():
    v, u, fl = var('v'), var('u'), var('fl')
    return L.Lemma('lemma_wrap_range', [v, u, fl], [u.gt(0), fl.le(v / u), (v / u).lt(fl + ONE)],
                   [(v - fl * u).ge(0), (v - fl * u).lt(u)], doc='v - floor(v/u) u lies in [0, u)')


def float_unit(exp):
    """the f32 expansion of Clamp / IsBetween / Wrap with f32 := exact scalar, plus the range laws as theorem functions"""
    u = vec_unit(exp, 'c17_float', [VEC['Vec2'], VEC['Vec3'], VEC['Vec4']])
    opscore.add_traits(u, ('Clamp', 'IsBetween', 'Wrap'))
    opscore.add_float_impls(u, ('Clamp', 'IsBetween', 'Wrap'))
    lw = wrap_lemma()
    u.add_root(lw.verus_text('C17'))
    cl = '(if v.v@ < lo.v@ { lo.v@ } else if v.v@ > hi.v@ { hi.v@ } else { v.v@ })'
    body = ('    let c = v.clamped(lo, hi);\n    let cc = c.clamped(lo, hi);\n    let b = v.is_between(lo, hi);\n    let c01 = v.clamped01();\n'
            '    let cm = v.clamped_minus1_1();\n')
    u.add('ops', thm_fn('thm_clamp_laws', ['v: R', 'lo: R', 'hi: R'], ['lo.v@ <= hi.v@'], body,
                        ['c.v@ == %s' % cl, 'cc.v@ == c.v@', 'b == (c.v@ == v.v@)', 'lo.v@ <= c.v@ <= hi.v@',
                         '0real <= c01.v@ <= 1real', '-1real <= cm.v@ <= 1real'], 'C17'))
    body = ('    proof { axiom_floor(v.v@ / up.v@); crate::%s(v.v@, up.v@, floor_r(v.v@ / up.v@));\n'
            '            axiom_floor(v.v@ / (up.v@ + up.v@)); crate::%s(v.v@, up.v@ + up.v@, floor_r(v.v@ / (up.v@ + up.v@))); }\n'
            '    let w = v.wrapped(up);\n    let pp = v.pingpong(up);\n' % (lw.name, lw.name))
    u.add('ops', thm_fn('thm_wrap_laws', ['v: R', 'up: R'], ['up.v@ > 0real'], body,
                        ['0real <= w.v@ < up.v@', 'w.v@ == v.v@ - floor_r(v.v@ / up.v@) * up.v@', '0real <= pp.v@ <= up.v@'], 'C17'))
    body = ('    proof { axiom_floor((v.v@ - lo.v@) / (hi.v@ - lo.v@)); crate::%s(v.v@ - lo.v@, hi.v@ - lo.v@, floor_r((v.v@ - lo.v@) / (hi.v@ - lo.v@))); }\n'
            '    let w = v.wrapped_between(lo, hi);\n' % lw.name)
    u.add('ops', thm_fn('thm_wrap_between_laws', ['v: R', 'lo: R', 'hi: R'], ['lo.v@ < hi.v@', 'lo.v@ >= 0real', 'hi.v@ > 0real'], body,
                        ['lo.v@ <= w.v@ < hi.v@', 'w.v@ == v.v@ - floor_r((v.v@ - lo.v@) / (hi.v@ - lo.v@)) * (hi.v@ - lo.v@)'], 'C17'))
    return u, [lw]


def plan(exp, tier):
    p = kani_plan('C17', 'c17', tier)
    u, lems = float_unit(exp)
    p.add_unit('c17_float', u, ['ops', 'vec'])
    p.lemmas += lems
    p.assumptions += ['floor_r is uninterpreted with floor_r(x) <= x < floor_r(x) + 1 (pre::axiom_floor); its integrality is not used']
    p.not_decided += ['f64 Wrap (same macro arm as f32; only f32 is instantiated)', 'wide (32/64-bit) integer wrap with fully symbolic bounds: Kani gives no verdict in time; covered with constant bound lists and small-value domains (see the bounded list)',
                      'delta_angle / delta_angle_degrees in exact arithmetic (Verus): generic default methods over From<Bound>; decided by Kani on f32/i32 only']
    return p
