"""C19 — vector kind/size conversions, swizzles, shuffles, colour helpers keep elements."""
import driver
import matcore
import shufcore
import swizcore
import affcore
import veccore
import expr as X
from extract import Contract as C
from sym import SM, SV, leaf
from common import vec_unit
from shapes import VEC, VECS, MATS, mat
from matcore import thm_fn, eq_all, veq

V2, V3, V4 = VEC['Vec2'], VEC['Vec3'], VEC['Vec4']


def add_theorems(u):
    # embedding a smaller matrix and vector commutes with multiplication (directions: w = 0, points: w = 1)
    for layout in ('rows', 'cols'):
        m3, m4 = mat(3, layout), mat(4, layout)
        body = ('    let m4 = Mat4::from(m);\n    let d = m4 * Vec4::from_direction(v);\n    let p = m4 * Vec4::from_point(v);\n'
                '    let mv = m * v;\n    let d2 = Vec4::from_direction(mv);\n    let p2 = Vec4::from_point(mv);\n'
                '    let back = Mat3::from(m4);\n')
        asserts = ['d.%s.v@ == d2.%s.v@' % (f, f) for f in 'xyzw'] + ['p.%s.v@ == p2.%s.v@' % (f, f) for f in 'xyzw']
        asserts += ['%s.v@ == %s.v@' % (m3.at('back', i, j), m3.at('m', i, j)) for i in range(3) for j in range(3)]
        u.add(m4.path, thm_fn('thm_embed_commutes_%s' % layout, ['m: Mat3<R>', 'v: Vec3<R>'], [], body, asserts, 'C19'))
    # inverted_rgb is an involution that keeps alpha
    body = '    let i1 = c.inverted_rgb();\n    let i2 = i1.inverted_rgb();\n    let r3 = c3.inverted_rgb().inverted_rgb();\n'
    asserts = ['i2.%s.v@ == c.%s.v@' % (f, f) for f in 'rgba'] + ['i1.a.v@ == c.a.v@'] + ['r3.%s.v@ == c3.%s.v@' % (f, f) for f in 'rgb']
    u.add(VEC['Rgba'].path, thm_fn('thm_inverted_rgb_involution', ['c: Rgba<R>', 'c3: Rgb<R>'], [], body, asserts, 'C19'))
    # the 4-lane shuffle picks (lo[a], lo[b], hi[c], hi[d]) with indices modulo 4, for every index tuple
    body = ('    proof { crate::vec::lemma_sm_new(a, b, c, d); }\n'
            '    let r = Vec4::shuffle_lo_hi(lo, hi, (a, b, c, d));\n    let s = lo.shuffled((a, b, c, d));\n'
            '    let r1 = Vec4::shuffle_lo_hi(lo, hi, a);\n    proof { crate::vec::lemma_sm_new(a, a, a, a); }\n')
    asserts = ['r.x == lane4(lo, (a % 4) as usize)', 'r.y == lane4(lo, (b % 4) as usize)', 'r.z == lane4(hi, (c % 4) as usize)',
               'r.w == lane4(hi, (d % 4) as usize)', 's.x == lane4(lo, (a % 4) as usize)', 's.w == lane4(lo, (d % 4) as usize)',
               'r1.x == lane4(lo, (a % 4) as usize)', 'r1.w == lane4(hi, (a % 4) as usize)']
    u.add(V4.path, thm_fn('thm_shuffle_all_masks', ['lo: Vec4<u64>', 'hi: Vec4<u64>', 'a: usize', 'b: usize', 'c: usize', 'd: usize'],
                          [], body, asserts, 'C19'))


def plan(exp, tier):
    p = driver.Plan('C19')
    u = vec_unit(exp, 'c19', list(VECS), mats=[m for m in MATS if m.n >= 3])
    done = veccore.add_conversions(u)
    shufcore.add_shuffle_mask(u)
    shufcore.add_vec4_shuffles(u)
    shufcore.add_vec4_shuffles(u, VEC['Rgba'])
    swizcore.add_swizzles(u)
    swizcore.add_units_and_directions(u)
    affcore.add_point_ctors(u)
    swizcore.add_colours(u)
    for ms in MATS:
        if ms.n >= 3:
            matcore.add_mat_struct(u, ms)
            matcore.add_mat_mul(u, ms)
    matcore.add_mat_size_conversions(u, (3, 4))
    add_theorems(u)
    p.add_unit('c19', u, ['vec', 'mat'])
    p.notes.append('conversion pairs under contract: %s' % ', '.join('%s->%s' % d for d in done))
    p.not_decided += ['ColorComponent::full for the primitive types (constants T::MAX / 1.0): checked by Kani harnesses in /verif/kani/c19 when present',
                      'From<[T; N]> array conversions (unsafe): proved by Kani under C18']
    return p
