"""C19 — vector kind/size conversions, swizzles, shuffles, colour helpers keep elements."""
import driver
import matcore
import shufcore
import swizcore
import affcore
import veccore
import expr as X
from extract import Contract as C
from sym import SM, SV, leaf
from common import vec_unit
from shapes import VEC, VECS, MATS, mat
from matcore import thm_fn, eq_all, veq

V2, V3, V4 = VEC['Vec2'], VEC['Vec3'], VEC['Vec4']


def add_theorems(u):
    # embedding a smaller matrix and vector commutes with multiplication (directions: w = 0, points: w = 1)
    for layout in ('rows', 'cols'):
        m3, m4 = mat(3, layout), mat(4, layout)
        body = ('    let m4 = Mat4::from(m);\n    let d = m4 * Vec4::from_direction(v);\n    let p = m4 * Vec4::from_point(v);\n'
                '    let mv = m * v;\n    let d2 = Vec4::from_direction(mv);\n    let p2 = Vec4::from_point(mv);\n'
                '    let back = Mat3::from(m4);\n')
        asserts = ['d.%s.v@ == d2.%s.v@' % (f, f) for f in 'xyzw'] + ['p.%s.v@ == p2.%s.v@' % (f, f) for f in 'xyzw']
        asserts += ['%s.v@ == %s.v@' % (m3.at('back', i, j), m3.at('m', i, j)) for i in range(3) for j in range(3)]
        u.add(m4.path, thm_fn('thm_embed_commutes_%s' % layout, ['m: Mat3<R>', 'v: Vec3<R>'], [], body, asserts, 'C19'))
        m2 = mat(2, layout)
        body = ('    let m3 = Mat3::from(m);\n    let m4 = Mat4::from(m);\n    let via = Mat4::from(m3);\n    let mv = m * v;\n'
                '    let r3 = m3 * Vec3::new(v.x, v.y, s);\n    let r4 = m4 * Vec4::new(v.x, v.y, s, t);\n'
                '    let b2 = Mat2::from(m4);\n    let b2b = Mat2::from(m3);\n')
        asserts = ['r3.x.v@ == mv.x.v@ && r3.y.v@ == mv.y.v@ && r3.z.v@ == s.v@',
                   'r4.x.v@ == mv.x.v@ && r4.y.v@ == mv.y.v@ && r4.z.v@ == s.v@ && r4.w.v@ == t.v@']
        asserts += ['%s.v@ == %s.v@' % (m4.at('via', i, j), m4.at('m4', i, j)) for i in range(4) for j in range(4)]
        asserts += ['%s.v@ == %s.v@ && %s.v@ == %s.v@' % (m2.at('b2', i, j), m2.at('m', i, j), m2.at('b2b', i, j), m2.at('m', i, j))
                    for i in range(2) for j in range(2)]
        u.add(m4.path, thm_fn('thm_embed2_commutes_%s' % layout, ['m: Mat2<R>', 'v: Vec2<R>', 's: R', 't: R'], [], body, asserts, 'C19'))
    # inverted_rgb is an involution that keeps alpha
    body = '    let i1 = c.inverted_rgb();\n    let i2 = i1.inverted_rgb();\n    let r3 = c3.inverted_rgb().inverted_rgb();\n'
    asserts = ['i2.%s.v@ == c.%s.v@' % (f, f) for f in 'rgba'] + ['i1.a.v@ == c.a.v@'] + ['r3.%s.v@ == c3.%s.v@' % (f, f) for f in 'rgb']
    u.add(VEC['Rgba'].path, thm_fn('thm_inverted_rgb_involution', ['c: Rgba<R>', 'c3: Rgb<R>'], [], body, asserts, 'C19'))
    # the 4-lane shuffle picks (lo[a], lo[b], hi[c], hi[d]) with indices modulo 4, for every index tuple
    body = ('    proof { crate::vec::lemma_sm_new(a, b, c, d); }\n'
            '    let r = Vec4::shuffle_lo_hi(lo, hi, (a, b, c, d));\n    let s = lo.shuffled((a, b, c, d));\n'
            '    let r1 = Vec4::shuffle_lo_hi(lo, hi, a);\n    proof { crate::vec::lemma_sm_new(a, a, a, a); }\n')
    asserts = ['r.x == lane4(lo, (a % 4) as usize)', 'r.y == lane4(lo, (b % 4) as usize)', 'r.z == lane4(hi, (c % 4) as usize)',
               'r.w == lane4(hi, (d % 4) as usize)', 's.x == lane4(lo, (a % 4) as usize)', 's.w == lane4(lo, (d % 4) as usize)',
               'r1.x == lane4(lo, (a % 4) as usize)', 'r1.w == lane4(hi, (a % 4) as usize)']
    u.add(V4.path, thm_fn('thm_shuffle_all_masks', ['lo: Vec4<u64>', 'hi: Vec4<u64>', 'a: usize', 'b: usize', 'c: usize', 'd: usize'],
                          [], body, asserts, 'C19'))


def plan(exp, tier):
    p = driver.Plan('C19')
    u = vec_unit(exp, 'c19', list(VECS), mats=list(MATS))
    done = veccore.add_conversions(u)
    shufcore.add_shuffle_mask(u)
    shufcore.add_vec4_shuffles(u)
    shufcore.add_vec4_shuffles(u, VEC['Rgba'])
    swizcore.add_swizzles(u)
    swizcore.add_units_and_directions(u)
    affcore.add_point_ctors(u)
    swizcore.add_colours(u)
    for ms in MATS:
        matcore.add_mat_struct(u, ms)
        matcore.add_mat_mul(u, ms)
    matcore.add_mat_size_conversions(u, (2, 3, 4))
    add_theorems(u)
    p.add_unit('c19', u, ['vec', 'mat'])
    p.notes.append('conversion pairs under contract: %s' % ', '.join('%s->%s' % d for d in done))
    import kani_driver
    p.kani = kani_driver.load_specs('c19')
    for sp in p.kani:
        if sp.get('bounded'):
            p.bounded.append('%s: %s' % (sp['harness'], sp['bounded']))
    p.assumptions += ['Kani/CBMC (ColorComponent::full and the colour helpers at concrete component types): bit-precise machine semantics of the '
                      'instantiations named in each harness domain']
    p.not_decided += ['colour helpers at component types i16/i64/u64/f64: ColorComponent::full is proved for them (Kani), the helpers themselves are '
                      'generic in T (proved once for T := R by Verus) and instantiated by Kani at u8/u16/u32/i8/f32 and the Wrapping forms',
                      'From<[T; N]> array conversions (unsafe): proved by Kani under C18']
    return p
