"""C06 — determinants are correct and the inverse functions really invert."""
import driver
import matcore
import shufcore
import expr as X
import lemma as L
from extract import Contract as C
from sym import SM
from common import vec_unit
from shapes import VEC, MATS, mat


def plan(exp, tier):
    p = driver.Plan('C06')
    u = vec_unit(exp, 'c06', [VEC['Vec2'], VEC['Vec3'], VEC['Vec4']], mats=MATS)
    shufcore.add_shuffle_mask(u)
    shufcore.add_vec4_shuffles(u)
    shufcore.add_mat2_helpers(u)
    Pm = SM.params('m', 4)
    lem_shape = L.Lemma('lemma_det4_shape', Pm.flat(), [], [matcore.det4_code_shape(Pm).eq(Pm.det())],
                        doc='the 24 signed products written in mat.rs equal the cofactor (Leibniz) expansion')
    u.add_root(lem_shape.verus_text('C06'))
    p.lemmas.append(lem_shape)
    for ms in MATS:
        matcore.add_mat_struct(u, ms)
        matcore.add_mat_mul(u, ms)
        # the in-place transposition ("invariant under transposition" is stated for both forms)
        u.take(ms.path, 'impl<T>%s<T>' % ms.name, 'transpose', C(ret=None, ensures=[
            '%s == %s' % (ms.at('final(self)', i, j), ms.at('old(self)', j, i)) for i in range(ms.n) for j in range(ms.n)]), mode='G')
        if ms.n < 4:
            matcore.add_determinant(u, ms)
        else:
            A = SM.of(ms, 'self')
            u.take(ms.path, 'impl<T>Mat4<T>', 'determinant', C(
                ensures=['res.v@ == ' + X.verus(A.det())],
                prologue='proof { crate::lemma_det4_shape(%s); }' % matcore.lemma_args(A)))
            ls, pro = matcore.inverted4_lemmas(ms)
            p.lemmas += ls
            for lm in ls:
                u.add_root(lm.verus_text('C06'))
            matcore.add_inverted(u, ms, prologue='proof { crate::vec::lemma_sm_new_all(); } ' + pro)
            matcore.add_affine_inverses(u, ms)
    p.lemmas += matcore.c06_theorems(u)
    p.add_unit('c06', u, ['vec', 'mat'])
    p.notes.append('inverted4_mirror / det4_code_shape are proof artifacts mirroring mat.rs at callee-contract granularity; '
                   'Verus checks them against the real bodies, z3 proves them equal to adj/det and the cofactor expansion')
    p.not_decided += ['inverted_affine_transform on matrices whose squared column lengths are within epsilon of zero (the code substitutes 1 there; '
                      'contracted literally, no inverse theorem)',
                      'the right-inverse half of the rigid theorem takes R R^T = I as a hypothesis next to R^T R = I (equivalent for square R; keeps the goal polynomial)']
    return p
