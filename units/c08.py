"""C08 — projection matrices map the view volume onto the canonical clip volume."""
import driver
import matcore
import projcore as PC
import expr as X
import lemma as L
from expr import const, var, app
from extract import Contract as C
from sym import SM, SV, leaf
from common import vec_unit
from shapes import VEC, MATS, mat
from matcore import thm_fn, lemma_args, eq_all, veq

ONE, ZERO, TWO = const(1), const(0), const(2)
PL = ('left', 'right', 'bottom', 'top', 'near', 'far')


def goals_on(ms, mname, l, r, b, t, n, f, h, mode, perspective):
    Mu = SM.of(ms, mname)
    return [X.verus(g) for g in PC.corner_goals(Mu, l, r, b, t, n, f, h, mode, perspective)]


def add_theorems(u, ms, lem, extra):
    pl = PC.planes('o')
    l, r, b, t, n, f = pl
    args = ', '.join('o.%s.v@' % x for x in PL)
    req_o = ['o.right.v@ != o.left.v@', 'o.top.v@ != o.bottom.v@', 'o.far.v@ != o.near.v@']
    for hn, h in PC.HANDS.items():
        for mode in ('zo', 'no'):
            nm = 'orthographic_%s_%s' % (hn, mode)
            body = '    let m = Mat4::%s(o);\n    proof { crate::%s(%s); }\n' % (nm, lem['ortho_%s_%s' % (hn, mode)].name, args)
            u.add(ms.path, thm_fn('thm_%s_%s' % (nm, ms.layout), ['o: FrustumPlanes<R>'], req_o, body,
                                  goals_on(ms, 'm', l, r, b, t, n, f, h, mode, False), 'C08'))
            nm = 'frustum_%s_%s' % (hn, mode)
            body = '    let m = Mat4::%s(o);\n    proof { crate::%s(%s); }\n' % (nm, lem['frustum_%s_%s' % (hn, mode)].name, args)
            Mu = SM.of(ms, 'm')
            px, py, pz = leaf('p.x.v@'), leaf('p.y.v@'), leaf('p.z.v@')
            front = X.verus((Mu @ SV([px, py, pz, ONE]))[3].eq(const(h) * pz))
            u.add(ms.path, thm_fn('thm_%s_%s' % (nm, ms.layout), ['o: FrustumPlanes<R>', 'p: Vec3<R>'],
                                  req_o + ['o.near.v@ != 0real'], body,
                                  goals_on(ms, 'm', l, r, b, t, n, f, h, mode, True) + [front], 'C08'))
    # left-handed == right-handed composed with the z mirror; perspective == frustum of the implied symmetric planes
    lp = extra['persp']
    for mode in ('zo', 'no'):
        body = ('    let a = Mat4::frustum_lh_%s(o);\n    let c = Mat4::frustum_rh_%s(o);\n'
                '    let oa = Mat4::orthographic_lh_%s(o);\n    let oc = Mat4::orthographic_rh_%s(o);\n' % (mode, mode, mode, mode))
        asserts = []
        for i in range(4):
            for j in range(4):
                sg = '-' if j == 2 else ''
                asserts.append('%s.v@ == %s%s.v@' % (ms.at('a', i, j), sg, ms.at('c', i, j)))
                asserts.append('%s.v@ == %s%s.v@' % (ms.at('oa', i, j), sg, ms.at('oc', i, j)))
        u.add(ms.path, thm_fn('thm_lh_is_mirrored_rh_%s_%s' % (mode, ms.layout), ['o: FrustumPlanes<R>'], req_o, body, asserts, 'C08'))
        for hn, h in PC.HANDS.items():
            pre = ['fov.v@ > 0real', 'fov.v@ < pi_r() + pi_r()', 'asp.v@ > 0real', 'near.v@ > 0real', 'far.v@ > near.v@',
                   'tan_r(fov.v@ / 2real) > 0real']
            body = ('    let two = R::one() + R::one();\n    let top = near * (fov / two).tan();\n    let right = top * asp;\n'
                    '    let o = FrustumPlanes { left: -right, right: right, bottom: -top, top: top, near: near, far: far };\n'
                    '    let m = Mat4::perspective_%s_%s(fov, asp, near, far);\n    let fm = Mat4::frustum_%s_%s(o);\n'
                    '    proof { crate::%s(near.v@, far.v@, tan_r(fov.v@ / 2real), asp.v@); }\n'
                    % (hn, mode, hn, mode, lp.name))
            asserts = ['%s.v@ == %s.v@' % (ms.at('m', i, j), ms.at('fm', i, j)) for i in range(4) for j in range(4)]
            u.add(ms.path, thm_fn('thm_perspective_is_frustum_%s_%s_%s' % (hn, mode, ms.layout),
                                  ['fov: R', 'asp: R', 'near: R', 'far: R'], pre, body, asserts, 'C08'))
            # perspective_fov == perspective with aspect = width / height
            lf = extra['fov']
            pre2 = ['fov.v@ > 0real', 'fov.v@ < pi_r() + pi_r()', 'w.v@ > 0real', 'h.v@ > 0real', 'near.v@ > 0real',
                    'far.v@ > near.v@', 'sin_r(fov.v@ / 2real) != 0real', 'cos_r(fov.v@ / 2real) != 0real']
            body = ('    let m = Mat4::perspective_fov_%s_%s(fov, w, h, near, far);\n'
                    '    let pm = Mat4::perspective_%s_%s(fov, w / h, near, far);\n'
                    '    proof { axiom_tan(fov.v@ / 2real);\n'
                    '            crate::%s(cos_r(fov.v@ / 2real), sin_r(fov.v@ / 2real), tan_r(fov.v@ / 2real), w.v@, h.v@); }\n'
                    % (hn, mode, hn, mode, lf.name))
            asserts = ['%s.v@ == %s.v@' % (ms.at('m', i, j), ms.at('pm', i, j)) for i in range(4) for j in range(4)]
            u.add(ms.path, thm_fn('thm_perspective_fov_%s_%s_%s' % (hn, mode, ms.layout),
                                  ['fov: R', 'w: R', 'h: R', 'near: R', 'far: R'], pre2, body, asserts, 'C08'))
    # infinite perspective: near plane corners reach x,y = +-1 and depth -1; depth stays below 1 for every d > 0
    li = extra['inf']
    for hn, h in PC.HANDS.items():
        pre = ['fov.v@ > 0real', 'fov.v@ < pi_r() + pi_r()', 'asp.v@ > 0real', 'near.v@ > 0real', 'tan_r(fov.v@ / 2real) > 0real',
               'd.v@ > 0real']
        body = ('    let m = Mat4::infinite_perspective_%s(fov, asp, near);\n'
                '    let ghost th = tan_r(fov.v@ / 2real);\n'
                '    proof { crate::%s(near.v@, th, asp.v@); }\n' % (hn, li.name))
        Mu = SM.of(ms, 'm')
        nn, th, asp, d = leaf('near.v@'), var('th'), leaf('asp.v@'), leaf('d.v@')
        top = nn * th
        right = top * asp
        asserts = []
        for sx in (-1, 1):
            for sy in (-1, 1):
                v = Mu @ SV([const(sx) * right, const(sy) * top, const(h) * nn, ONE])
                asserts += [X.verus(v[3].eq(nn)), X.verus(v[0].eq(const(sx) * v[3])), X.verus(v[1].eq(const(sy) * v[3])),
                            X.verus(v[2].eq(-v[3]))]
        vd = Mu @ SV([ZERO, ZERO, const(h) * d, ONE])
        asserts += [X.verus(vd[3].eq(d)), X.verus(vd[2].lt(vd[3]))]
        u.add(ms.path, thm_fn('thm_infinite_perspective_%s_%s' % (hn, ms.layout), ['fov: R', 'asp: R', 'near: R', 'd: R'],
                              pre, body, asserts, 'C08'))


def extra_lemmas():
    n, f, th, asp = var('n'), var('f'), var('th'), var('asp')
    top = n * th
    right = top * asp
    goals = []
    for hn, h in PC.HANDS.items():
        for mode in ('zo', 'no'):
            A = PC.persp_spec(ONE / (asp * th), ONE / th, n, f, h, mode)
            B = PC.frustum_spec(-right, right, -top, top, n, f, h, mode)
            goals += A.eqs(B)
    lp = L.Lemma('lemma_perspective_is_frustum', [n, f, th, asp],
                 [n.gt(0), th.gt(0), asp.gt(0), (f - n).ne(0), (right - (-right)).ne(0), (top - (-top)).ne(0), (asp * th).ne(0)],
                 goals, doc='perspective(fov, aspect, n, f) == frustum(-r, r, -t, t, n, f) with t = n tan(fov/2), r = t aspect')
    c, s, tn, w, h = var('c'), var('s'), var('tn'), var('w'), var('h')
    lf = L.Lemma('lemma_fov_aspect', [c, s, tn, w, h], [(tn * c).eq(s), s.ne(0), c.ne(0), w.gt(0), h.gt(0),
                                                         tn.ne(0), ((w / h) * tn).ne(0)],
                 [(((c / s) * h) / w).eq(ONE / ((w / h) * tn)), (c / s).eq(ONE / tn)],
                 doc='cot(fov/2) * height / width == 1 / ((width/height) * tan(fov/2))')
    li = L.Lemma('lemma_infinite_near', [n, th, asp], [n.gt(0), th.gt(0), asp.gt(0), (asp * th).ne(0)],
                 [((ONE / (asp * th)) * ((n * th) * asp)).eq(n), ((ONE / th) * (n * th)).eq(n)],
                 doc='the near-plane extents implied by fov/aspect map to +-w')
    return dict(persp=lp, fov=lf, inf=li)


def plan(exp, tier):
    p = driver.Plan('C08')
    lem = PC.projection_lemmas()
    extra = extra_lemmas()
    for layout in ('rows', 'cols'):
        ms = mat(4, layout)
        u = vec_unit(exp, 'c08_' + layout, [VEC['Vec2'], VEC['Vec3'], VEC['Vec4']], mats=[ms])
        matcore.add_mat_struct(u, ms, conv=False)
        matcore.add_mat_index(u, ms)
        PC.add_projections(u, ms)
        add_theorems(u, ms, lem, extra)
        for lm in list(lem.values()) + list(extra.values()):
            u.add_root(lm.verus_text('C08'))
        p.add_unit('c08_' + layout, u, ['vec', 'geom', 'mat'])
    p.lemmas += list(lem.values()) + list(extra.values())
    p.assumptions += ['tan_r * cos_r == sin_r (pre::axiom_tan)',
                      'IndexMut<(usize,usize)> (m[(i,j)] = ..) is assumed here (unsafe as_mut_slice underneath); proved by Kani under C18']
    p.not_decided += ['the limit far -> infinity of the infinite perspective (stated instead: near -> -1 and depth < 1 for every d > 0)',
                      'perspective_fov corners are reached through perspective_fov == perspective(width/height) == frustum(symmetric planes)']
    # IndexMut<(usize,usize)> is an assumed contract of the Verus unit (unsafe slice views); the builders of this property write through it,
    # so its Kani proof on the real code (crate /verif/kani/c03) is part of this check too
    import kani_driver
    p.kani = [sp for sp in kani_driver.load_specs('c03') if 'index_mut' in sp['harness']]
    return p
