"""C13 — axis-aligned boxes and rectangles behave as the point sets they denote."""
import driver
import veccore
import opscore
import geomcore as G
from extract import Contract as C
from common import vec_unit
from shapes import VEC, VECS
from matcore import thm_fn

P = G.P


def inside(B, b, p):
    return ' && '.join('%s < %s.%s.v@ && %s.%s.v@ < %s' % (B.mn(b, i), p, B.ax[i], p, B.ax[i], B.mx(b, i)) for i in range(B.n))


def add_theorems(u, B):
    N, n, V = B.name, B.n, B.vec.name
    T, PT = '%s<R>' % N, '%s<R>' % V
    tag = 'C13'
    l = B.lname
    # union: contains both, and is inside every valid box containing both
    body = ('    let u = a.union(b);\n    let ia = a.contains_point(p);\n    let ib = b.contains_point(p);\n    let iu = u.contains_point(p);\n'
            '    let ca = c.contains_%s(a);\n    let cb = c.contains_%s(b);\n    let cu = c.contains_%s(u);\n' % (l, l, l))
    u.add(P, thm_fn('thm_union_%s' % l, ['a: ' + T, 'b: ' + T, 'c: ' + T, 'p: ' + PT], [B.valid('a'), B.valid('b')], body,
                    ['(ia || ib) ==> iu', '(ca && cb) ==> cu', B.valid('u')], tag))
    # intersection: exactly the common points; invalid iff there is none
    body = ('    let r = a.intersection(b);\n    let ia = a.contains_point(p);\n    let ib = b.contains_point(p);\n    let ir = r.contains_point(p);\n'
            '    let wa = a.contains_point(r.min);\n    let wb = b.contains_point(r.min);\n')
    u.add(P, thm_fn('thm_intersection_%s' % l, ['a: ' + T, 'b: ' + T, 'p: ' + PT], [B.valid('a'), B.valid('b')], body,
                    ['ir == (ia && ib)', '(%s) ==> (wa && wb)' % B.valid('r'), '(!(%s)) ==> !(ia && ib)' % B.valid('r')], tag))
    # containment of a box == every point of it is contained
    body = ('    let c = a.contains_%s(b);\n    let ib = b.contains_point(p);\n    let ia = a.contains_point(p);\n'
            '    let w0 = a.contains_point(b.min);\n    let w1 = a.contains_point(b.max);\n' % l)
    u.add(P, thm_fn('thm_contains_%s' % l, ['a: ' + T, 'b: ' + T, 'p: ' + PT], [B.valid('b')], body,
                    ['(c && ib) ==> ia', '(!c) ==> !(w0 && w1)'], tag))
    # collision == the interiors share a point (positive extents); touching faces do not collide
    mid = ', '.join('R::zero()' for _ in range(n))
    pos = [' && '.join('%s < %s' % (B.mn(x, i), B.mx(x, i)) for i in range(n)) for x in ('a', 'b')]
    gm = ['let ghost m%d = (max_r(%s, %s) + min_r(%s, %s)) / 2real;' % (i, B.mn('a', i), B.mn('b', i), B.mx('a', i), B.mx('b', i))
          for i in range(n)]
    body = '    let c = a.collides_with_%s(b);\n    %s\n' % (l, '\n    '.join(gm))
    strict_m = ' && '.join('%s < m%d && m%d < %s && %s < m%d && m%d < %s' % (B.mn('a', i), i, i, B.mx('a', i), B.mn('b', i), i, i, B.mx('b', i))
                           for i in range(n))
    u.add(P, thm_fn('thm_collides_%s' % l, ['a: ' + T, 'b: ' + T, 'p: ' + PT], pos, body,
                    ['c ==> (%s)' % strict_m, '(!c) ==> !((%s) && (%s))' % (inside(B, 'a', 'p'), inside(B, 'b', 'p'))], tag))
    # expanding to contain a point
    body = ('    let e = a.expanded_to_contain_point(q);\n    let iq = e.contains_point(q);\n    let ia = a.contains_point(p);\n    let ie = e.contains_point(p);\n'
            '    let mut f = a;\n    f.expand_to_contain_point(q);\n')
    u.add(P, thm_fn('thm_expand_%s' % l, ['a: ' + T, 'p: ' + PT, 'q: ' + PT], [B.valid('a')], body,
                    ['iq', 'ia ==> ie', B.valid('e')] + ['%s == %s && %s == %s' % (B.mn('f', i), B.mn('e', i), B.mx('f', i), B.mx('e', i)) for i in range(n)], tag))
    # splitting: the halves partition the box and meet at sp
    for k in range(n):
        ax = B.ax[k]
        body = ('    let s = a.split_at_%s(sp);\n    let lo = s[0];\n    let hi = s[1];\n    let ia = a.contains_point(p);\n'
                '    let il = lo.contains_point(p);\n    let ih = hi.contains_point(p);\n' % ax)
        u.add(P, thm_fn('thm_split_%s_%s' % (ax, l), ['a: ' + T, 'sp: R', 'p: ' + PT],
                        ['sp.v@ >= %s' % B.mn('a', k), 'sp.v@ <= %s' % B.mx('a', k)], body,
                        ['ia == (il || ih)', 'lo.max.%s.v@ == sp.v@' % ax, 'hi.min.%s.v@ == sp.v@' % ax,
                         '(il && ih) ==> p.%s.v@ == sp.v@' % ax], tag))
    # centre / size / half size
    body = '    let c = a.center();\n    let s = a.size();\n    let h = a.half_size();\n'
    asserts = []
    for i in range(n):
        asserts += ['c.%s.v@ + h.%s.v@ == %s' % (B.ax[i], B.ex[i], B.mx('a', i)), 'c.%s.v@ - h.%s.v@ == %s' % (B.ax[i], B.ex[i], B.mn('a', i)),
                    's.%s.v@ == %s - %s' % (B.ex[i], B.mx('a', i), B.mn('a', i))]
    u.add(P, thm_fn('thm_center_size_%s' % l, ['a: ' + T], [], body, asserts, tag))
    # projection: in the box, and per axis no box point is nearer
    body = '    let j = a.projected_point(p);\n    let ij = a.contains_point(j);\n    let iq = a.contains_point(q);\n'
    asserts = ['ij'] + ['iq ==> abs_r(q.%s.v@ - p.%s.v@) >= abs_r(j.%s.v@ - p.%s.v@)' % ((B.ax[i],) * 4) for i in range(n)]
    u.add(P, thm_fn('thm_projected_point_%s' % l, ['a: ' + T, 'p: ' + PT, 'q: ' + PT], [B.valid('a')], body, asserts, tag))
    body = ('    let j = a.projected_point(p);\n    let d = a.distance_to_point(p);\n    let ghost d2 = %s;\n'
            '    proof { assert(d2 >= 0real) by (nonlinear_arith) requires d2 == %s; axiom_sqrt(d2); }\n'
            % ((' + '.join('(j.%s.v@ - p.%s.v@) * (j.%s.v@ - p.%s.v@)' % ((B.ax[i],) * 4) for i in range(n)),) * 2))
    u.add(P, thm_fn('thm_distance_%s' % l, ['a: ' + T, 'p: ' + PT], [B.valid('a')], body, ['d.v@ >= 0real', 'd.v@ * d.v@ == d2'], tag))
    # validity repair
    body = '    let v = a.made_valid();\n    let mut w = a;\n    w.make_valid();\n'
    asserts = [B.valid('v')]
    for i in range(n):
        asserts += ['(%s == %s && %s == %s) || (%s == %s && %s == %s)' % (B.mn('v', i), B.mn('a', i), B.mx('v', i), B.mx('a', i),
                                                                       B.mn('v', i), B.mx('a', i), B.mx('v', i), B.mn('a', i)),
                    '%s == %s && %s == %s' % (B.mn('w', i), B.mn('v', i), B.mx('w', i), B.mx('v', i))]
    u.add(P, thm_fn('thm_made_valid_%s' % l, ['a: ' + T], [], body, asserts, tag))
    # box <-> rectangle: inverse conversions; every rectangle method equals the box method on the converted value
    R = '%s<R, R>' % B.rect
    body = ('    let r = %s::from(a);\n    let back = %s::from(r);\n    let ra = rr.into_%s();\n    let rb = ro.into_%s();\n'
            '    let c1 = rr.contains_point(p);\n    let c2 = ra.contains_point(p);\n'
            '    let k1 = rr.contains_%s(ro);\n    let k2 = ra.contains_%s(rb);\n'
            '    let x1 = rr.collides_with_%s(ro);\n    let x2 = ra.collides_with_%s(rb);\n'
            '    let u1 = rr.union(ro).into_%s();\n    let u2 = ra.union(rb);\n'
            '    let i1 = rr.intersection(ro).into_%s();\n    let i2 = ra.intersection(rb);\n'
            '    let m1 = rr.center();\n    let m2 = ra.center();\n'
            '    let v1 = rr.collision_vector_with_%s(ro);\n    let v2 = ra.collision_vector_with_%s(rb);\n'
            '    let e1 = rr.expanded_to_contain_point(p).into_%s();\n    let e2 = ra.expanded_to_contain_point(p);\n'
            % (B.rect, N, l, l, B.rname, l, B.rname, l, l, l, B.rname, l, l))
    asserts = ['%s == %s && %s == %s' % (B.mn('back', i), B.mn('a', i), B.mx('back', i), B.mx('a', i)) for i in range(n)]
    asserts += ['c1 == c2', 'k1 == k2', 'x1 == x2']
    for i in range(n):
        asserts += ['%s == %s && %s == %s' % (B.mn('u1', i), B.mn('u2', i), B.mx('u1', i), B.mx('u2', i)),
                    '%s == %s && %s == %s' % (B.mn('i1', i), B.mn('i2', i), B.mx('i1', i), B.mx('i2', i)),
                    '%s == %s && %s == %s' % (B.mn('e1', i), B.mn('e2', i), B.mx('e1', i), B.mx('e2', i)),
                    'm1.%s.v@ == m2.%s.v@' % (B.ax[i], B.ax[i]), 'v1.%s.v@ == v2.%s.v@' % (B.ax[i], B.ax[i])]
    u.add(P, thm_fn('thm_rect_is_box_%s' % l, ['a: ' + T, 'rr: ' + R, 'ro: ' + R, 'p: ' + PT], [], body, asserts, tag))
    # collision vector: translating self by minus component k makes the boxes touch on axis k
    body = '    let v = a.collision_vector_with_%s(b);\n' % l
    asserts = ['(%s - v.%s.v@ == %s) || (%s - v.%s.v@ == %s)' % (B.mx('a', i), B.ax[i], B.mn('b', i), B.mn('a', i), B.ax[i], B.mx('b', i))
               for i in range(n)]
    u.add(P, thm_fn('thm_collision_vector_%s' % l, ['a: ' + T, 'b: ' + T], [], body, asserts, tag))


def plan(exp, tier):
    p = driver.Plan('C13')
    shapes = [VEC['Vec2'], VEC['Vec3'], VEC['Vec4'], VEC['Extent2'], VEC['Extent3']]
    u = vec_unit(exp, 'c13', shapes)
    veccore.add_conversions(u, only=('Vec2', 'Vec3', 'Vec4', 'Extent2', 'Extent3'))
    opscore.add_traits(u, ('Clamp',))
    opscore.add_float_impls(u, ('Clamp',))
    for nm in ('Vec2', 'Vec3'):
        veccore.add_spatial_basic(u, VEC[nm])
        G.add_vec_minmax(u, VEC[nm])
    for n in (2, 3):
        B = G.Box(n)
        G.add_box(u, B)
        G.add_rect(u, B)
        add_theorems(u, B)
    hdr = 'impl<T> From<Aabb<T>> for Aabr<T>'
    u.take_impl(P, hdr, {'from': C(ensures=['res.min.x == aabb.min.x', 'res.min.y == aabb.min.y', 'res.max.x == aabb.max.x',
                                            'res.max.y == aabb.max.y'])}, mode='G')
    p.add_unit('c13', u, ['ops', 'vec', 'geom'])
    import kani_driver
    p.kani = kani_driver.load_specs('c13')
    for sp in p.kani:
        if sp.get('bounded'):
            p.bounded.append('%s: %s' % (sp['harness'], sp['bounded']))
    p.assumptions += ['Aabr/Aabb::is_valid (partial_cmple through the AsRef trait, which vstd does not specify) is assumed in Verus '
                      '(res == all min <= max); its real body is proved by Kani for i8 elements (c13_is_valid_*)']
    p.not_decided += ['map / as_ on boxes and rectangles (casts: C20)']
    return p
