// C20 -- helper traits and the harness-generating macros.
//
// The contract-style macros emit (a) a thin monomorphic wrapper `$w` whose body is ONE call into vek,
// carrying the per-element law as a `#[kani::ensures]` contract (the scalar side of the law always calls
// the SAME trait method of the dependency -- num_traits / az / approx -- on each element), and (b) the
// harness `$h` that proves the contract over fully symbolic inputs with `#[kani::proof_for_contract]`.
// Plain `#[kani::proof]` + assert! is used for: the "panics on every bad input" twins (`*_panics`,
// `#[kani::should_panic]`), the vacuity guards, and the `*_uf` float harnesses (their stub writes a
// static table, which a contract's write-set check would reject / make very slow).
// `$f` ranges over the field accessors of the vector type (`x y z w`, `r g b a`, `0 1 2 ... 63`, ...),
// so the harness text is identical for struct vectors and tuple-struct vectors.

/// Bit-exact equality of elements (`==` for integers/bool, `to_bits` equality for floats, so that
/// NaN results are compared too).
pub trait Same: Copy {
    fn same(self, o: Self) -> bool;
}
macro_rules! same_eq { ($($t:ty)+) => { $(impl Same for $t { #[inline(always)] fn same(self, o: Self) -> bool { self == o } })+ } }
same_eq! {i8 u8 i16 u16 i32 u32 i64 u64 bool}
impl Same for f32 {
    #[inline(always)]
    fn same(self, o: Self) -> bool { self.to_bits() == o.to_bits() }
}
impl Same for f64 {
    #[inline(always)]
    fn same(self, o: Self) -> bool { self.to_bits() == o.to_bits() }
}

/// The documented precondition of the primitive `div_euclid` / `rem_euclid`
/// (no division by zero, no `MIN / -1`), spelled out per element type.
pub trait EuclidOk: Copy {
    fn euclid_ok(a: Self, b: Self) -> bool;
}
macro_rules! euclid_ok_signed { ($($t:ident)+) => { $(impl EuclidOk for $t {
    #[inline(always)] fn euclid_ok(a: Self, b: Self) -> bool { b != 0 && !(a == $t::MIN && b == -1) } })+ } }
macro_rules! euclid_ok_unsigned { ($($t:ident)+) => { $(impl EuclidOk for $t {
    #[inline(always)] fn euclid_ok(_a: Self, b: Self) -> bool { b != 0 } })+ } }
euclid_ok_signed! {i8 i16 i32 i64}
euclid_ok_unsigned! {u8 u16 u32 u64}

/// Reached only when a call that had to panic returned: fails with a NON-panic property
/// (pointer dereference check), which `#[kani::should_panic]` does not accept.
/// So `should_panic` + `returned_without_panic()` after the call == "the call panics on EVERY input
/// of the assumed domain".
#[inline(never)]
pub fn returned_without_panic() {
    let p: *const u8 = core::ptr::null();
    let v = unsafe { *p };
    assert!(v == 0 || v != 0);
}

macro_rules! any_lane { ($f:tt) => { kani::any() }; }
macro_rules! any_vec {
    ($V:ident<$T:ty> ($($f:tt)+)) => { $V::<$T>::new($(any_lane!($f)),+) };
}

// ---------------------------------------------------------------------------------------------
// num_traits lifts
// ---------------------------------------------------------------------------------------------

/// `fn(&V, &V) -> Option<V>`: Some(v) with v.f == scalar result for every f, None iff some lane is None.
macro_rules! lift_checked2 {
    ($h:ident, $w:ident, $V:ident<$T:ty> ($($f:tt)+), $Tr:ident :: $m:ident) => {
        #[kani::ensures(|r| match r {
            Some(v) => true $(&& $Tr::$m(&a.$f, &b.$f) == Some(v.$f))+,
            None => false $(|| $Tr::$m(&a.$f, &b.$f).is_none())+,
        })]
        fn $w(a: $V<$T>, b: $V<$T>) -> Option<$V<$T>> { $Tr::$m(&a, &b) }
        #[kani::proof_for_contract($w)]
        fn $h() {
            let a = any_vec!($V<$T> ($($f)+));
            let b = any_vec!($V<$T> ($($f)+));
            $w(a, b);
        }
    };
}

/// `fn(&V) -> Option<V>` (checked_neg).
macro_rules! lift_checked1 {
    ($h:ident, $w:ident, $V:ident<$T:ty> ($($f:tt)+), $Tr:ident :: $m:ident) => {
        #[kani::ensures(|r| match r {
            Some(v) => true $(&& $Tr::$m(&a.$f) == Some(v.$f))+,
            None => false $(|| $Tr::$m(&a.$f).is_none())+,
        })]
        fn $w(a: $V<$T>) -> Option<$V<$T>> { $Tr::$m(&a) }
        #[kani::proof_for_contract($w)]
        fn $h() {
            let a = any_vec!($V<$T> ($($f)+));
            $w(a);
        }
    };
}

/// `fn(&V, &V) -> V`, total (wrapping_*, saturating_*).
macro_rules! lift_total2 {
    ($h:ident, $w:ident, $V:ident<$T:ty> ($($f:tt)+), $Tr:ident :: $m:ident) => {
        #[kani::ensures(|r| true $(&& Same::same(r.$f, $Tr::$m(&a.$f, &b.$f)))+)]
        fn $w(a: $V<$T>, b: $V<$T>) -> $V<$T> { $Tr::$m(&a, &b) }
        #[kani::proof_for_contract($w)]
        fn $h() {
            let a = any_vec!($V<$T> ($($f)+));
            let b = any_vec!($V<$T> ($($f)+));
            $w(a, b);
        }
    };
}

/// `fn(&V) -> V`, total (wrapping_neg).
macro_rules! lift_total1 {
    ($h:ident, $w:ident, $V:ident<$T:ty> ($($f:tt)+), $Tr:ident :: $m:ident) => {
        #[kani::ensures(|r| true $(&& Same::same(r.$f, $Tr::$m(&a.$f)))+)]
        fn $w(a: $V<$T>) -> $V<$T> { $Tr::$m(&a) }
        #[kani::proof_for_contract($w)]
        fn $h() {
            let a = any_vec!($V<$T> ($($f)+));
            $w(a);
        }
    };
}

/// `fn(&V, &V) -> (V, bool)`: lanes are the scalar wrapped results, flag == OR of the lane flags.
macro_rules! lift_overflowing2 {
    ($h:ident, $w:ident, $V:ident<$T:ty> ($($f:tt)+), $Tr:ident :: $m:ident) => {
        #[kani::ensures(|r| (true $(&& (r.0).$f == $Tr::$m(&a.$f, &b.$f).0)+)
            && r.1 == (false $(|| $Tr::$m(&a.$f, &b.$f).1)+))]
        fn $w(a: $V<$T>, b: $V<$T>) -> ($V<$T>, bool) { $Tr::$m(&a, &b) }
        #[kani::proof_for_contract($w)]
        fn $h() {
            let a = any_vec!($V<$T> ($($f)+));
            let b = any_vec!($V<$T> ($($f)+));
            $w(a, b);
        }
    };
}

/// Euclid::div_euclid / rem_euclid in precondition form: when every lane satisfies the scalar
/// precondition the vector op does not panic and is per-element.
macro_rules! lift_euclid2 {
    ($h:ident, $w:ident, $V:ident<$T:ty> ($($f:tt)+), $m:ident) => {
        #[kani::requires(true $(&& <$T as EuclidOk>::euclid_ok(a.$f, b.$f))+)]
        #[kani::ensures(|r| true $(&& r.$f == Euclid::$m(&a.$f, &b.$f))+)]
        fn $w(a: $V<$T>, b: $V<$T>) -> $V<$T> { Euclid::$m(&a, &b) }
        #[kani::proof_for_contract($w)]
        fn $h() {
            let a = any_vec!($V<$T> ($($f)+));
            let b = any_vec!($V<$T> ($($f)+));
            $w(a, b);
        }
    };
}

/// The other direction of "panics exactly when a scalar lane would": if some lane violates the
/// scalar precondition, the vector op panics on every such input.
macro_rules! lift_euclid2_panics {
    ($h:ident, $V:ident<$T:ty> ($($f:tt)+), $m:ident) => {
        #[kani::proof]
        #[kani::should_panic]
        fn $h() {
            let a = any_vec!($V<$T> ($($f)+));
            let b = any_vec!($V<$T> ($($f)+));
            kani::assume(!(true $(&& <$T as EuclidOk>::euclid_ok(a.$f, b.$f))+));
            let _r = Euclid::$m(&a, &b);
            returned_without_panic();
        }
    };
}

/// Vacuity guard for the Euclid precondition: `assert!(false)` under the same `requires` must FAIL.
macro_rules! guard_euclid2 {
    ($h:ident, $V:ident<$T:ty> ($($f:tt)+)) => {
        #[kani::proof]
        fn $h() {
            let a = any_vec!($V<$T> ($($f)+));
            let b = any_vec!($V<$T> ($($f)+));
            kani::assume(true $(&& <$T as EuclidOk>::euclid_ok(a.$f, b.$f))+);
            let _r = Euclid::div_euclid(&a, &b);
            assert!(false);
        }
    };
}

/// Zero::zero / Zero::is_zero / One::one / One::is_one.
macro_rules! lift_zero_one {
    ($h_zero:ident, $h_is_zero:ident, $h_one:ident, $h_is_one:ident,
     $w_zero:ident, $w_is_zero:ident, $w_one:ident, $w_is_one:ident,
     $V:ident<$T:ty> ($($f:tt)+)) => {
        #[kani::ensures(|r| true $(&& Same::same(r.$f, <$T as Zero>::zero()))+)]
        fn $w_zero() -> $V<$T> { <$V<$T> as Zero>::zero() }
        #[kani::proof_for_contract($w_zero)]
        fn $h_zero() { $w_zero(); }

        #[kani::ensures(|r| *r == (true $(&& Zero::is_zero(&a.$f))+))]
        fn $w_is_zero(a: $V<$T>) -> bool { Zero::is_zero(&a) }
        #[kani::proof_for_contract($w_is_zero)]
        fn $h_is_zero() {
            let a = any_vec!($V<$T> ($($f)+));
            $w_is_zero(a);
        }

        #[kani::ensures(|r| true $(&& Same::same(r.$f, <$T as One>::one()))+)]
        fn $w_one() -> $V<$T> { <$V<$T> as One>::one() }
        #[kani::proof_for_contract($w_one)]
        fn $h_one() { $w_one(); }

        #[kani::ensures(|r| *r == (true $(&& One::is_one(&a.$f))+))]
        fn $w_is_one(a: $V<$T>) -> bool { One::is_one(&a) }
        #[kani::proof_for_contract($w_is_one)]
        fn $h_is_one() {
            let a = any_vec!($V<$T> ($($f)+));
            $w_is_one(a);
        }
    };
}

// ---------------------------------------------------------------------------------------------
// casts on vectors
// ---------------------------------------------------------------------------------------------

/// `as_::<D>()`: each element converted by `AsPrimitive::<D>::as_`.
macro_rules! cast_as {
    ($h:ident, $w:ident, $V:ident<$S:ty => $D:ty> ($($f:tt)+)) => {
        #[kani::ensures(|r| true $(&& Same::same(r.$f, AsPrimitive::<$D>::as_(a.$f)))+)]
        fn $w(a: $V<$S>) -> $V<$D> { a.as_::<$D>() }
        #[kani::proof_for_contract($w)]
        fn $h() {
            let a = any_vec!($V<$S> ($($f)+));
            $w(a);
        }
    };
}

/// `numcast::<D>()`: Some(v) with every lane == `<D as NumCast>::from(lane)`, None iff some lane fails.
macro_rules! cast_numcast {
    ($h:ident, $w:ident, $V:ident<$S:ty => $D:ty> ($($f:tt)+)) => {
        #[kani::ensures(|r| match r {
            Some(v) => true $(&& match <$D as NumCast>::from(a.$f) { Some(x) => Same::same(x, v.$f), None => false })+,
            None => false $(|| <$D as NumCast>::from(a.$f).is_none())+,
        })]
        fn $w(a: $V<$S>) -> Option<$V<$D>> { a.numcast::<$D>() }
        #[kani::proof_for_contract($w)]
        fn $h() {
            let a = any_vec!($V<$S> ($($f)+));
            $w(a);
        }
    };
}

/// az-style total / partial casts returning a vector: `az`, `saturating_as`, `wrapping_as`, `unwrapped_as`.
/// `pre(x => cond)` is the scalar cast's no-panic precondition on an element x (`true` when total).
macro_rules! cast_az_vec {
    ($h:ident, $w:ident, $V:ident<$S:ty => $D:ty> ($($f:tt)+), $vm:ident, $Tr:ident :: $sm:ident, pre($x:ident => $pre:expr)) => {
        #[kani::requires(true $(&& { let $x: $S = a.$f; $pre })+)]
        #[kani::ensures(|r| true $(&& Same::same(r.$f, az::$Tr::<$D>::$sm(a.$f)))+)]
        fn $w(a: $V<$S>) -> $V<$D> { a.$vm::<$D>() }
        #[kani::proof_for_contract($w)]
        fn $h() {
            let a = any_vec!($V<$S> ($($f)+));
            $w(a);
        }
    };
}

/// Vacuity guard for `cast_az_vec`'s precondition.
macro_rules! guard_cast_az_vec {
    ($h:ident, $V:ident<$S:ty => $D:ty> ($($f:tt)+), $vm:ident, pre($x:ident => $pre:expr)) => {
        #[kani::proof]
        fn $h() {
            let a = any_vec!($V<$S> ($($f)+));
            kani::assume(true $(&& { let $x: $S = a.$f; $pre })+);
            let _r = a.$vm::<$D>();
            assert!(false);
        }
    };
}

/// The panic direction for the partial az casts: some lane violates the scalar precondition => panic.
macro_rules! cast_az_vec_panics {
    ($h:ident, $V:ident<$S:ty => $D:ty> ($($f:tt)+), $vm:ident, pre($x:ident => $pre:expr)) => {
        #[kani::proof]
        #[kani::should_panic]
        fn $h() {
            let a = any_vec!($V<$S> ($($f)+));
            kani::assume(!(true $(&& { let $x: $S = a.$f; $pre })+));
            let _r = a.$vm::<$D>();
            returned_without_panic();
        }
    };
}

/// `checked_as::<D>()`.
macro_rules! cast_az_checked {
    ($h:ident, $w:ident, $V:ident<$S:ty => $D:ty> ($($f:tt)+)) => {
        #[kani::ensures(|r| match r {
            Some(v) => true $(&& match az::CheckedCast::<$D>::checked_cast(a.$f) { Some(x) => Same::same(x, v.$f), None => false })+,
            None => false $(|| az::CheckedCast::<$D>::checked_cast(a.$f).is_none())+,
        })]
        fn $w(a: $V<$S>) -> Option<$V<$D>> { a.checked_as::<$D>() }
        #[kani::proof_for_contract($w)]
        fn $h() {
            let a = any_vec!($V<$S> ($($f)+));
            $w(a);
        }
    };
}

/// `overflowing_as::<D>()`: lanes are the scalar wrapped values, flag == OR of the lane flags.
macro_rules! cast_az_overflowing {
    ($h:ident, $w:ident, $V:ident<$S:ty => $D:ty> ($($f:tt)+), pre($x:ident => $pre:expr)) => {
        #[kani::requires(true $(&& { let $x: $S = a.$f; $pre })+)]
        #[kani::ensures(|r| (true $(&& Same::same((r.0).$f, az::OverflowingCast::<$D>::overflowing_cast(a.$f).0))+)
            && r.1 == (false $(|| az::OverflowingCast::<$D>::overflowing_cast(a.$f).1)+))]
        fn $w(a: $V<$S>) -> ($V<$D>, bool) { a.overflowing_as::<$D>() }
        #[kani::proof_for_contract($w)]
        fn $h() {
            let a = any_vec!($V<$S> ($($f)+));
            $w(a);
        }
    };
}

// ---------------------------------------------------------------------------------------------
// Uninterpreted scalar operations (Ackermann encoding) for the expensive f32 operations
// ---------------------------------------------------------------------------------------------
//
// CBMC cannot prove `f(x) == f(x)` for two separately bit-blasted copies of an f32 division or of
// approx's relative comparison in reasonable time (measured: Vec2<f32>::inv with the real `1.0 / x`
// on both sides: no answer after 15 min with cadical and kissat; real relative_eq with symbolic
// max_relative: 117 s for Vec2). The per-element law does not depend on WHAT the scalar operation
// computes, only on it being a deterministic function of its arguments. The harnesses marked "uf"
// therefore replace (kani::stub) the scalar trait method of the dependency (`<f32 as Inv>::inv`,
// `<f32 as AbsDiffEq>::abs_diff_eq`, ...) by an ARBITRARY deterministic function of the argument
// bit patterns:
//   * the harness first "seeds" the model with the argument tuple of every lane (`$seed`): each seed
//     draws a fresh nondeterministic result, unless an earlier seed had bit-identical arguments, in
//     which case it re-uses that result (Ackermann's functional-consistency constraint);
//   * the stub (`$look`) returns the seeded result for a seeded argument tuple and an unconstrained
//     fresh value for any other tuple (strictly more behaviours than any deterministic function, so
//     still sound; correct code never gets there, a mutant that mixes up arguments does).
// A proof under this stub is a proof for every deterministic scalar operation, in particular for the
// real one (which is pure and panic-free), on all f32 bit patterns (NaN payloads, infinities,
// subnormals, signed zeros included). The table is only written by the straight-line seeding code, so
// all indices are concrete and the model is loop-free (the scans are unrolled over the slots).

pub const UF_CAP: usize = 64;
/// One seeded call: the per-lane part of the argument tuple (k0, k1) and the value assigned to it.
#[derive(Clone, Copy)]
pub struct UfEntry { used: bool, k0: u32, k1: u32, r: u32 }
/// (g2, g3) is the lane-independent part of the argument tuple (epsilon and max_relative / max_ulps bits):
/// it is the same for every seed of a harness (asserted), so it is stored and compared once per call
/// instead of once per slot.
pub struct UfTable { n: usize, g2: u32, g3: u32, e: [UfEntry; UF_CAP] }
pub static mut UF: UfTable = UfTable { n: 0, g2: 0, g3: 0, e: [UfEntry { used: false, k0: 0, k1: 0, r: 0 }; UF_CAP] };

/// Defines a model with capacity `$cap` seeds: `$seed`, `$look` and the four scalar stubs built on `$look`.
/// (Several capacities only to keep the small harnesses fast.) The scans destructure a by-value copy of
/// the table with an irrefutable array pattern, so they are loop-free, index-free and pointer-free.
macro_rules! uf_family {
    ($seed:ident, $look:ident, $inv:ident, $abs:ident, $rel:ident, $ulps:ident, cap $cap:literal, slots($($e:ident)+)) => {
        pub fn $seed(k0: u32, k1: u32, k2: u32, k3: u32) -> u32 {
            unsafe {
                let n = UF.n;
                assert!(n < $cap);
                if n == 0 {
                    UF.g2 = k2;
                    UF.g3 = k3;
                } else {
                    assert!(UF.g2 == k2 && UF.g3 == k3);
                }
                let mut res: u32 = kani::any();
                {
                    // every earlier seed with bit-identical arguments holds the same value (by induction), so
                    // the scan order is irrelevant
                    let [$($e),+, ..] = UF.e;
                    $( if $e.used && $e.k0 == k0 && $e.k1 == k1 { res = $e.r; } )+
                }
                UF.e[n] = UfEntry { used: true, k0, k1, r: res };
                UF.n = n + 1;
                res
            }
        }
        pub fn $look(k0: u32, k1: u32, k2: u32, k3: u32) -> u32 {
            unsafe {
                let mut res: u32 = kani::any();
                let g = UF.n > 0 && UF.g2 == k2 && UF.g3 == k3;
                let [$($e),+, ..] = UF.e;
                $( if g && $e.used && $e.k0 == k0 && $e.k1 == k1 { res = $e.r; } )+
                res
            }
        }
        pub fn $inv(x: f32) -> f32 { f32::from_bits($look(x.to_bits(), 0, 0, 0)) }
        pub fn $abs(a: &f32, b: &f32, e: f32) -> bool { $look(a.to_bits(), b.to_bits(), e.to_bits(), 0) & 1 == 1 }
        pub fn $rel(a: &f32, b: &f32, e: f32, m: f32) -> bool { $look(a.to_bits(), b.to_bits(), e.to_bits(), m.to_bits()) & 1 == 1 }
        pub fn $ulps(a: &f32, b: &f32, e: f32, m: u32) -> bool { $look(a.to_bits(), b.to_bits(), e.to_bits(), m) & 1 == 1 }
    };
}
uf_family! {uf4_seed, uf4_look, uf4_f32_inv, uf4_f32_abs_diff_eq, uf4_f32_relative_eq, uf4_f32_ulps_eq, cap 4, slots(e0 e1 e2 e3)}
uf_family! {uf16_seed, uf16_look, uf16_f32_inv, uf16_f32_abs_diff_eq, uf16_f32_relative_eq, uf16_f32_ulps_eq, cap 16, slots(e0 e1 e2 e3 e4 e5 e6 e7 e8 e9 e10 e11 e12 e13 e14 e15)}
uf_family! {uf32_seed, uf32_look, uf32_f32_inv, uf32_f32_abs_diff_eq, uf32_f32_relative_eq, uf32_f32_ulps_eq, cap 32, slots(e0 e1 e2 e3 e4 e5 e6 e7 e8 e9 e10 e11 e12 e13 e14 e15 e16 e17 e18 e19 e20 e21 e22 e23 e24 e25 e26 e27 e28 e29 e30 e31)}
uf_family! {uf64_seed, uf64_look, uf64_f32_inv, uf64_f32_abs_diff_eq, uf64_f32_relative_eq, uf64_f32_ulps_eq, cap 64, slots(e0 e1 e2 e3 e4 e5 e6 e7 e8 e9 e10 e11 e12 e13 e14 e15 e16 e17 e18 e19 e20 e21 e22 e23 e24 e25 e26 e27 e28 e29 e30 e31 e32 e33 e34 e35 e36 e37 e38 e39 e40 e41 e42 e43 e44 e45 e46 e47 e48 e49 e50 e51 e52 e53 e54 e55 e56 e57 e58 e59 e60 e61 e62 e63)}

/// Inv::inv on a float vector against the uninterpreted scalar inv.
macro_rules! lift_inv_uf {
    ($h:ident, $V:ident<f32> ($($f:tt)+), $seed:ident, $inv:ident) => {
        #[kani::proof]
        #[kani::stub(<f32 as Inv>::inv, $inv)]
        fn $h() {
            let a = any_vec!($V<f32> ($($f)+));
            $( $seed(a.$f.to_bits(), 0, 0, 0); )+
            let r = Inv::inv(a);
            assert!(true $(&& Same::same(r.$f, Inv::inv(a.$f)))+);
        }
    };
}

/// approx on any aggregate, against the uninterpreted scalar predicates.
/// `$acc` are accessor token groups: `(.x)`, `(.0)`, `([(1,2)])`, ...; `$mk` makes a fully symbolic value.
macro_rules! approx_uf {
    ($h_abs:ident, $h_rel:ident, $h_ulps:ident, $Ty:ty, $mk:expr, [$(($($acc:tt)+))+],
     stubs($seed:ident, $abs:ident, $rel:ident, $ulps:ident) $(, unwind $u:literal)?) => {
        #[kani::proof]
        $(#[kani::unwind($u)])?
        #[kani::stub(<f32 as AbsDiffEq>::abs_diff_eq, $abs)]
        fn $h_abs() {
            let a: $Ty = $mk;
            let b: $Ty = $mk;
            let eps: f32 = kani::any();
            $( $seed((a $($acc)+).to_bits(), (b $($acc)+).to_bits(), eps.to_bits(), 0); )+
            let r = AbsDiffEq::abs_diff_eq(&a, &b, eps);
            assert!(r == (true $(&& AbsDiffEq::abs_diff_eq(&a $($acc)+, &b $($acc)+, eps))+));
        }
        #[kani::proof]
        $(#[kani::unwind($u)])?
        #[kani::stub(<f32 as RelativeEq>::relative_eq, $rel)]
        fn $h_rel() {
            let a: $Ty = $mk;
            let b: $Ty = $mk;
            let eps: f32 = kani::any();
            let max_rel: f32 = kani::any();
            $( $seed((a $($acc)+).to_bits(), (b $($acc)+).to_bits(), eps.to_bits(), max_rel.to_bits()); )+
            let r = RelativeEq::relative_eq(&a, &b, eps, max_rel);
            assert!(r == (true $(&& RelativeEq::relative_eq(&a $($acc)+, &b $($acc)+, eps, max_rel))+));
        }
        #[kani::proof]
        $(#[kani::unwind($u)])?
        #[kani::stub(<f32 as UlpsEq>::ulps_eq, $ulps)]
        fn $h_ulps() {
            let a: $Ty = $mk;
            let b: $Ty = $mk;
            let eps: f32 = kani::any();
            let max_ulps: u32 = kani::any();
            $( $seed((a $($acc)+).to_bits(), (b $($acc)+).to_bits(), eps.to_bits(), max_ulps); )+
            let r = UlpsEq::ulps_eq(&a, &b, eps, max_ulps);
            assert!(r == (true $(&& UlpsEq::ulps_eq(&a $($acc)+, &b $($acc)+, eps, max_ulps))+));
        }
    };
}

/// f32 restricted so that approx's own scalar code does not trip CBMC's float-overflow / NaN
/// instrumentation (`a - b` must not overflow and must not be inf - inf): NaN, or |v| <= f32::MAX / 2.
pub fn any_f32_half_range() -> f32 {
    let v: f32 = kani::any();
    kani::assume(v != v || (v >= -(f32::MAX / 2.0) && v <= f32::MAX / 2.0));
    v
}

/// approx with the REAL scalar predicates (no stub), contract style. Elements from `any_f32_half_range`.
/// relative_eq: `max_relative` is the concrete default (f32::EPSILON); epsilon / max_ulps fully symbolic.
macro_rules! approx_real {
    ($h_abs:ident, $h_rel:ident, $h_ulps:ident, $w_abs:ident, $w_rel:ident, $w_ulps:ident,
     $Ty:ty, $mk:expr, [$(($($acc:tt)+))+], $sol:ident $(, unwind $u:literal)?) => {
        #[kani::ensures(|r| *r == (true $(&& AbsDiffEq::abs_diff_eq(&a $($acc)+, &b $($acc)+, eps))+))]
        fn $w_abs(a: $Ty, b: $Ty, eps: f32) -> bool { AbsDiffEq::abs_diff_eq(&a, &b, eps) }
        #[kani::proof_for_contract($w_abs)]
        #[kani::solver($sol)]
        $(#[kani::unwind($u)])?
        fn $h_abs() {
            let a: $Ty = $mk;
            let b: $Ty = $mk;
            $w_abs(a, b, kani::any());
        }

        #[kani::ensures(|r| *r == (true $(&& RelativeEq::relative_eq(&a $($acc)+, &b $($acc)+, eps, max_rel))+))]
        fn $w_rel(a: $Ty, b: $Ty, eps: f32, max_rel: f32) -> bool { RelativeEq::relative_eq(&a, &b, eps, max_rel) }
        #[kani::proof_for_contract($w_rel)]
        #[kani::solver($sol)]
        $(#[kani::unwind($u)])?
        fn $h_rel() {
            let a: $Ty = $mk;
            let b: $Ty = $mk;
            $w_rel(a, b, kani::any(), <f32 as RelativeEq>::default_max_relative());
        }

        #[kani::ensures(|r| *r == (true $(&& UlpsEq::ulps_eq(&a $($acc)+, &b $($acc)+, eps, max_ulps))+))]
        fn $w_ulps(a: $Ty, b: $Ty, eps: f32, max_ulps: u32) -> bool { UlpsEq::ulps_eq(&a, &b, eps, max_ulps) }
        #[kani::proof_for_contract($w_ulps)]
        #[kani::solver($sol)]
        $(#[kani::unwind($u)])?
        fn $h_ulps() {
            let a: $Ty = $mk;
            let b: $Ty = $mk;
            $w_ulps(a, b, kani::any(), kani::any());
        }
    };
}

// ---------------------------------------------------------------------------------------------
// matrices
// ---------------------------------------------------------------------------------------------

pub type RM2<T> = vek::mat::repr_c::row_major::Mat2<T>;
pub type RM3<T> = vek::mat::repr_c::row_major::Mat3<T>;
pub type RM4<T> = vek::mat::repr_c::row_major::Mat4<T>;
pub type CM2<T> = vek::mat::repr_c::column_major::Mat2<T>;
pub type CM3<T> = vek::mat::repr_c::column_major::Mat3<T>;
pub type CM4<T> = vek::mat::repr_c::column_major::Mat4<T>;

// Fully symbolic matrices, built from the public fields (no vek constructor involved).
pub fn any_v2<T: kani::Arbitrary>() -> Vec2<T> { Vec2 { x: kani::any(), y: kani::any() } }
pub fn any_v3<T: kani::Arbitrary>() -> Vec3<T> { Vec3 { x: kani::any(), y: kani::any(), z: kani::any() } }
pub fn any_v4<T: kani::Arbitrary>() -> Vec4<T> { Vec4 { x: kani::any(), y: kani::any(), z: kani::any(), w: kani::any() } }
pub fn any_rm2<T: kani::Arbitrary>() -> RM2<T> { RM2 { rows: Vec2 { x: any_v2(), y: any_v2() } } }
pub fn any_rm3<T: kani::Arbitrary>() -> RM3<T> { RM3 { rows: Vec3 { x: any_v3(), y: any_v3(), z: any_v3() } } }
pub fn any_rm4<T: kani::Arbitrary>() -> RM4<T> { RM4 { rows: Vec4 { x: any_v4(), y: any_v4(), z: any_v4(), w: any_v4() } } }
pub fn any_cm2<T: kani::Arbitrary>() -> CM2<T> { CM2 { cols: Vec2 { x: any_v2(), y: any_v2() } } }
pub fn any_cm3<T: kani::Arbitrary>() -> CM3<T> { CM3 { cols: Vec3 { x: any_v3(), y: any_v3(), z: any_v3() } } }
pub fn any_cm4<T: kani::Arbitrary>() -> CM4<T> { CM4 { cols: Vec4 { x: any_v4(), y: any_v4(), z: any_v4(), w: any_v4() } } }

/// Matrix `as_::<D>()` and `map(|x| x.as_())`: element (i,j) of the result == scalar cast of element (i,j).
macro_rules! mat_as {
    ($h_as:ident, $h_map:ident, $w_as:ident, $w_map:ident, $M:ident<$S:ty => $D:ty>, $mk:ident, [$(($i:tt,$j:tt))+]) => {
        #[kani::ensures(|r| true $(&& Same::same(r[($i, $j)], AsPrimitive::<$D>::as_(m[($i, $j)])))+)]
        fn $w_as(m: $M<$S>) -> $M<$D> { m.as_::<$D>() }
        #[kani::proof_for_contract($w_as)]
        fn $h_as() {
            let m: $M<$S> = $mk();
            $w_as(m);
        }
        #[kani::ensures(|r| true $(&& Same::same(r[($i, $j)], AsPrimitive::<$D>::as_(m[($i, $j)])))+)]
        fn $w_map(m: $M<$S>) -> $M<$D> { m.map(|x| AsPrimitive::<$D>::as_(x)) }
        #[kani::proof_for_contract($w_map)]
        fn $h_map() {
            let m: $M<$S> = $mk();
            $w_map(m);
        }
    };
}

/// Matrix `numcast::<D>()`: Some(r) with r(i,j) == `<D as NumCast>::from(m(i,j))`, None iff some element fails.
macro_rules! mat_numcast {
    ($h:ident, $w:ident, $M:ident<$S:ty => $D:ty>, $mk:ident, [$(($i:tt,$j:tt))+]) => {
        #[kani::ensures(|r| match r {
            Some(v) => true $(&& match <$D as NumCast>::from(m[($i, $j)]) { Some(x) => Same::same(x, v[($i, $j)]), None => false })+,
            None => false $(|| <$D as NumCast>::from(m[($i, $j)]).is_none())+,
        })]
        fn $w(m: $M<$S>) -> Option<$M<$D>> { m.numcast::<$D>() }
        #[kani::proof_for_contract($w)]
        fn $h() {
            let m: $M<$S> = $mk();
            $w(m);
        }
    };
}

/// Matrix Zero::zero / Zero::is_zero / One::one (identity): element-wise statement.
macro_rules! mat_zero_one {
    ($h_zero:ident, $h_is_zero:ident, $M:ident<$T:ty>, $mk:ident, [$(($i:tt,$j:tt))+]) => {
        #[kani::proof]
        fn $h_zero() {
            let z = <$M<$T> as Zero>::zero();
            assert!(true $(&& Same::same(z[($i, $j)], <$T as Zero>::zero()))+);
        }
        #[kani::proof]
        fn $h_is_zero() {
            let m: $M<$T> = $mk();
            assert!(Zero::is_zero(&m) == (true $(&& Zero::is_zero(&m[($i, $j)]))+));
        }
    };
}

// ---------------------------------------------------------------------------------------------
// shapes
// ---------------------------------------------------------------------------------------------

/// A conversion on a shape: every listed field of the result == `AsPrimitive::<D>::as_` of the same field
/// of the input (`$D` is that field's destination element type).
macro_rules! shape_cast {
    ($h:ident, $w:ident, $Src:ty => $Dst:ty, $mk:expr, |$s:ident| $call:expr, [$(($($acc:tt)+) : $D:ty),+]) => {
        #[kani::ensures(|r| true $(&& Same::same(r $($acc)+, AsPrimitive::<$D>::as_($s $($acc)+)))+)]
        fn $w($s: $Src) -> $Dst { $call }
        #[kani::proof_for_contract($w)]
        fn $h() {
            let s: $Src = $mk;
            $w(s);
        }
    };
}
