// Vacuity guards: every harness here asserts `false` after the vek call under the SAME assumption /
// `requires` used by the harnesses named in the comment, and is registered with should_fail = true.

// precondition of lift_euclid2 (c20_*_div_euclid / c20_*_rem_euclid)
guard_euclid2! {c20_guard_vec4_i8_euclid, Vec4<i8> (x y z w)}
guard_euclid2! {c20_guard_vec4_u8_euclid, Vec4<u8> (x y z w)}
guard_euclid2! {c20_guard_vec8_i8_euclid, Vec8<i8> (0 1 2 3 4 5 6 7)}

// "fits" precondition of c20_*_i16_u8_az / c20_*_i16_u8_unwrapped_as
guard_cast_az_vec! {c20_guard_vec4_i16_u8_az, Vec4<i16 => u8> (x y z w), az, pre(x => 0 <= x && x <= 255)}
guard_cast_az_vec! {c20_guard_vec8_i16_u8_unwrapped_as, Vec8<i16 => u8> (0 1 2 3 4 5 6 7), unwrapped_as, pre(x => 0 <= x && x <= 255)}

// float preconditions of c20_*_f32_i8_saturating_as (no NaN) and c20_*_f32_i8_wrapping_as / overflowing_as (finite)
guard_cast_az_vec! {c20_guard_vec3_f32_i8_saturating_as, Vec3<f32 => i8> (x y z), saturating_as, pre(x => x == x)}
guard_cast_az_vec! {c20_guard_vec3_f32_i8_wrapping_as, Vec3<f32 => i8> (x y z), wrapping_as, pre(x => x.is_finite())}

// assumption of the euclid "panics" twins: some lane violates the scalar precondition
#[kani::proof]
fn c20_guard_vec4_i8_euclid_panics_domain() {
    let a = any_vec!(Vec4<i8> (x y z w));
    let b = any_vec!(Vec4<i8> (x y z w));
    kani::assume(!(<i8 as EuclidOk>::euclid_ok(a.x, b.x) && <i8 as EuclidOk>::euclid_ok(a.y, b.y)
        && <i8 as EuclidOk>::euclid_ok(a.z, b.z) && <i8 as EuclidOk>::euclid_ok(a.w, b.w)));
    assert!(false);
}

// The "panics on EVERY input" mechanism of the *_panics twins really fails when some input does not
// panic: no assumption here, so many inputs return normally and reach returned_without_panic().
#[kani::proof]
#[kani::should_panic]
fn c20_guard_panics_twin_mechanism() {
    let a = any_vec!(Vec2<i8> (x y));
    let b = any_vec!(Vec2<i8> (x y));
    let _r = Euclid::div_euclid(&a, &b);
    returned_without_panic();
}

// domain restriction of the *_real approx harnesses (any_f32_half_range)
#[kani::proof]
fn c20_guard_vec2_f32_half_range() {
    let a = Vec2::<f32>::new(any_f32_half_range(), any_f32_half_range());
    let b = Vec2::<f32>::new(any_f32_half_range(), any_f32_half_range());
    let eps: f32 = kani::any();
    let _r = AbsDiffEq::abs_diff_eq(&a, &b, eps);
    assert!(false);
}

// The uninterpreted-function model itself: it is deterministic on seeded arguments (same bits -> same
// value, also across seed slots) and it does not constrain distinct arguments (both outcomes reachable)
// -- so the "uf" harnesses are not vacuous.
#[kani::proof]
fn c20_uf_model_deterministic() {
    let a: u32 = kani::any();
    let b: u32 = kani::any();
    uf4_seed(a, 1, 2, 3);
    uf4_seed(b, 1, 2, 3);
    let r1 = uf4_look(a, 1, 2, 3);
    let r2 = uf4_look(b, 1, 2, 3);
    let r3 = uf4_look(a, 1, 2, 3);
    assert!(r1 == r3);
    assert!(a != b || r1 == r2);
}
#[kani::proof]
fn c20_guard_uf_model_unconstrained() {
    // must FAIL: two seeded calls with different arguments may return different values
    let a: u32 = kani::any();
    let b: u32 = kani::any();
    uf4_seed(a, 0, 0, 0);
    uf4_seed(b, 0, 0, 0);
    let r1 = uf4_look(a, 0, 0, 0);
    let r2 = uf4_look(b, 0, 0, 0);
    assert!(r1 == r2);
}
#[kani::proof]
#[kani::stub(<f32 as RelativeEq>::relative_eq, uf4_f32_relative_eq)]
fn c20_guard_uf_relative_eq_not_constant() {
    // must FAIL: under the stub the scalar predicate is not forced to any particular value
    let a: f32 = kani::any();
    let b: f32 = kani::any();
    uf4_seed(a.to_bits(), b.to_bits(), 0, 0);
    assert!(RelativeEq::relative_eq(&a, &b, 0.0, 0.0));
}
