// harnesses for c20
