// harnesses for c20
use vek::vec::repr_c::*;
use num_traits::*;

mod w {
    use super::*;
    #[kani::ensures(|r| match (r, CheckedAdd::checked_add(&a.x, &b.x), CheckedAdd::checked_add(&a.y, &b.y)) {
        (Some(v), Some(x), Some(y)) => v.x == x && v.y == y,
        (None, x, y) => x.is_none() || y.is_none(),
        _ => false,
    })]
    pub fn checked_add(a: Vec2<i8>, b: Vec2<i8>) -> Option<Vec2<i8>> { a.checked_add(&b) }
}

#[kani::proof_for_contract(w::checked_add)]
fn c20_probe_contract() {
    let a = Vec2::<i8>::new(kani::any(), kani::any());
    let b = Vec2::<i8>::new(kani::any(), kani::any());
    w::checked_add(a, b);
}

#[kani::proof]
fn c20_probe_plain() {
    let a = Vec2::<i8>::new(kani::any(), kani::any());
    let b = Vec2::<i8>::new(kani::any(), kani::any());
    let r = a.checked_add(&b);
    assert!(match (r, CheckedAdd::checked_add(&a.x, &b.x), CheckedAdd::checked_add(&a.y, &b.y)) {
        (Some(v), Some(x), Some(y)) => v.x == x && v.y == y,
        (None, x, y) => x.is_none() || y.is_none(),
        _ => false,
    });
}
