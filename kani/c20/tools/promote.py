#!/usr/bin/env python3
"""Post-step after tools/mkjson.py: harnesses measured fast are moved from the thorough to the quick tier
(<= 3 s, or <= 10 s for the Mat4 ones), so that the quick check covers every size and layout."""
import json, os
p = os.path.join(os.path.dirname(os.path.abspath(__file__)), '..', 'harnesses.json')
d = json.load(open(p))
n = 0
for h in d:
    m = h.get('measured_s') or 1e9
    if h['tier'] == 'thorough' and (m <= 3 or (('rm4' in h['harness'] or 'cm4' in h['harness']) and m <= 10)):
        h['tier'] = 'quick'
        h['timeout'] = max(h.get('timeout') or 0, 120)
        n += 1
json.dump(d, open(p, 'w'), indent=1)
print('promoted', n)
