#!/usr/bin/env python3
"""Generates the macro INVOCATION lists (src/gen_*.rs) and the harness metadata (tools/meta.json) for C20.

All harness text lives in the macro_rules! macros of src/macros.rs; this script only enumerates
(type, element type, operation) and gives every harness / wrapper a globally unique name
(macro_rules! cannot concatenate identifiers and the `paste` crate is not available offline).
Run:  python3 tools/gen.py      (from /verif/kani/c20)
"""
import json, os

ROOT = os.path.dirname(os.path.dirname(os.path.abspath(__file__)))

def nums(n):
    return " ".join(str(i) for i in range(n))

# (type, fields, tier)
VECS = [
    ("Vec2", "x y", "quick"), ("Vec3", "x y z", "quick"), ("Vec4", "x y z w", "quick"),
    ("Vec8", nums(8), "thorough"), ("Vec16", nums(16), "thorough"),
    ("Vec32", nums(32), "thorough"), ("Vec64", nums(64), "thorough"),
    ("Extent2", "w h", "thorough"), ("Extent3", "w h d", "thorough"),
    ("Rgb", "r g b", "thorough"), ("Rgba", "r g b a", "thorough"),
    ("Uv", "u v", "thorough"), ("Uvw", "u v w", "thorough"),
]
DIM = {v: len(f.split()) for v, f, _ in VECS}

META = []   # dicts: harness, tier, should_fail, clause, domain, bounded, timeout
OUT = {}    # file -> list of lines

def emit(file, line):
    OUT.setdefault(file, []).append(line)

def meta(h, tier, clause, domain, should_fail=False, bounded=None, timeout=None):
    META.append(dict(harness=h, tier=tier, should_fail=should_fail, clause=clause, domain=domain,
                     bounded=bounded, timeout=timeout))

def tmo(V, base=60):
    d = DIM.get(V, 4)
    if d >= 64: return 900
    if d >= 32: return 600
    if d >= 16: return 300
    return base

CHECKED2 = [("checked_add", "CheckedAdd"), ("checked_sub", "CheckedSub"), ("checked_mul", "CheckedMul"),
            ("checked_div", "CheckedDiv"), ("checked_rem", "CheckedRem"),
            ("checked_div_euclid", "CheckedEuclid"), ("checked_rem_euclid", "CheckedEuclid")]
TOTAL2 = [("wrapping_add", "WrappingAdd"), ("wrapping_sub", "WrappingSub"), ("wrapping_mul", "WrappingMul"),
          ("saturating_add", "SaturatingAdd"), ("saturating_sub", "SaturatingSub"), ("saturating_mul", "SaturatingMul")]
OVER2 = [("overflowing_add", "OverflowingAdd"), ("overflowing_sub", "OverflowingSub"), ("overflowing_mul", "OverflowingMul")]

def int_lifts(file, V, fields, T, tier, division=True):
    p = f"{V.lower()}_{T}"
    n = DIM[V]
    dom = f"all {V}<{T}> pairs: every element any {T} value ({n} symbolic lanes per operand)"
    dom1 = f"all {V}<{T}>: every element any {T} value ({n} symbolic lanes)"
    ty = f"{V}<{T}> ({fields})"
    for m, tr in CHECKED2:
        if not division and ("div" in m or "rem" in m): continue
        emit(file, f"lift_checked2!{{c20_{p}_{m}, w_{p}_{m}, {ty}, {tr}::{m}}}")
        meta(f"c20_{p}_{m}", tier, f"{tr}::{m} on {V}<{T}>: Some(v) with v.i == scalar {m}(a.i,b.i) for all i; None iff some lane is None",
             dom, timeout=tmo(V))
    emit(file, f"lift_checked1!{{c20_{p}_checked_neg, w_{p}_checked_neg, {ty}, CheckedNeg::checked_neg}}")
    meta(f"c20_{p}_checked_neg", tier, f"CheckedNeg::checked_neg on {V}<{T}>: per element; None iff some lane is None", dom1, timeout=tmo(V))
    for m, tr in TOTAL2:
        emit(file, f"lift_total2!{{c20_{p}_{m}, w_{p}_{m}, {ty}, {tr}::{m}}}")
        meta(f"c20_{p}_{m}", tier, f"{tr}::{m} on {V}<{T}>: r.i == scalar {m}(a.i,b.i) for all i", dom, timeout=tmo(V))
    emit(file, f"lift_total1!{{c20_{p}_wrapping_neg, w_{p}_wrapping_neg, {ty}, WrappingNeg::wrapping_neg}}")
    meta(f"c20_{p}_wrapping_neg", tier, f"WrappingNeg::wrapping_neg on {V}<{T}>: per element", dom1, timeout=tmo(V))
    for m, tr in OVER2:
        emit(file, f"lift_overflowing2!{{c20_{p}_{m}, w_{p}_{m}, {ty}, {tr}::{m}}}")
        meta(f"c20_{p}_{m}", tier, f"{tr}::{m} on {V}<{T}>: lanes == scalar wrapped results, flag == OR of the lane overflow flags", dom, timeout=tmo(V))
    pre = "every lane: b.i != 0" + (f" and not (a.i == {T}::MIN and b.i == -1)" if T.startswith("i") else "")
    for m in ("div_euclid", "rem_euclid") if division else ():
        emit(file, f"lift_euclid2!{{c20_{p}_{m}, w_{p}_{m}, {ty}, {m}}}")
        meta(f"c20_{p}_{m}", tier, f"Euclid::{m} on {V}<{T}> (precondition form): no panic and r.i == scalar {m}(a.i,b.i)",
             f"all {V}<{T}> pairs satisfying the scalar precondition in {pre}", timeout=tmo(V))
    emit(file, f"lift_zero_one!{{c20_{p}_zero, c20_{p}_is_zero, c20_{p}_one, c20_{p}_is_one, w_{p}_zero, w_{p}_is_zero, w_{p}_one, w_{p}_is_one, {ty}}}")
    meta(f"c20_{p}_zero", tier, f"<{V}<{T}> as Zero>::zero(): every element == {T}::zero()", "no input", timeout=tmo(V))
    meta(f"c20_{p}_is_zero", tier, f"Zero::is_zero on {V}<{T}> == all elements is_zero", dom1, timeout=tmo(V))
    meta(f"c20_{p}_one", tier, f"<{V}<{T}> as One>::one(): every element == {T}::one()", "no input", timeout=tmo(V))
    meta(f"c20_{p}_is_one", tier, f"One::is_one on {V}<{T}> == all elements is_one", dom1, timeout=tmo(V))

def euclid_panics(file, V, fields, T, tier):
    p = f"{V.lower()}_{T}"
    ty = f"{V}<{T}> ({fields})"
    for m in ("div_euclid", "rem_euclid"):
        emit(file, f"lift_euclid2_panics!{{c20_{p}_{m}_panics, {ty}, {m}}}")
        meta(f"c20_{p}_{m}_panics", tier,
             f"Euclid::{m} on {V}<{T}> panics on EVERY input where some lane violates the scalar precondition (should_panic + non-panic failure if the call returns)",
             f"all {V}<{T}> pairs where some lane has b.i == 0 or (a.i == MIN and b.i == -1)", timeout=tmo(V))

AS_PAIRS = [("u8", "i8"), ("i16", "u8"), ("f32", "i8"), ("i8", "f32")]
NUMCAST_PAIRS = [("i16", "u8"), ("f32", "u8")]

def casts(file, V, fields, tier):
    n = DIM[V]
    for S, D in AS_PAIRS:
        p = f"{V.lower()}_{S}_{D}"
        emit(file, f"cast_as!{{c20_{p}_as, w_{p}_as, {V}<{S} => {D}> ({fields})}}")
        meta(f"c20_{p}_as", tier, f"{V}<{S}>::as_::<{D}>(): r.i bit-equal to AsPrimitive::<{D}>::as_(a.i) for all i",
             f"all {V}<{S}>: every element any {S} bit pattern" + (" (NaN, infinities, subnormals included)" if S == "f32" else ""), timeout=tmo(V))
    for S, D in NUMCAST_PAIRS:
        p = f"{V.lower()}_{S}_{D}"
        emit(file, f"cast_numcast!{{c20_{p}_numcast, w_{p}_numcast, {V}<{S} => {D}> ({fields})}}")
        meta(f"c20_{p}_numcast", tier, f"{V}<{S}>::numcast::<{D}>(): Some(v) with v.i == <{D} as NumCast>::from(a.i); None iff some lane is None",
             f"all {V}<{S}>: every element any {S} bit pattern" + (" (NaN, infinities included)" if S == "f32" else ""), timeout=tmo(V))

FITS_I16_U8 = "pre(x => 0 <= x && x <= 255)"
def az_casts_i16_u8(file, V, fields, tier, panics):
    S, D = "i16", "u8"
    p = f"{V.lower()}_{S}_{D}"
    ty = f"{V}<{S} => {D}> ({fields})"
    alld = f"all {V}<i16>: every element any i16"
    fitd = f"all {V}<i16> with every element in 0..=255 (the scalar cast's no-panic precondition under debug assertions)"
    emit(file, f"cast_az_vec!{{c20_{p}_az, w_{p}_az, {ty}, az, Cast::cast, {FITS_I16_U8}}}")
    meta(f"c20_{p}_az", tier, f"{V}<i16>::az::<u8>(): per element az::Cast::cast (precondition form)", fitd, timeout=tmo(V))
    emit(file, f"cast_az_checked!{{c20_{p}_checked_as, w_{p}_checked_as, {ty}}}")
    meta(f"c20_{p}_checked_as", tier, f"{V}<i16>::checked_as::<u8>(): Some(v) with v.i == scalar checked_cast; None iff some lane is None", alld, timeout=tmo(V))
    emit(file, f"cast_az_vec!{{c20_{p}_saturating_as, w_{p}_saturating_as, {ty}, saturating_as, SaturatingCast::saturating_cast, pre(x => true)}}")
    meta(f"c20_{p}_saturating_as", tier, f"{V}<i16>::saturating_as::<u8>(): per element az::SaturatingCast", alld, timeout=tmo(V))
    emit(file, f"cast_az_vec!{{c20_{p}_wrapping_as, w_{p}_wrapping_as, {ty}, wrapping_as, WrappingCast::wrapping_cast, pre(x => true)}}")
    meta(f"c20_{p}_wrapping_as", tier, f"{V}<i16>::wrapping_as::<u8>(): per element az::WrappingCast", alld, timeout=tmo(V))
    emit(file, f"cast_az_overflowing!{{c20_{p}_overflowing_as, w_{p}_overflowing_as, {ty}, pre(x => true)}}")
    meta(f"c20_{p}_overflowing_as", tier, f"{V}<i16>::overflowing_as::<u8>(): lanes == scalar wrapped values, flag == OR of the lane flags", alld, timeout=tmo(V))
    emit(file, f"cast_az_vec!{{c20_{p}_unwrapped_as, w_{p}_unwrapped_as, {ty}, unwrapped_as, UnwrappedCast::unwrapped_cast, {FITS_I16_U8}}}")
    meta(f"c20_{p}_unwrapped_as", tier, f"{V}<i16>::unwrapped_as::<u8>(): per element az::UnwrappedCast (precondition form)", fitd, timeout=tmo(V))
    if panics:
        for vm in ("az", "unwrapped_as"):
            emit(file, f"cast_az_vec_panics!{{c20_{p}_{vm}_panics, {ty}, {vm}, {FITS_I16_U8}}}")
            meta(f"c20_{p}_{vm}_panics", tier, f"{V}<i16>::{vm}::<u8>() panics on EVERY input where some element does not fit (as the scalar cast does)",
                 f"all {V}<i16> with some element outside 0..=255", timeout=tmo(V))

def az_casts_f32_i8(file, V, fields, tier):
    S, D = "f32", "i8"
    p = f"{V.lower()}_{S}_{D}"
    ty = f"{V}<{S} => {D}> ({fields})"
    emit(file, f"cast_az_checked!{{c20_{p}_checked_as, w_{p}_checked_as, {ty}}}")
    meta(f"c20_{p}_checked_as", tier, f"{V}<f32>::checked_as::<i8>(): Some(v) with v.i == scalar checked_cast; None iff some lane is None",
         f"all {V}<f32>: every element any f32 bit pattern (NaN, infinities included)", timeout=tmo(V, 120))
    emit(file, f"cast_az_vec!{{c20_{p}_saturating_as, w_{p}_saturating_as, {ty}, saturating_as, SaturatingCast::saturating_cast, pre(x => x == x)}}")
    meta(f"c20_{p}_saturating_as", tier, f"{V}<f32>::saturating_as::<i8>(): per element az::SaturatingCast (precondition form: the scalar cast panics on NaN)",
         f"all {V}<f32> without NaN elements (infinities included)", timeout=tmo(V, 120))
    emit(file, f"cast_az_vec!{{c20_{p}_wrapping_as, w_{p}_wrapping_as, {ty}, wrapping_as, WrappingCast::wrapping_cast, pre(x => x.is_finite())}}")
    meta(f"c20_{p}_wrapping_as", tier, f"{V}<f32>::wrapping_as::<i8>(): per element az::WrappingCast (precondition form: the scalar cast panics on NaN/inf)",
         f"all {V}<f32> with finite elements", timeout=tmo(V, 120))
    emit(file, f"cast_az_overflowing!{{c20_{p}_overflowing_as, w_{p}_overflowing_as, {ty}, pre(x => x.is_finite())}}")
    meta(f"c20_{p}_overflowing_as", tier, f"{V}<f32>::overflowing_as::<i8>(): lanes == scalar wrapped values, flag == OR of lane flags (precondition form: finite)",
         f"all {V}<f32> with finite elements", timeout=tmo(V, 120))

UF_NOTE = ("; the scalar f32 operation of the dependency is replaced (kani::stub) by an ARBITRARY deterministic function of the "
           "argument bit patterns (Ackermann encoding, seeded with every lane's argument tuple; unseeded arguments get unconstrained values), so the law is proved for every deterministic scalar operation, hence for the real one")

def ufcap(lanes):
    return 4 if lanes <= 4 else 16 if lanes <= 16 else 32 if lanes <= 32 else 64
def ufstubs(lanes):
    c = ufcap(lanes)
    return f"stubs(uf{c}_seed, uf{c}_f32_abs_diff_eq, uf{c}_f32_relative_eq, uf{c}_f32_ulps_eq)"

def accs_fields(fields):
    return " ".join(f"(.{f})" for f in fields.split())

def float_vec(file, V, fields, tier):
    p = f"{V.lower()}_f32"
    n = DIM[V]
    # (a variant reading the seeded values directly instead of calling the stub on the scalar side was tried: 25x slower in the SAT solver)
    emit(file, f"lift_inv_uf!{{c20_{p}_inv_uf, {V}<f32> ({fields}), uf{ufcap(n)}_seed, uf{ufcap(n)}_f32_inv}}")
    meta(f"c20_{p}_inv_uf", tier, f"Inv::inv on {V}<f32>: r.i bit-equal to scalar Inv::inv(a.i) for all i",
         f"all {V}<f32>: every element any f32 bit pattern" + UF_NOTE, timeout=tmo(V))
    emit(file, f"approx_uf!{{c20_{p}_abs_diff_eq_uf, c20_{p}_relative_eq_uf, c20_{p}_ulps_eq_uf, {V}<f32>, any_vec!({V}<f32> ({fields})), [{accs_fields(fields)}], {ufstubs(n)}}}")
    for m, extra in (("abs_diff_eq", "epsilon any f32"), ("relative_eq", "epsilon, max_relative any f32"), ("ulps_eq", "epsilon any f32, max_ulps any u32")):
        meta(f"c20_{p}_{m}_uf", tier, f"{m} on {V}<f32> == conjunction over the {n} element pairs of scalar f32 {m}",
             f"all pairs of {V}<f32> (any f32 bit patterns incl. NaN/inf), {extra}" + UF_NOTE, timeout=tmo(V))

MATS = [("RM2", "rm2", 2, "row-major Mat2"), ("RM3", "rm3", 3, "row-major Mat3"), ("RM4", "rm4", 4, "row-major Mat4"),
        ("CM2", "cm2", 2, "column-major Mat2"), ("CM3", "cm3", 3, "column-major Mat3"), ("CM4", "cm4", 4, "column-major Mat4")]

def pairs(n):
    return " ".join(f"({i},{j})" for i in range(n) for j in range(n))
def pair_accs(n):
    return " ".join(f"([({i},{j})])" for i in range(n) for j in range(n))

def mats(file_q, file_t):
    for M, lo, n, desc in MATS:
        tier = "quick" if n <= 3 else "thorough"
        f = file_q if tier == "quick" else file_t
        for S, D in (("i16", "u8"), ("f32", "i8")):
            p = f"{lo}_{S}_{D}"
            emit(f, f"mat_as!{{c20_{p}_as, c20_{p}_map, w_{p}_as, w_{p}_map, {M}<{S} => {D}>, any_{lo}, [{pairs(n)}]}}")
            dom = f"all {desc}<{S}>: each of the {n*n} elements any {S} bit pattern"
            meta(f"c20_{p}_as", tier, f"{desc}<{S}>::as_::<{D}>(): r[(i,j)] == AsPrimitive::<{D}>::as_(m[(i,j)]) for all (i,j) (no transposition, no mixing)", dom, timeout=60)
            meta(f"c20_{p}_map", tier, f"{desc}<{S}>::map(|x| x.as_()): r[(i,j)] == cast of m[(i,j)] for all (i,j)", dom, timeout=60)
        for S, D in (("i16", "u8"), ("f32", "u8")):
            p = f"{lo}_{S}_{D}"
            emit(f, f"mat_numcast!{{c20_{p}_numcast, w_{p}_numcast, {M}<{S} => {D}>, any_{lo}, [{pairs(n)}]}}")
            meta(f"c20_{p}_numcast", tier, f"{desc}<{S}>::numcast::<{D}>(): Some(r) with r[(i,j)] == <{D} as NumCast>::from(m[(i,j)]); None iff some element fails",
                 f"all {desc}<{S}>: each of the {n*n} elements any {S} bit pattern", timeout=60)
        p = f"{lo}_i8"
        emit(f, f"mat_zero_one!{{c20_{p}_zero, c20_{p}_is_zero, {M}<i8>, any_{lo}, [{pairs(n)}]}}")
        meta(f"c20_{p}_zero", tier, f"<{desc}<i8> as Zero>::zero(): every element zero", "no input", timeout=60)
        meta(f"c20_{p}_is_zero", tier, f"Zero::is_zero on {desc}<i8> == all elements zero", f"all {desc}<i8>", timeout=60)
        # approx (uninterpreted scalar predicate); the vek impls loop over the rows/columns: unwind dim+1
        tier_a = "quick" if n == 2 else "thorough"
        fa = file_q if tier_a == "quick" else file_t
        p = f"{lo}_f32"
        emit(fa, f"approx_uf!{{c20_{p}_abs_diff_eq_uf, c20_{p}_relative_eq_uf, c20_{p}_ulps_eq_uf, {M}<f32>, any_{lo}(), [{pair_accs(n)}], {ufstubs(n*n)}, unwind {n+1}}}")
        for m, extra in (("abs_diff_eq", "epsilon any f32"), ("relative_eq", "epsilon, max_relative any f32"), ("ulps_eq", "epsilon any f32, max_ulps any u32")):
            meta(f"c20_{p}_{m}_uf", tier_a, f"{m} on {desc}<f32> == conjunction over the {n*n} element pairs (i,j) of scalar f32 {m}",
                 f"all pairs of {desc}<f32> (any f32 bit patterns incl. NaN/inf), {extra}" + UF_NOTE, timeout=300)

def quats(file_q):
    mk = "Quaternion::<f32> { x: kani::any(), y: kani::any(), z: kani::any(), w: kani::any() }"
    emit(file_q, f"approx_uf!{{c20_quat_f32_abs_diff_eq_uf, c20_quat_f32_relative_eq_uf, c20_quat_f32_ulps_eq_uf, Quaternion<f32>, {mk}, [(.x) (.y) (.z) (.w)], {ufstubs(4)}}}")
    for m, extra in (("abs_diff_eq", "epsilon any f32"), ("relative_eq", "epsilon, max_relative any f32"), ("ulps_eq", "epsilon any f32, max_ulps any u32")):
        meta(f"c20_quat_f32_{m}_uf", "quick", f"{m} on Quaternion<f32> == conjunction over x,y,z,w of scalar f32 {m}",
             f"all pairs of Quaternion<f32> (any f32 bit patterns incl. NaN/inf), {extra}" + UF_NOTE, timeout=60)

REAL_DOM = ("all pairs with every element NaN or |v| <= f32::MAX/2 (restriction needed only because CBMC's float-overflow/NaN "
            "instrumentation flags inf-inf and overflowing a-b inside approx's scalar code; subnormals, zeros, NaN included), ")
def approx_real(file_t):
    items = [("vec2_f32", "Vec2<f32>", "Vec2::<f32>::new(any_f32_half_range(), any_f32_half_range())", "(.x) (.y)", 2),
             ("vec3_f32", "Vec3<f32>", "Vec3::<f32>::new(any_f32_half_range(), any_f32_half_range(), any_f32_half_range())", "(.x) (.y) (.z)", 3),
             ("vec4_f32", "Vec4<f32>", "Vec4::<f32>::new(any_f32_half_range(), any_f32_half_range(), any_f32_half_range(), any_f32_half_range())", "(.x) (.y) (.z) (.w)", 4),
             ("quat_f32", "Quaternion<f32>", "Quaternion::<f32> { x: any_f32_half_range(), y: any_f32_half_range(), z: any_f32_half_range(), w: any_f32_half_range() }", "(.x) (.y) (.z) (.w)", 4)]
    H = "any_f32_half_range()"
    v2 = f"Vec2 {{ x: {H}, y: {H} }}"
    items.append(("rm2_f32", "RM2<f32>", f"RM2 {{ rows: Vec2 {{ x: {v2}, y: {v2} }} }}", pair_accs(2), 4))
    items.append(("cm2_f32", "CM2<f32>", f"CM2 {{ cols: Vec2 {{ x: {v2}, y: {v2} }} }}", pair_accs(2), 4))
    for p, ty, mk, accs, n in items:
        unw = ", unwind 3" if p[:3] in ("rm2", "cm2") else ""
        emit(file_t, f"approx_real!{{c20_{p}_abs_diff_eq_real, c20_{p}_relative_eq_real, c20_{p}_ulps_eq_real, w_{p}_abs_diff_eq_real, w_{p}_relative_eq_real, w_{p}_ulps_eq_real, {ty}, {mk}, [{accs}], kissat{unw}}}")
        meta(f"c20_{p}_abs_diff_eq_real", "thorough", f"abs_diff_eq on {ty} == conjunction over elements of the REAL scalar f32 abs_diff_eq (no stub)",
             REAL_DOM + "epsilon any f32", bounded="element magnitudes <= f32::MAX/2 (or NaN); the unrestricted f32 domain is covered by the corresponding *_uf harness", timeout=900)
        meta(f"c20_{p}_relative_eq_real", "thorough", f"relative_eq on {ty} == conjunction over elements of the REAL scalar f32 relative_eq (no stub)",
             REAL_DOM + "epsilon any f32, max_relative == f32::default_max_relative() (= f32::EPSILON, concrete)",
             bounded="max_relative fixed to the default; element magnitudes <= f32::MAX/2 (or NaN); the unrestricted domain (any max_relative) is covered by the corresponding *_uf harness", timeout=900)
        meta(f"c20_{p}_ulps_eq_real", "thorough", f"ulps_eq on {ty} == conjunction over elements of the REAL scalar f32 ulps_eq (no stub)",
             REAL_DOM + "epsilon any f32, max_ulps any u32", bounded="element magnitudes <= f32::MAX/2 (or NaN); the unrestricted f32 domain is covered by the corresponding *_uf harness", timeout=900)

def shapes(file_q):
    A = "kani::any()"
    def sc(name, src, dst, mk, call, fields, clause, dom):
        fl = ", ".join(f"({a}) : {d}" for a, d in fields)
        emit(file_q, f"shape_cast!{{c20_{name}, w_{name}, {src} => {dst}, {mk}, |s| {call}, [{fl}]}}")
        meta(f"c20_{name}", "quick", clause, dom, timeout=60)
    # Rect / Rect3: position and extent element types differ, so a p/e mix-up is visible
    rect_mk = f"Rect {{ x: {A}, y: {A}, w: {A}, h: {A} }}"
    rect_f = [(".x", "u8"), (".y", "u8"), (".w", "i8"), (".h", "i8")]
    sc("rect_as", "Rect<i16, u8>", "Rect<u8, i8>", rect_mk, "s.as_::<u8, i8>()", rect_f,
       "Rect<i16,u8>::as_::<u8,i8>(): x,y converted by i16->u8 `as`, w,h by u8->i8 `as`, field by field", "all Rect<i16,u8>")
    sc("rect_map", "Rect<i16, u8>", "Rect<u8, i8>", rect_mk, "s.map(|p| AsPrimitive::<u8>::as_(p), |e| AsPrimitive::<i8>::as_(e))", rect_f,
       "Rect<i16,u8>::map(pf, ef) with cast closures: pf applied to x,y and ef to w,h, field by field", "all Rect<i16,u8>")
    rect3_mk = f"Rect3 {{ x: {A}, y: {A}, z: {A}, w: {A}, h: {A}, d: {A} }}"
    rect3_f = [(".x", "u8"), (".y", "u8"), (".z", "u8"), (".w", "i8"), (".h", "i8"), (".d", "i8")]
    sc("rect3_as", "Rect3<i16, u8>", "Rect3<u8, i8>", rect3_mk, "s.as_::<u8, i8>()", rect3_f,
       "Rect3<i16,u8>::as_::<u8,i8>(): x,y,z by i16->u8, w,h,d by u8->i8, field by field", "all Rect3<i16,u8>")
    sc("rect3_map", "Rect3<i16, u8>", "Rect3<u8, i8>", rect3_mk, "s.map(|p| AsPrimitive::<u8>::as_(p), |e| AsPrimitive::<i8>::as_(e))", rect3_f,
       "Rect3<i16,u8>::map(pf, ef) with cast closures, field by field", "all Rect3<i16,u8>")
    for S, D in (("i16", "u8"), ("f32", "i8")):
        aabr_mk = f"Aabr::<{S}> {{ min: any_v2(), max: any_v2() }}"
        aabr_f = [(".min.x", D), (".min.y", D), (".max.x", D), (".max.y", D)]
        sc(f"aabr_{S}_{D}_as", f"Aabr<{S}>", f"Aabr<{D}>", aabr_mk, f"s.as_::<{D}>()", aabr_f,
           f"Aabr<{S}>::as_::<{D}>(): min.x, min.y, max.x, max.y each converted by the scalar `as`", f"all Aabr<{S}> (min/max unordered, any bit patterns)")
        aabb_mk = f"Aabb::<{S}> {{ min: any_v3(), max: any_v3() }}"
        aabb_f = [(".min.x", D), (".min.y", D), (".min.z", D), (".max.x", D), (".max.y", D), (".max.z", D)]
        sc(f"aabb_{S}_{D}_as", f"Aabb<{S}>", f"Aabb<{D}>", aabb_mk, f"s.as_::<{D}>()", aabb_f,
           f"Aabb<{S}>::as_::<{D}>(): the six min/max elements each converted by the scalar `as`", f"all Aabb<{S}>")
    sc("aabr_map", "Aabr<i16>", "Aabr<u8>", "Aabr::<i16> { min: any_v2(), max: any_v2() }", "s.map(|p| AsPrimitive::<u8>::as_(p))",
       [(".min.x", "u8"), (".min.y", "u8"), (".max.x", "u8"), (".max.y", "u8")], "Aabr<i16>::map(cast closure): element by element", "all Aabr<i16>")
    sc("aabb_map", "Aabb<i16>", "Aabb<u8>", "Aabb::<i16> { min: any_v3(), max: any_v3() }", "s.map(|p| AsPrimitive::<u8>::as_(p))",
       [(".min.x", "u8"), (".min.y", "u8"), (".min.z", "u8"), (".max.x", "u8"), (".max.y", "u8"), (".max.z", "u8")], "Aabb<i16>::map(cast closure): element by element", "all Aabb<i16>")
    sc("lineseg2_as", "LineSegment2<i16>", "LineSegment2<u8>", "LineSegment2::<i16> { start: any_v2(), end: any_v2() }", "s.as_::<u8>()",
       [(".start.x", "u8"), (".start.y", "u8"), (".end.x", "u8"), (".end.y", "u8")], "LineSegment2<i16>::as_::<u8>(): start/end elements each converted by the scalar `as`", "all LineSegment2<i16>")
    sc("lineseg3_as", "LineSegment3<f32>", "LineSegment3<i8>", "LineSegment3::<f32> { start: any_v3(), end: any_v3() }", "s.as_::<i8>()",
       [(".start.x", "i8"), (".start.y", "i8"), (".start.z", "i8"), (".end.x", "i8"), (".end.y", "i8"), (".end.z", "i8")],
       "LineSegment3<f32>::as_::<i8>(): start/end elements each converted by the scalar `as`", "all LineSegment3<f32> (any bit patterns)")

def main():
    # ---- integer lifts
    for V, fields, tier in VECS:
        f = "gen_lifts_quick.rs" if tier == "quick" else "gen_lifts_thorough.rs"
        for T in ("i8", "u8"):
            int_lifts(f, V, fields, T, tier)
    int_lifts("gen_lifts_thorough.rs", "Vec4", "x y z w", "i16", "thorough", division=False)
    for V, fields in (("Vec2", "x y"), ("Vec3", "x y z"), ("Vec4", "x y z w")):
        euclid_panics("gen_lifts_quick.rs", V, fields, "i8", "quick")
    euclid_panics("gen_lifts_quick.rs", "Vec4", "x y z w", "u8", "quick")
    euclid_panics("gen_lifts_thorough.rs", "Vec8", nums(8), "i8", "thorough")
    # ---- Zero / One on float vectors (real scalar semantics)
    for V, fields, tier, file in (("Vec4", "x y z w", "quick", "gen_lifts_quick.rs"), ("Vec8", nums(8), "thorough", "gen_lifts_thorough.rs")):
        p = f"{V.lower()}_f32"
        emit(file, f"lift_zero_one!{{c20_{p}_zero, c20_{p}_is_zero, c20_{p}_one, c20_{p}_is_one, w_{p}_zero, w_{p}_is_zero, w_{p}_one, w_{p}_is_one, {V}<f32> ({fields})}}")
        d = f"all {V}<f32>: every element any f32 bit pattern (NaN, -0.0 included)"
        meta(f"c20_{p}_zero", tier, f"<{V}<f32> as Zero>::zero(): every element bit-equal to f32::zero()", "no input", timeout=60)
        meta(f"c20_{p}_is_zero", tier, f"Zero::is_zero on {V}<f32> == all elements is_zero", d, timeout=60)
        meta(f"c20_{p}_one", tier, f"<{V}<f32> as One>::one(): every element bit-equal to f32::one()", "no input", timeout=60)
        meta(f"c20_{p}_is_one", tier, f"One::is_one on {V}<f32> == all elements is_one", d, timeout=60)
    # ---- casts
    for V, fields, tier in VECS:
        f = "gen_casts_quick.rs" if tier == "quick" else "gen_casts_thorough.rs"
        casts(f, V, fields, tier)
    for V, fields in (("Vec2", "x y"), ("Vec3", "x y z"), ("Vec4", "x y z w")):
        az_casts_i16_u8("gen_casts_quick.rs", V, fields, "quick", panics=True)
    az_casts_i16_u8("gen_casts_thorough.rs", "Vec8", nums(8), "thorough", panics=True)
    az_casts_f32_i8("gen_casts_thorough.rs", "Vec3", "x y z", "thorough")
    az_casts_f32_i8("gen_casts_thorough.rs", "Vec8", nums(8), "thorough")
    # ---- float vectors (uninterpreted scalar op)
    for V, fields, tier in VECS:
        f = "gen_float_quick.rs" if tier == "quick" else "gen_float_thorough.rs"
        float_vec(f, V, fields, tier)

    # ---- matrices, quaternions, shapes
    mats("gen_mat_quick.rs", "gen_mat_thorough.rs")
    quats("gen_float_quick.rs")
    approx_real("gen_float_thorough.rs")
    shapes("gen_shapes_quick.rs")

    for file, lines in OUT.items():
        with open(os.path.join(ROOT, "src", file), "w") as fh:
            fh.write("// GENERATED by tools/gen.py -- macro invocations only; the harness text is in macros.rs\n")
            fh.write("\n".join(lines) + "\n")
    with open(os.path.join(ROOT, "tools", "meta_gen.json"), "w") as fh:
        json.dump(META, fh, indent=1)
    print(len(META), "generated harnesses;", {k: len(v) for k, v in OUT.items()})

if __name__ == "__main__":
    main()
