#!/usr/bin/env python3
"""Runs C20 Kani harnesses and records status / time per harness in tools/results.json.

usage: tools/run.py [--tier quick|thorough] [--match REGEX] [--names a,b,c] [-j N] [--timeout S] [--log FILE]
Uses the same cargo kani command line as the suite driver.
"""
import argparse, json, os, re, subprocess, sys, time

ROOT = os.path.dirname(os.path.dirname(os.path.abspath(__file__)))

def load_meta():
    out = []
    for f in ("meta_gen.json", "meta_hand.json"):
        p = os.path.join(ROOT, "tools", f)
        if os.path.exists(p):
            out += json.load(open(p))
    return out

def parse(lines):
    cur = {}      # thread -> harness
    res = {}
    active = None
    for ln in lines:
        m = re.match(r"(?:Thread (\d+): )?Checking harness (\S+?)\.\.\.", ln)
        if m:
            t = m.group(1) or "0"
            cur[t] = m.group(2)
            if m.group(1) is None:
                active = cur[t]
            continue
        m = re.match(r"Thread (\d+): *$", ln)
        if m:
            active = cur.get(m.group(1))
            continue
        if active is None:
            continue
        r = res.setdefault(active, {"status": None, "time": None, "failed_checks": [], "timeout": False})
        if ln.startswith("VERIFICATION:- "):
            r["status"] = "SUCCESSFUL" if "SUCCESSFUL" in ln else "FAILED"
        elif ln.startswith("Verification Time:"):
            r["time"] = float(ln.split(":")[1].strip().rstrip("s"))
        elif ln.startswith("Failed Checks:"):
            r["failed_checks"].append(ln[len("Failed Checks:"):].strip()[:200])
        elif "CBMC timed out" in ln:
            r["timeout"] = True
    return res

def main():
    ap = argparse.ArgumentParser()
    ap.add_argument("--tier")
    ap.add_argument("--match")
    ap.add_argument("--names")
    ap.add_argument("-j", type=int, default=8)
    ap.add_argument("--timeout", type=int, default=300)
    ap.add_argument("--log", default="/tmp/c20_run.log")
    ap.add_argument("--no-min", action="store_true", help="overwrite the recorded time instead of keeping the minimum")
    ap.add_argument("--results", default=os.path.join(ROOT, "tools", "results.json"))
    a = ap.parse_args()
    meta = load_meta()
    names = [m["harness"] for m in meta]
    if a.tier:
        names = [m["harness"] for m in meta if m["tier"] == a.tier]
    if a.match:
        names = [n for n in names if re.search(a.match, n)]
    if a.names:
        names = a.names.split(",")
    if not names:
        print("no harness selected"); return 1
    cmd = ["cargo", "kani", "-Z", "function-contracts", "-Z", "stubbing", "-Z", "unstable-options",
           "--harness-timeout", f"{a.timeout}s", "-j", str(a.j), "--output-format", "terse", "--exact"]
    for n in names:
        cmd += ["--harness", "h::" + n]
    env = dict(os.environ, CARGO_NET_OFFLINE="true", CARGO_TARGET_DIR=os.environ.get("C20_TARGET", "/tmp/vekverif/kani_target_c20"))
    t0 = time.time()
    p = subprocess.run(cmd, cwd=ROOT, env=env, stdout=subprocess.PIPE, stderr=subprocess.STDOUT, text=True)
    wall = time.time() - t0
    open(a.log, "w").write(p.stdout)
    res = parse(p.stdout.splitlines())
    allres = json.load(open(a.results)) if os.path.exists(a.results) else {}
    sf = {m["harness"]: m["should_fail"] for m in meta}
    bad = []
    for n in names:
        r = res.get("h::" + n)
        if r is None:
            bad.append((n, "NO RESULT")); continue
        old = allres.get(n)
        if old and old.get("status") == r["status"] and old.get("time") and r["time"] and not a.no_min:
            r["time"] = min(r["time"], old["time"])   # machine load varies a lot: keep the best measurement
        allres[n] = r
        expect = "FAILED" if sf.get(n) else "SUCCESSFUL"
        if r["status"] != expect or (sf.get(n) and r["timeout"]):
            bad.append((n, r["status"], "timeout" if r["timeout"] else "", r["failed_checks"][:3]))
    json.dump(allres, open(a.results, "w"), indent=1, sort_keys=True)
    times = sorted(((res["h::" + n]["time"] or 0, n) for n in names if "h::" + n in res), reverse=True)
    print(f"{len(names)} harnesses, wall {wall:.1f}s, sum of verification times {sum(t for t, _ in times):.1f}s")
    print("slowest:", [(round(t, 1), n) for t, n in times[:8]])
    print(f"{len(bad)} unexpected:")
    for b in bad:
        print("  ", b)
    if not res:
        print(p.stdout[-3000:])
    return 0

if __name__ == "__main__":
    sys.exit(main())
