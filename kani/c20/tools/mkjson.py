#!/usr/bin/env python3
"""Builds harnesses.json from tools/meta_gen.json + tools/meta_hand.json (+ tools/known_failing.json) and the
measured results in tools/results.json."""
import json, math, os, sys

ROOT = os.path.dirname(os.path.dirname(os.path.abspath(__file__)))
T = lambda f: os.path.join(ROOT, "tools", f)

def main():
    meta = json.load(open(T("meta_gen.json"))) + json.load(open(T("meta_hand.json")))
    res = json.load(open(T("results.json"))) if os.path.exists(T("results.json")) else {}
    kf = json.load(open(T("known_failing.json"))) if os.path.exists(T("known_failing.json")) else {}
    out, missing, wrong = [], [], []
    for m in meta:
        h = m["harness"]
        r = res.get(h)
        measured = None
        if r is None:
            missing.append(h)
        else:
            measured = r["time"]
            expect_fail = m["should_fail"] or h in kf
            ok = (r["status"] == "FAILED") if expect_fail else (r["status"] == "SUCCESSFUL")
            if not ok or (expect_fail and r.get("timeout")):
                wrong.append((h, r["status"], r.get("timeout")))
        timeout = m.get("timeout") or 60
        if measured:
            timeout = max(timeout, int(math.ceil(measured * 5 / 10.0) * 10))
        out.append({
            "harness": h,
            "qualified": "h::" + h,
            "tier": m["tier"],
            "timeout": timeout,
            "should_fail": m["should_fail"],
            "clause": m["clause"],
            "domain": m["domain"],
            "bounded": m.get("bounded"),
            "known_failing": kf.get(h),
            "measured_s": None if measured is None else round(measured, 1),
        })
    names = [o["harness"] for o in out]
    assert len(names) == len(set(names)), "duplicate harness names"
    json.dump(out, open(os.path.join(ROOT, "harnesses.json"), "w"), indent=1)
    q = [o for o in out if o["tier"] == "quick"]
    print(len(out), "harnesses;", len(q), "quick, sum measured quick",
          round(sum(o["measured_s"] or 0 for o in q), 1), "s;", len(missing), "without result;", len(wrong), "with unexpected status")
    for w in wrong: print("  UNEXPECTED", w)
    if missing: print("  missing e.g.", missing[:10])

if __name__ == "__main__":
    main()
