//! C11 supplement on machine integers (the Verus units work in exact reals, where `v * (1 / w)` and `v / w` coincide): the spatial
//! functions that are offered for integer element types keep their per-element integer definitions.
use vek::vec::repr_c::{Vec2, Vec3, Vec4};

fn small() -> i32 { let v: i32 = kani::any(); kani::assume(v >= -50 && v <= 50); v }

/// homogenized divides every element by w (integer division), in place and by value
#[kani::proof]
fn c11_homogenized_i32() {
    let v = Vec4::<i32>::new(small(), small(), small(), small());
    kani::assume(v.w != 0);
    let h = v.homogenized();
    assert!(h == Vec4::new(v.x / v.w, v.y / v.w, v.z / v.w, v.w / v.w));
    assert!(h.w == 1);
    let mut m = v; m.homogenize();
    assert!(m == h);
}
fn tiny() -> i16 { let v: i16 = kani::any(); kani::assume(v >= -20 && v <= 20); v }
/// dot, squared magnitude / distance and cross on integers
#[kani::proof]
fn c11_integer_dot_cross_i16() {
    let a = Vec3::<i16>::new(tiny(), tiny(), tiny());
    let b = Vec3::<i16>::new(tiny(), tiny(), tiny());
    assert!(a.dot(b) == a.x * b.x + a.y * b.y + a.z * b.z);
    assert!(a.magnitude_squared() == a.x * a.x + a.y * a.y + a.z * a.z);
    assert!(a.distance_squared(b) == (a.x - b.x) * (a.x - b.x) + (a.y - b.y) * (a.y - b.y) + (a.z - b.z) * (a.z - b.z));
    assert!(a.cross(b) == Vec3::new(a.y * b.z - a.z * b.y, a.z * b.x - a.x * b.z, a.x * b.y - a.y * b.x));
}
/// the 2D side / area functions on integers (truncating halving)
#[kani::proof]
fn c11_integer_side_area_i16() {
    let (p, q, r) = (Vec2::<i16>::new(tiny(), tiny()), Vec2::<i16>::new(tiny(), tiny()), Vec2::<i16>::new(tiny(), tiny()));
    let side = (q.x - p.x) * (r.y - p.y) - (q.y - p.y) * (r.x - p.x);
    assert!(r.determine_side(p, q) == side);
    assert!(Vec2::signed_triangle_area(p, q, r) == side / 2);
    assert!(Vec2::triangle_area(p, q, r) == (side / 2).abs());
}
#[kani::proof]
fn c11_guard_homogenized_wrong_fails() {
    let v = Vec4::<i32>::new(small(), small(), small(), small());
    kani::assume(v.w != 0);
    assert!(v.homogenized().x == v.x * (1 / v.w));
}
