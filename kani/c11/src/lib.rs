#![allow(unused)]
#[cfg(kani)]
mod h;
