// harnesses for c12
