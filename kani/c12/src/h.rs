//! C12, integer clause: "integer interpolation equals the real-valued result rounded to nearest (ties away from zero) for
//! every pair of endpoints that the factor's float type represents exactly, including to<from on unsigned types and
//! endpoints at the range limits".  Thin monomorphic wrappers around vek::ops::Lerp with Kani function contracts.
use vek::ops::Lerp;

/// exact real-valued lerp of 8-bit endpoints at a dyadic factor k/64, rounded half away from zero, in integer arithmetic:
/// from + k*(to-from)/64  =  (64*from + k*(to-from)) / 64
fn expect_i64(from: i64, to: i64, k: i64) -> i64 {
    let num = 64 * from + k * (to - from);          // exact
    let q = num.div_euclid(64);
    let r = num.rem_euclid(64);                     // 0..63
    // round half away from zero: r > 32 up; r == 32 -> away from zero (up if num > 0, down if num < 0 means q stays)
    if r > 32 { q + 1 } else if r < 32 { q } else if num >= 0 { q + 1 } else { q }
}

macro_rules! lerp_int {
    ($wrap:ident, $wrapp:ident, $h:ident, $hp:ident, $hend:ident, $T:ty, $F:ty) => {
        // factor k/64 with k in 0..=64 is exactly representable in f32/f64, and so is every 8-bit endpoint
        #[kani::requires(k <= 64)]
        #[kani::ensures(|r: &$T| (*r as i64) == expect_i64(from as i64, to as i64, k as i64))]
        fn $wrap(from: $T, to: $T, k: u8) -> $T { <$T as Lerp<$F>>::lerp_unclamped(from, to, (k as $F) / 64.0) }
        // the precise formula has two float multiplications: CBMC needs the factor grid coarsened to quarters (bounded)
        #[kani::requires(k <= 64 && k % 16 == 0)]
        #[kani::ensures(|r: &$T| (*r as i64) == expect_i64(from as i64, to as i64, k as i64))]
        fn $wrapp(from: $T, to: $T, k: u8) -> $T { <$T as Lerp<$F>>::lerp_unclamped_precise(from, to, (k as $F) / 64.0) }
        #[kani::proof_for_contract($wrap)]
        fn $h() { $wrap(kani::any(), kani::any(), kani::any()); }
        #[kani::proof_for_contract($wrapp)]
        fn $hp() { $wrapp(kani::any(), kani::any(), kani::any()); }
        /// end points with a fully symbolic factor equal to 0.0 / 1.0, and the clamped form
        #[kani::proof]
        fn $hend() {
            let from: $T = kani::any(); let to: $T = kani::any();
            assert!(<$T as Lerp<$F>>::lerp_unclamped(from, to, 0.0) == from);
            assert!(<$T as Lerp<$F>>::lerp_unclamped(from, to, 1.0) == to);
            assert!(<$T as Lerp<$F>>::lerp(from, to, 2.0) == to);
            assert!(<$T as Lerp<$F>>::lerp(from, to, -1.0) == from);
            assert!(<&$T as Lerp<$F>>::lerp_unclamped(&from, &to, 1.0) == to);
        }
    };
}

lerp_int!(lerp_u8_f32, lerp_precise_u8_f32, c12_contract_lerp_u8_f32, c12_contract_lerp_precise_u8_f32, c12_lerp_endpoints_u8_f32, u8, f32);
lerp_int!(lerp_i8_f32, lerp_precise_i8_f32, c12_contract_lerp_i8_f32, c12_contract_lerp_precise_i8_f32, c12_lerp_endpoints_i8_f32, i8, f32);
lerp_int!(lerp_u8_f64, lerp_precise_u8_f64, c12_contract_lerp_u8_f64, c12_contract_lerp_precise_u8_f64, c12_lerp_endpoints_u8_f64, u8, f64);
lerp_int!(lerp_i8_f64, lerp_precise_i8_f64, c12_contract_lerp_i8_f64, c12_contract_lerp_precise_i8_f64, c12_lerp_endpoints_i8_f64, i8, f64);

/// ties: at factor 1/2 the real-valued result is a half-integer whenever from + to is odd -- it must round away from zero
/// (every pair of 8-bit end points; both formulas, by value and by reference); cheap because the factor is a constant
macro_rules! lerp_ties {
    ($h:ident, $T:ty, $F:ty) => {
        #[kani::proof]
        fn $h() {
            let from: $T = kani::any(); let to: $T = kani::any();
            let e = expect_i64(from as i64, to as i64, 32);
            assert!(<$T as Lerp<$F>>::lerp_unclamped(from, to, 0.5) as i64 == e);
            assert!(<$T as Lerp<$F>>::lerp_unclamped_precise(from, to, 0.5) as i64 == e);
            assert!(<&$T as Lerp<$F>>::lerp_unclamped(&from, &to, 0.5) as i64 == e);
            assert!(<&$T as Lerp<$F>>::lerp_unclamped_precise(&from, &to, 0.5) as i64 == e);
            assert!(<$T as Lerp<$F>>::lerp(from, to, 0.5) as i64 == e);
            assert!(<$T as Lerp<$F>>::lerp_precise(from, to, 0.5) as i64 == e);
        }
    };
}
lerp_ties!(c12_lerp_ties_u8_f32, u8, f32);
lerp_ties!(c12_lerp_ties_i8_f32, i8, f32);
lerp_ties!(c12_lerp_ties_u8_f64, u8, f64);
lerp_ties!(c12_lerp_ties_i8_f64, i8, f64);
lerp_ties!(c12_lerp_ties_i16_f64, i16, f64);
lerp_ties!(c12_lerp_ties_u16_f32, u16, f32);

/// range limits of wider types (exactly representable end points): no panic, end points hit
#[kani::proof]
fn c12_lerp_range_limits_i32_f64() {
    let from: i32 = kani::any(); let to: i32 = kani::any();
    assert!(<i32 as Lerp<f64>>::lerp_unclamped(from, to, 0.0) == from);
    assert!(<i32 as Lerp<f64>>::lerp_unclamped(from, to, 1.0) == to);
}
#[kani::proof]
fn c12_lerp_range_limits_u16_f32() {
    let from: u16 = kani::any(); let to: u16 = kani::any();
    assert!(<u16 as Lerp<f32>>::lerp_unclamped(from, to, 0.0) == from);
    assert!(<u16 as Lerp<f32>>::lerp_unclamped(from, to, 1.0) == to);
}

/// vacuity guard: the contract precondition is satisfiable and the harness is live
#[kani::proof]
fn c12_guard_wrong_endpoint_fails() {
    let from: u8 = kani::any(); let to: u8 = kani::any();
    kani::assume(from != to);
    assert!(<u8 as Lerp<f32>>::lerp_unclamped(from, to, 1.0) == from);
}

/// end points that f32 represents exactly but whose difference it does not (|to - from| >= 2^24): the far end is still `to`.
/// KNOWN FINDING (open): the fast form rounds `(to as f32) - (from as f32)`; e.g. from = -2^24, to = 2^24 - 1, factor 1.0 gives 2^24.
#[kani::proof]
fn c12_lerp_wide_difference_i32_f32() {
    let from: i32 = kani::any(); let to: i32 = kani::any();
    kani::assume(from >= -(1 << 24) && from <= (1 << 24) && to >= -(1 << 24) && to <= (1 << 24));
    assert!(<i32 as Lerp<f32>>::lerp_unclamped(from, to, 1.0) == to);
}
/// the same end points with differences that f32 represents exactly (|to - from| <= 2^24): both ends are hit (complete for that domain)
#[kani::proof]
fn c12_lerp_representable_difference_i32_f32() {
    let from: i32 = kani::any(); let to: i32 = kani::any();
    kani::assume(from >= -(1 << 23) && from <= (1 << 23) && to >= -(1 << 23) && to <= (1 << 23));
    assert!(<i32 as Lerp<f32>>::lerp_unclamped(from, to, 0.0) == from);
    assert!(<i32 as Lerp<f32>>::lerp_unclamped(from, to, 1.0) == to);
    assert!(<i32 as Lerp<f32>>::lerp_unclamped_precise(from, to, 1.0) == to);
}

// ---- ProgressMapperFn (fn-pointer progress mapper: outside the Verus subset) and a Transition that uses it
use vek::transition::{ProgressMapper, ProgressMapperFn, Transition};
static mut SEEN: u32 = 0;
static mut CALLS: u32 = 0;
static mut OUT: f32 = 0.0;
fn recording_mapper(x: f32) -> f32 { unsafe { SEEN = x.to_bits(); CALLS += 1; OUT } }

/// map_progress calls the wrapped function exactly once with the progress value and returns its result; the default mapper is
/// the identity; From<fn> wraps the given function
#[kani::proof]
fn c12_progress_mapper_fn() {
    let p: f32 = kani::any();
    let out: f32 = kani::any();
    unsafe { OUT = out; CALLS = 0; }
    let m = ProgressMapperFn(recording_mapper as fn(f32) -> f32);
    let r = m.map_progress(p);
    assert!(r.to_bits() == out.to_bits() && unsafe { SEEN } == p.to_bits() && unsafe { CALLS } == 1);
    let d = ProgressMapperFn::<f32>::default();
    assert!(d.map_progress(p).to_bits() == p.to_bits());
    let f = ProgressMapperFn::from(recording_mapper as fn(f32) -> f32);
    unsafe { CALLS = 0; }
    assert!(f.map_progress(p).to_bits() == out.to_bits() && unsafe { CALLS } == 1);
}
/// every Transition accessor, with a fn-pointer mapper, hands (start, end, *mapped* progress) to the Lerp method of its name
/// (a recording value type stands for T, so that no float interpolation circuit has to be compared)
#[derive(Copy, Clone, PartialEq, Debug)]
struct Lv(u8);
static mut LAST: (u8, u8, u8, u32) = (0, 0, 0, 0);       // (method, from, to, factor bits)
macro_rules! rec_lerp { ($Self:ty, $get:expr) => {
    impl<'a> Lerp<f32> for $Self {
        type Output = Lv;
        fn lerp_unclamped_precise(from: Self, to: Self, f: f32) -> Lv { unsafe { LAST = (1, $get(from), $get(to), f.to_bits()); } Lv(1) }
        fn lerp_unclamped(from: Self, to: Self, f: f32) -> Lv { unsafe { LAST = (2, $get(from), $get(to), f.to_bits()); } Lv(2) }
        fn lerp_precise(from: Self, to: Self, f: f32) -> Lv { unsafe { LAST = (3, $get(from), $get(to), f.to_bits()); } Lv(3) }
        fn lerp(from: Self, to: Self, f: f32) -> Lv { unsafe { LAST = (4, $get(from), $get(to), f.to_bits()); } Lv(4) }
    }
}}
rec_lerp!(Lv, |x: Lv| x.0);
rec_lerp!(&'a Lv, |x: &Lv| x.0);
#[kani::proof]
fn c12_transition_with_mapper_fn() {
    let (a, b): (u8, u8) = (kani::any(), kani::any());
    let p: f32 = kani::any();
    let out: f32 = kani::any();
    unsafe { OUT = out; CALLS = 0; }
    let t = Transition::with_mapper_and_progress(Lv(a), Lv(b), ProgressMapperFn(recording_mapper as fn(f32) -> f32), p);
    let want = |m: u8| (m, a, b, out.to_bits());
    assert!(t.into_current_unclamped_precise() == Lv(1) && unsafe { LAST } == want(1) && unsafe { SEEN } == p.to_bits());
    assert!(t.into_current_unclamped() == Lv(2) && unsafe { LAST } == want(2));
    assert!(t.into_current_precise() == Lv(3) && unsafe { LAST } == want(3));
    assert!(t.into_current() == Lv(4) && unsafe { LAST } == want(4));
    assert!(t.current_unclamped_precise() == Lv(1) && unsafe { LAST } == want(1));
    assert!(t.current_unclamped() == Lv(2) && unsafe { LAST } == want(2));
    assert!(t.current_precise() == Lv(3) && unsafe { LAST } == want(3));
    assert!(t.current() == Lv(4) && unsafe { LAST } == want(4));
    assert!(unsafe { CALLS } == 8);
}

/// the four `*_inclusive_range` default methods of `Lerp` (RangeInclusive::into_inner is outside the Verus subset: assumed there) hand
/// (start, end, factor) of the range, in that order, to the method of their name
#[kani::proof]
fn c12_lerp_range_forms() {
    let (a, b): (u8, u8) = (kani::any(), kani::any());
    let f: f32 = kani::any();
    let want = |m: u8| (m, a, b, f.to_bits());
    assert!(<Lv as Lerp<f32>>::lerp_unclamped_precise_inclusive_range(Lv(a)..=Lv(b), f) == Lv(1) && unsafe { LAST } == want(1));
    assert!(<Lv as Lerp<f32>>::lerp_unclamped_inclusive_range(Lv(a)..=Lv(b), f) == Lv(2) && unsafe { LAST } == want(2));
    assert!(<Lv as Lerp<f32>>::lerp_precise_inclusive_range(Lv(a)..=Lv(b), f) == Lv(3) && unsafe { LAST } == want(3));
    assert!(<Lv as Lerp<f32>>::lerp_inclusive_range(Lv(a)..=Lv(b), f) == Lv(4) && unsafe { LAST } == want(4));
    // and on a real element type: the range form equals the two-argument form
    let (x, y): (u8, u8) = (kani::any(), kani::any());
    assert!(<u8 as Lerp<f32>>::lerp_unclamped_inclusive_range(x..=y, 1.0) == <u8 as Lerp<f32>>::lerp_unclamped(x, y, 1.0));
    assert!(<u8 as Lerp<f32>>::lerp_inclusive_range(x..=y, 0.0) == x);
}
