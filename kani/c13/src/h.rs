//! C13 supplement on machine integers (the Verus units work in exact reals, which cannot see integer truncation):
//! "every rectangle method equals the box method on the converted value", is_valid, on i8 boxes.
use vek::geom::repr_c::{Aabr, Aabb, Rect, Rect3};
use vek::vec::repr_c::{Vec2, Vec3, Extent2, Extent3};

fn small() -> i8 { let v: i8 = kani::any(); kani::assume(v >= -30 && v <= 30); v }
fn rect() -> Rect<i8, i8> { Rect::new(small(), small(), small(), small()) }
fn rect3() -> Rect3<i8, i8> { Rect3::new(small(), small(), small(), small(), small(), small()) }

#[kani::proof]
fn c13_is_valid_aabr_i8() {
    let b = Aabr { min: Vec2::new(kani::any::<i8>(), kani::any()), max: Vec2::new(kani::any(), kani::any()) };
    assert!(b.is_valid() == (b.min.x <= b.max.x && b.min.y <= b.max.y));
}
#[kani::proof]
fn c13_is_valid_aabb_i8() {
    let b = Aabb { min: Vec3::new(kani::any::<i8>(), kani::any(), kani::any()), max: Vec3::new(kani::any(), kani::any(), kani::any()) };
    assert!(b.is_valid() == (b.min.x <= b.max.x && b.min.y <= b.max.y && b.min.z <= b.max.z));
}
#[kani::proof]
fn c13_rect_is_box_i8() {
    let (r, o) = (rect(), rect());
    let (a, b) = (r.into_aabr(), o.into_aabr());
    let p = Vec2::new(small(), small());
    assert!(a.min == Vec2::new(r.x, r.y) && a.max == Vec2::new(r.x + r.w, r.y + r.h));
    assert!(r.contains_point(p) == a.contains_point(p));
    assert!(r.contains_rect(o) == a.contains_aabr(b));
    assert!(r.collides_with_rect(o) == a.collides_with_aabr(b));
    assert!(r.center() == a.center());
    assert!(r.union(o).into_aabr() == a.union(b));
    assert!(r.intersection(o).into_aabr() == a.intersection(b));
    assert!(r.expanded_to_contain_point(p).into_aabr() == a.expanded_to_contain_point(p));
    assert!(r.collision_vector_with_rect(o) == a.collision_vector_with_aabr(b));
    assert!(Rect::from(a) == r);
}
#[kani::proof]
fn c13_rect3_is_box_i8() {
    let (r, o) = (rect3(), rect3());
    let (a, b) = (r.into_aabb(), o.into_aabb());
    let p = Vec3::new(small(), small(), small());
    assert!(r.contains_point(p) == a.contains_point(p));
    assert!(r.contains_rect3(o) == a.contains_aabb(b));
    assert!(r.collides_with_rect3(o) == a.collides_with_aabb(b));
    assert!(r.center() == a.center());
    assert!(r.union(o).into_aabb() == a.union(b));
    assert!(r.intersection(o).into_aabb() == a.intersection(b));
    assert!(r.collision_vector_with_rect3(o) == a.collision_vector_with_aabb(b));
    assert!(Rect3::from(a) == r);
}
/// integer boxes: union is the smallest box containing both; intersection contains exactly the common points
#[kani::proof]
fn c13_union_intersection_pointwise_i8() {
    let a = Aabr { min: Vec2::new(small(), small()), max: Vec2::new(small(), small()) };
    let b = Aabr { min: Vec2::new(small(), small()), max: Vec2::new(small(), small()) };
    kani::assume(a.is_valid() && b.is_valid());
    let p = Vec2::new(small(), small());
    let (u, i) = (a.union(b), a.intersection(b));
    assert!(!(a.contains_point(p) || b.contains_point(p)) || u.contains_point(p));
    assert!(i.contains_point(p) == (a.contains_point(p) && b.contains_point(p)));
    assert!(a.made_valid() == a);
}
#[kani::proof]
fn c13_guard_rect_center_differs_fails() {
    let r = rect();
    assert!(r.center() == Vec2::new(r.x, r.y));
}

/// collision vector on integer boxes: per axis, `max1 - min2` when the (truncated) centre of self lies before the centre of other, else
/// `min1 - max2`; translating self by minus that component makes the boxes touch on that axis (2D and 3D)
#[kani::proof]
fn c13_collision_vector_i8() {
    let a = Aabr { min: Vec2::new(small(), small()), max: Vec2::new(small(), small()) };
    let b = Aabr { min: Vec2::new(small(), small()), max: Vec2::new(small(), small()) };
    let v = a.collision_vector_with_aabr(b);
    let (c1, c2) = (a.center(), b.center());
    assert!(c1.x == (a.min.x + a.max.x) / 2 && c2.y == (b.min.y + b.max.y) / 2);
    assert!(v.x == if c1.x < c2.x { a.max.x - b.min.x } else { a.min.x - b.max.x });
    assert!(v.y == if c1.y < c2.y { a.max.y - b.min.y } else { a.min.y - b.max.y });
    assert!(a.max.x - v.x == b.min.x || a.min.x - v.x == b.max.x);
    let a3 = Aabb { min: Vec3::new(small(), small(), small()), max: Vec3::new(small(), small(), small()) };
    let b3 = Aabb { min: Vec3::new(small(), small(), small()), max: Vec3::new(small(), small(), small()) };
    let w = a3.collision_vector_with_aabb(b3);
    let (d1, d2) = (a3.center(), b3.center());
    assert!(w.z == if d1.z < d2.z { a3.max.z - b3.min.z } else { a3.min.z - b3.max.z });
    assert!(a3.max.z - w.z == b3.min.z || a3.min.z - w.z == b3.max.z);
}

/// centre / size / half-size on integer boxes (2D and 3D): size is max - min, half-size is that halved (integer division, per axis),
/// centre is (min + max) halved; the rectangle forms agree on the converted value
#[kani::proof]
fn c13_center_size_half_size_int() {
    fn c() -> i16 { let v: i16 = kani::any(); kani::assume(v >= -128 && v <= 127); v }
    let a = Aabr { min: Vec2::new(c(), c()), max: Vec2::new(c(), c()) };
    assert!(a.size() == Extent2::new(a.max.x - a.min.x, a.max.y - a.min.y));
    assert!(a.half_size() == Extent2::new((a.max.x - a.min.x) / 2, (a.max.y - a.min.y) / 2));
    assert!(a.center() == Vec2::new((a.min.x + a.max.x) / 2, (a.min.y + a.max.y) / 2));
    assert!(a.into_rect().extent() == a.size() && a.into_rect().position() == a.min);
    let b = Aabb { min: Vec3::new(c(), c(), c()), max: Vec3::new(c(), c(), c()) };
    assert!(b.size() == Extent3::new(b.max.x - b.min.x, b.max.y - b.min.y, b.max.z - b.min.z));
    assert!(b.half_size() == Extent3::new((b.max.x - b.min.x) / 2, (b.max.y - b.min.y) / 2, (b.max.z - b.min.z) / 2));
    assert!(b.center() == Vec3::new((b.min.x + b.max.x) / 2, (b.min.y + b.max.y) / 2, (b.min.z + b.max.z) / 2));
    assert!(b.into_rect3().extent() == b.size() && b.into_rect3().position() == b.min);
}
