//! C02 supplement: the comparison family (goes through AsRef), Ord-based min/max and reductions, Sum/Product, sign tests,
//! from_slice — per element, on machine integers.
use vek::vec::repr_c::*;

macro_rules! cmp_family {
    ($h:ident, $V:ident, $n:expr, [$($i:tt $f:tt),+]) => {
        #[kani::proof]
        fn $h() {
            let a = $V::<i8>::from([$( { let _ = $i; kani::any::<i8>() } ),+]);
            let b = $V::<i8>::from([$( { let _ = $i; kani::any::<i8>() } ),+]);
            let (xa, xb) = (a.into_array(), b.into_array());
            let eq = a.cmpeq(&b).into_array();   let ne = a.cmpne(&b).into_array();
            let ge = a.cmpge(&b).into_array();   let gt = a.cmpgt(&b).into_array();
            let le = a.cmple(&b).into_array();   let lt = a.cmplt(&b).into_array();
            let peq = a.partial_cmpeq(&b).into_array(); let pne = a.partial_cmpne(&b).into_array();
            let pge = a.partial_cmpge(&b).into_array(); let pgt = a.partial_cmpgt(&b).into_array();
            let ple = a.partial_cmple(&b).into_array(); let plt = a.partial_cmplt(&b).into_array();
            let seq = a.cmpeq_simd(b).into_array(); let slt = a.partial_cmplt_simd(b).into_array();
            let mn = $V::<i8>::min(a, b).into_array(); let mx = $V::<i8>::max(a, b).into_array();
            let pmn = $V::<i8>::partial_min(a, b).into_array(); let pmx = $V::<i8>::partial_max(a, b).into_array();
            $(
                assert!(eq[$i] == (xa[$i] == xb[$i]) && ne[$i] == (xa[$i] != xb[$i]));
                assert!(ge[$i] == (xa[$i] >= xb[$i]) && gt[$i] == (xa[$i] > xb[$i]));
                assert!(le[$i] == (xa[$i] <= xb[$i]) && lt[$i] == (xa[$i] < xb[$i]));
                assert!(peq[$i] == eq[$i] && pne[$i] == ne[$i] && pge[$i] == ge[$i] && pgt[$i] == gt[$i] && ple[$i] == le[$i] && plt[$i] == lt[$i]);
                assert!(seq[$i] == eq[$i] && slt[$i] == lt[$i]);
                assert!(mn[$i] == core::cmp::min(xa[$i], xb[$i]) && mx[$i] == core::cmp::max(xa[$i], xb[$i]));
                assert!(pmn[$i] == mn[$i] && pmx[$i] == mx[$i]);
            )+
            // reductions keep element order and are the folds of the scalar operation
            let mut rmin = xa[0]; let mut rmax = xa[0]; let mut any_neg = false; let mut all_pos = true;
            $( if xa[$i] < rmin { rmin = xa[$i]; } if xa[$i] > rmax { rmax = xa[$i]; }
               if xa[$i] < 0 { any_neg = true; } if !(xa[$i] > 0) { all_pos = false; } )+
            assert!(a.reduce_min() == rmin && a.reduce_max() == rmax);
            assert!(a.reduce_partial_min() == rmin && a.reduce_partial_max() == rmax);
            assert!(a.is_any_negative() == any_neg && a.are_all_positive() == all_pos);
            assert!(a.cmpeq(&a).reduce_and());
        }
    };
}
cmp_family!(c02_cmp_family_vec2, Vec2, 2, [0 x, 1 y]);
cmp_family!(c02_cmp_family_vec3, Vec3, 3, [0 x, 1 y, 2 z]);
cmp_family!(c02_cmp_family_vec4, Vec4, 4, [0 x, 1 y, 2 z, 3 w]);
cmp_family!(c02_cmp_family_rgba, Rgba, 4, [0 r, 1 g, 2 b, 3 a]);
cmp_family!(c02_cmp_family_extent3, Extent3, 3, [0 w, 1 h, 2 d]);
cmp_family!(c02_cmp_family_vec8, Vec8, 8, [0 a, 1 b, 2 c, 3 d, 4 e, 5 f, 6 g, 7 h]);

#[kani::proof]
fn c02_sum_product_iter_vec3() {
    let a = Vec3::<u8>::new(kani::any(), kani::any(), kani::any());
    let b = Vec3::<u8>::new(kani::any(), kani::any(), kani::any());
    kani::assume(a.x < 8 && a.y < 8 && a.z < 8 && b.x < 8 && b.y < 8 && b.z < 8);
    let s: Vec3<u8> = [a, b].iter().cloned().sum();
    let p: Vec3<u8> = [a, b].iter().cloned().product();
    assert!(s == Vec3::new(a.x + b.x, a.y + b.y, a.z + b.z));
    assert!(p == Vec3::new(a.x * b.x, a.y * b.y, a.z * b.z));
    // apply2 / apply3 / zip
    let mut c = a; c.apply2(b, |x, y| x.wrapping_sub(y));
    assert!(c == Vec3::new(a.x.wrapping_sub(b.x), a.y.wrapping_sub(b.y), a.z.wrapping_sub(b.z)));
    let z = a.zip(b);
    assert!(z.x == (a.x, b.x) && z.y == (a.y, b.y) && z.z == (a.z, b.z));
}
#[kani::proof]
#[kani::unwind(6)]
fn c02_from_slice_vec4() {
    let src: [u8; 5] = kani::any();
    let n: usize = kani::any();
    kani::assume(n <= 5);
    let v = Vec4::<u8>::from_slice(&src[..n]);
    let arr = v.into_array();
    let mut i = 0;
    while i < 4 { assert!(arr[i] == if i < n { src[i] } else { 0 }); i += 1; }
}
#[kani::proof]
fn c02_guard_cmp_wrong_fails() {
    let a = Vec2::<i8>::new(kani::any(), kani::any());
    let b = Vec2::<i8>::new(kani::any(), kani::any());
    assert!(a.cmplt(&b).x == (a.y < b.y));
}

// ---- boolean reductions of numeric vectors: reduce_and == every element is non-zero, reduce_or == some element is non-zero
// (one concrete impl per element type in vek: all 8 integer types, their Wrapping forms, f32, f64, bool), every input
use core::num::Wrapping;
macro_rules! bool_red_one {
    ($V:ident, $n:expr, w $I:ty) => {{
        let raw: [$I; $n] = kani::any();
        let arr: [Wrapping<$I>; $n] = raw.map(Wrapping);
        let v = $V::<Wrapping<$I>>::from(arr);
        let mut all = true; let mut any = false;
        let mut i = 0;
        while i < $n { if arr[i].0 == 0 { all = false; } else { any = true; } i += 1; }
        assert!(v.reduce_and() == all);
        assert!(v.reduce_or() == any);
    }};
    ($V:ident, $n:expr, $T:ty, $zero:expr) => {{
        let arr: [$T; $n] = kani::any();
        let v = $V::<$T>::from(arr);
        let mut all = true; let mut any = false;
        let mut i = 0;
        while i < $n { if arr[i] == $zero { all = false; } else { any = true; } i += 1; }
        assert!(v.reduce_and() == all);
        assert!(v.reduce_or() == any);
    }};
}
macro_rules! bool_reductions {
    ($h:ident, $V:ident, $n:expr, $uw:expr) => {
        #[kani::proof]
        #[kani::unwind($uw)]
        fn $h() {
            bool_red_one!($V, $n, i8, 0);  bool_red_one!($V, $n, u8, 0);  bool_red_one!($V, $n, i16, 0); bool_red_one!($V, $n, u16, 0);
            bool_red_one!($V, $n, i32, 0); bool_red_one!($V, $n, u32, 0); bool_red_one!($V, $n, i64, 0); bool_red_one!($V, $n, u64, 0);
            bool_red_one!($V, $n, w i8);  bool_red_one!($V, $n, w u8);  bool_red_one!($V, $n, w i16); bool_red_one!($V, $n, w u16);
            bool_red_one!($V, $n, w i32); bool_red_one!($V, $n, w u32); bool_red_one!($V, $n, w i64); bool_red_one!($V, $n, w u64);
            bool_red_one!($V, $n, f32, 0.0); bool_red_one!($V, $n, f64, 0.0);
            bool_red_one!($V, $n, bool, false);
        }
    };
}
macro_rules! bool_reductions_wide {
    ($h:ident, $V:ident, $n:expr, $uw:expr) => {
        #[kani::proof]
        #[kani::unwind($uw)]
        fn $h() { bool_red_one!($V, $n, i32, 0); bool_red_one!($V, $n, w u8); bool_red_one!($V, $n, f32, 0.0); bool_red_one!($V, $n, bool, false); }
    };
}
bool_reductions!(c02_bool_reductions_vec2, Vec2, 2, 4);
bool_reductions!(c02_bool_reductions_vec3, Vec3, 3, 5);
bool_reductions!(c02_bool_reductions_vec4, Vec4, 4, 6);
bool_reductions!(c02_bool_reductions_extent2, Extent2, 2, 4);
bool_reductions!(c02_bool_reductions_extent3, Extent3, 3, 5);
bool_reductions!(c02_bool_reductions_rgb, Rgb, 3, 5);
bool_reductions!(c02_bool_reductions_rgba, Rgba, 4, 6);
bool_reductions!(c02_bool_reductions_uv, Uv, 2, 4);
bool_reductions!(c02_bool_reductions_uvw, Uvw, 3, 5);
bool_reductions_wide!(c02_bool_reductions_vec8, Vec8, 8, 10);
bool_reductions_wide!(c02_bool_reductions_vec16, Vec16, 16, 18);
bool_reductions_wide!(c02_bool_reductions_vec32, Vec32, 32, 34);
bool_reductions_wide!(c02_bool_reductions_vec64, Vec64, 64, 66);
#[kani::proof]
fn c02_guard_bool_reduction_wrong_fails() {
    let v = Vec2::<i32>::new(kani::any(), kani::any());
    assert!(v.reduce_and() == ((v.x & v.y) != 0));
}

/// from an iterator: the items up to the first `None`, in order, the remaining lanes at their default; the iterator is not pulled
/// again after it has returned `None` (a non-fused iterator would otherwise contribute later items)
struct Unfused { n: u8, pulls_after_none: u8, seen_none: bool }
impl Iterator for Unfused {
    type Item = u8;
    fn next(&mut self) -> Option<u8> {
        if self.seen_none { self.pulls_after_none += 1; return Some(94); }
        if self.n == 0 { self.seen_none = true; return None; }
        self.n -= 1;
        Some(10 + self.n)
    }
}
#[kani::proof]
#[kani::unwind(6)]
fn c02_from_iter_stops_at_none() {
    let n: u8 = kani::any();
    kani::assume(n <= 5);
    let mut it = Unfused { n, pulls_after_none: 0, seen_none: false };
    let v: Vec4<u8> = (&mut it).collect();
    let arr = v.into_array();
    let mut i = 0;
    while i < 4 { assert!(arr[i] == if (i as u8) < n { 10 + n - 1 - i as u8 } else { 0 }); i += 1; }
    assert!(it.pulls_after_none == 0);
    let mut it3 = Unfused { n, pulls_after_none: 0, seen_none: false };
    let e: Extent3<u8> = (&mut it3).collect();
    assert!(e.w == if n > 0 { 10 + n - 1 } else { 0 } && (n >= 3 || e.d == 0));
}
