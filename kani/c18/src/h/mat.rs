// D/E for matrices (vek/src/mat.rs:20-29 transmute_unchecked, 116-364 row-major, 644-893 column-major).
//
// Element (i, j) = row i, column j. `Mat::new(m00, m01, ..)` takes its arguments in row-major order
// in both layouts; the token passed as m_ij has id i*n + j.
//   row arrays:    flat position p = i*n + j holds element (i, j); nested [i][j]
//   column arrays: flat position p = j*n + i holds element (i, j); nested [j][i]
// All eight conversions exist in both layouts. as_row_slice/as_mut_row_slice/as_row_ptr exist only
// for row_major matrices, as_col_slice/as_mut_col_slice/as_col_ptr only for column_major ones.
// The element (i, j) of a matrix value is read directly through the public fields:
//   row_major: m.rows.<i>.<j>      column_major: m.cols.<j>.<i>

use super::*;
use vek::mat::repr_c::column_major as cm;
use vek::mat::repr_c::row_major as rm;

// `$get!(m, i, j)` -> place expression of element (i, j), i and j being field names.
macro_rules! get_rows { ($m:expr, $i:ident, $j:ident) => { $m.rows.$i.$j }; }
macro_rules! get_cols { ($m:expr, $i:ident, $j:ident) => { $m.cols.$j.$i }; }

// mat_spec!(size, callback, get-macro, layout module, names...) ->
//   callback!{ [names] get layout Mat n nn unwind S ( (p i j fi fj)... in row-major order ) }
macro_rules! mat_spec {
    (2, $cb:ident, $get:ident, $l:ident, $($a:ident),*) => { $cb!{ [$($a)*] $get $l Mat2 2 4 6 S4
        ((0 0 0 x x) (1 0 1 x y)
         (2 1 0 y x) (3 1 1 y y)) } };
    (3, $cb:ident, $get:ident, $l:ident, $($a:ident),*) => { $cb!{ [$($a)*] $get $l Mat3 3 9 11 S9
        ((0 0 0 x x) (1 0 1 x y) (2 0 2 x z)
         (3 1 0 y x) (4 1 1 y y) (5 1 2 y z)
         (6 2 0 z x) (7 2 1 z y) (8 2 2 z z)) } };
    (4, $cb:ident, $get:ident, $l:ident, $($a:ident),*) => { $cb!{ [$($a)*] $get $l Mat4 4 16 18 S16
        (( 0 0 0 x x) ( 1 0 1 x y) ( 2 0 2 x z) ( 3 0 3 x w)
         ( 4 1 0 y x) ( 5 1 1 y y) ( 6 1 2 y z) ( 7 1 3 y w)
         ( 8 2 0 z x) ( 9 2 1 z y) (10 2 2 z z) (11 2 3 z w)
         (12 3 0 w x) (13 3 1 w y) (14 3 2 w z) (15 3 3 w w)) } };
}

macro_rules! mat_conv {
    ([$into_row:ident $into_col:ident $from_row:ident $from_col:ident]
     $get:ident $l:ident $M:ident $n:tt $nn:tt $u:tt $S:ident
     ($(($p:tt $i:tt $j:tt $fi:ident $fj:ident))+)) => {

        // into_row_array + into_row_arrays
        #[kani::proof]
        #[kani::unwind($u)]
        fn $into_row() {
            let m = $l::$M::new($(Tok::<$S>::new($p)),+);
            let a: [Tok<$S>; $nn] = m.into_row_array();
            assert!(all_in_state::<$S>(0, $nn, LIVE), "C18: into_row_array dropped an element");
            $( assert!(a[$i * $n + $j].id == $p, "C18: into_row_array order"); )+
            // back into a matrix (checked separately), then the nested form
            let m = $l::$M::from_row_array(a);
            let aa: [[Tok<$S>; $n]; $n] = m.into_row_arrays();
            assert!(all_in_state::<$S>(0, $nn, LIVE), "C18: into_row_arrays dropped an element");
            $( assert!(aa[$i][$j].id == $p, "C18: into_row_arrays order"); )+
            drop(aa);
            assert!(all_in_state::<$S>(0, $nn, DROPPED), "C18: into_row_array(s) leaked an element");
            assert!(st::<$S>($nn) == LIVE);
        }

        // into_col_array + into_col_arrays
        #[kani::proof]
        #[kani::unwind($u)]
        fn $into_col() {
            let m = $l::$M::new($(Tok::<$S>::new($p)),+);
            let a: [Tok<$S>; $nn] = m.into_col_array();
            assert!(all_in_state::<$S>(0, $nn, LIVE), "C18: into_col_array dropped an element");
            $( assert!(a[$j * $n + $i].id == $p, "C18: into_col_array order"); )+
            drop(a);
            assert!(all_in_state::<$S>(0, $nn, DROPPED), "C18: into_col_array leaked an element");
            assert!(st::<$S>($nn) == LIVE);
        }

        // from_row_array + from_row_arrays
        #[kani::proof]
        #[kani::unwind($u)]
        fn $from_row() {
            // a[p] has id p; element (i, j) must be a[i*n + j]
            let a: [Tok<$S>; $nn] = [$(Tok::new($p)),+];
            let m = $l::$M::from_row_array(a);
            assert!(all_in_state::<$S>(0, $nn, LIVE), "C18: from_row_array dropped an element");
            $( assert!($get!(m, $fi, $fj).id == $i * $n + $j, "C18: from_row_array order"); )+
            drop(m);
            assert!(all_in_state::<$S>(0, $nn, DROPPED), "C18: from_row_array leaked an element");
            assert!(st::<$S>($nn) == LIVE);
        }

        // from_col_array
        #[kani::proof]
        #[kani::unwind($u)]
        fn $from_col() {
            // a[p] has id p; element (i, j) must be a[j*n + i]
            let a: [Tok<$S>; $nn] = [$(Tok::new($p)),+];
            let m = $l::$M::from_col_array(a);
            assert!(all_in_state::<$S>(0, $nn, LIVE), "C18: from_col_array dropped an element");
            $( assert!($get!(m, $fi, $fj).id == $j * $n + $i, "C18: from_col_array order"); )+
            drop(m);
            assert!(all_in_state::<$S>(0, $nn, DROPPED), "C18: from_col_array leaked an element");
            assert!(st::<$S>($nn) == LIVE);
        }
    };
}

mat_spec!(2, mat_conv, get_rows, rm, c18_mat_into_row_rm2, c18_mat_into_col_rm2, c18_mat_from_row_rm2, c18_mat_from_col_rm2);
mat_spec!(3, mat_conv, get_rows, rm, c18_mat_into_row_rm3, c18_mat_into_col_rm3, c18_mat_from_row_rm3, c18_mat_from_col_rm3);
mat_spec!(4, mat_conv, get_rows, rm, c18_mat_into_row_rm4, c18_mat_into_col_rm4, c18_mat_from_row_rm4, c18_mat_from_col_rm4);
mat_spec!(2, mat_conv, get_cols, cm, c18_mat_into_row_cm2, c18_mat_into_col_cm2, c18_mat_from_row_cm2, c18_mat_from_col_cm2);
mat_spec!(3, mat_conv, get_cols, cm, c18_mat_into_row_cm3, c18_mat_into_col_cm3, c18_mat_from_row_cm3, c18_mat_from_col_cm3);
mat_spec!(4, mat_conv, get_cols, cm, c18_mat_into_row_cm4, c18_mat_into_col_cm4, c18_mat_from_row_cm4, c18_mat_from_col_cm4);

// Nested-array forms (through transmute_unchecked): [[T; n]; n].
macro_rules! mat_nested {
    ([$nested_col:ident $nested_from:ident]
     $get:ident $l:ident $M:ident $n:tt $nn:tt $u:tt $S:ident
     ($(($p:tt $i:tt $j:tt $fi:ident $fj:ident))+)) => {

        // into_col_arrays, then from_col_arrays of the result gives the same matrix back
        #[kani::proof]
        #[kani::unwind($u)]
        fn $nested_col() {
            let m = $l::$M::new($(Tok::<$S>::new($p)),+);
            let aa: [[Tok<$S>; $n]; $n] = m.into_col_arrays();
            assert!(all_in_state::<$S>(0, $nn, LIVE), "C18: into_col_arrays dropped an element");
            $( assert!(aa[$j][$i].id == $p, "C18: into_col_arrays order"); )+
            let m = $l::$M::from_col_arrays(aa);
            assert!(all_in_state::<$S>(0, $nn, LIVE), "C18: from_col_arrays dropped an element");
            $( assert!($get!(m, $fi, $fj).id == $p, "C18: from_col_arrays order"); )+
            drop(m);
            assert!(all_in_state::<$S>(0, $nn, DROPPED), "C18: col_arrays conversions leaked an element");
            assert!(st::<$S>($nn) == LIVE);
        }

        // from_row_arrays (aa[i][j] has id i*n+j), from_col_arrays (aa[j][i] has id j*n+i)
        #[kani::proof]
        #[kani::unwind($u)]
        fn $nested_from() {
            let a: [Tok<$S>; $nn] = [$(Tok::new($p)),+];
            // build the nested array through the (separately checked) row conversions
            let aa: [[Tok<$S>; $n]; $n] = $l::$M::from_row_array(a).into_row_arrays();
            $( assert!(aa[$i][$j].id == $p); )+
            let m = $l::$M::from_row_arrays(aa);
            assert!(all_in_state::<$S>(0, $nn, LIVE), "C18: from_row_arrays dropped an element");
            $( assert!($get!(m, $fi, $fj).id == $i * $n + $j, "C18: from_row_arrays order"); )+
            // same nested array (aa[a][b].id == a*n + b) read as columns: element (i, j) = aa[j][i]
            let aa: [[Tok<$S>; $n]; $n] = m.into_row_arrays();
            let m = $l::$M::from_col_arrays(aa);
            assert!(all_in_state::<$S>(0, $nn, LIVE), "C18: from_col_arrays dropped an element");
            $( assert!($get!(m, $fi, $fj).id == $j * $n + $i, "C18: from_col_arrays order"); )+
            drop(m);
            assert!(all_in_state::<$S>(0, $nn, DROPPED), "C18: nested array conversions leaked an element");
            assert!(st::<$S>($nn) == LIVE);
        }
    };
}
mat_spec!(2, mat_nested, get_rows, rm, c18_mat_nested_col_rm2, c18_mat_nested_from_rm2);
mat_spec!(3, mat_nested, get_rows, rm, c18_mat_nested_col_rm3, c18_mat_nested_from_rm3);
mat_spec!(4, mat_nested, get_rows, rm, c18_mat_nested_col_rm4, c18_mat_nested_from_rm4);
mat_spec!(2, mat_nested, get_cols, cm, c18_mat_nested_col_cm2, c18_mat_nested_from_cm2);
mat_spec!(3, mat_nested, get_cols, cm, c18_mat_nested_col_cm3, c18_mat_nested_from_cm3);
mat_spec!(4, mat_nested, get_cols, cm, c18_mat_nested_col_cm4, c18_mat_nested_from_cm4);

// `Mat::new` itself: argument m_ij lands at element (i, j) (this is what the harnesses above rely on
// for the `into_*` direction; the `from_*` direction reads the fields directly).
macro_rules! mat_new {
    ([$name:ident]
     $get:ident $l:ident $M:ident $n:tt $nn:tt $u:tt $S:ident
     ($(($p:tt $i:tt $j:tt $fi:ident $fj:ident))+)) => {
        #[kani::proof]
        #[kani::unwind($u)]
        fn $name() {
            let m = $l::$M::new($(Tok::<$S>::new($p)),+);
            assert!(all_in_state::<$S>(0, $nn, LIVE));
            $( assert!($get!(m, $fi, $fj).id == $p, "C18: Mat::new order"); )+
            drop(m);
            assert!(all_in_state::<$S>(0, $nn, DROPPED));
        }
    };
}
mat_spec!(2, mat_new, get_rows, rm, c18_mat_new_rm2);
mat_spec!(3, mat_new, get_rows, rm, c18_mat_new_rm3);
mat_spec!(4, mat_new, get_rows, rm, c18_mat_new_rm4);
mat_spec!(2, mat_new, get_cols, cm, c18_mat_new_cm2);
mat_spec!(3, mat_new, get_cols, cm, c18_mat_new_cm3);
mat_spec!(4, mat_new, get_cols, cm, c18_mat_new_cm4);

// E. Matrix slice views, element type u16 (all values symbolic):
//   as_row_slice (row_major) / as_col_slice (column_major): length n*n; entry p IS element (i, j)
//   (same address, so same value) with p = i*n+j resp. p = j*n+i; the view starts at the matrix's
//   own address; as_mut_*_slice: a write through the view lands in the element and vice versa.
macro_rules! idx_row { ($i:tt, $j:tt, $n:tt) => { $i * $n + $j }; }
macro_rules! idx_col { ($i:tt, $j:tt, $n:tt) => { $j * $n + $i }; }

macro_rules! mat_views {
    ([$name:ident $name_mut:ident]
     $get:ident $l:ident $M:ident $n:tt $nn:tt $u:tt $S:ident
     ($(($p:tt $i:tt $j:tt $fi:ident $fj:ident))+)
     $idx:ident $as_slice:ident $as_mut_slice:ident $as_ptr:ident $as_mut_ptr:ident) => {
        #[kani::proof]
        fn $name() {
            let m = $l::$M::<u16>::new($({ let _ = $p; kani::any() }),+);
            assert!(m.is_packed());
            let s: &[u16] = m.$as_slice();
            assert!(s.len() == $nn, "C18: matrix slice view length");
            assert!(s.as_ptr() as usize == &m as *const _ as usize, "C18: matrix slice view does not start at the matrix");
            assert!(m.$as_ptr() == s.as_ptr());
            $(
                assert!(&s[$idx!($i, $j, $n)] as *const u16 == &$get!(m, $fi, $fj) as *const u16,
                        "C18: matrix slice view entry does not alias the element");
                assert!(s[$idx!($i, $j, $n)] == $get!(m, $fi, $fj), "C18: matrix slice view order");
            )+
        }

        #[kani::proof]
        fn $name_mut() {
            let mut m = $l::$M::<u16>::new($({ let _ = $p; kani::any() }),+);
            let base = &m as *const _ as usize;
            assert!(m.$as_mut_ptr() as usize == base);
            {
                let s: &mut [u16] = m.$as_mut_slice();
                assert!(s.len() == $nn, "C18: matrix mut slice view length");
                assert!(s.as_ptr() as usize == base);
            }
            $(
                {
                    let val: u16 = kani::any();
                    m.$as_mut_slice()[$idx!($i, $j, $n)] = val;
                    assert!($get!(m, $fi, $fj) == val, "C18: write through matrix slice view");
                    let val2: u16 = kani::any();
                    $get!(m, $fi, $fj) = val2;
                    assert!(m.$as_mut_slice()[$idx!($i, $j, $n)] == val2, "C18: read through matrix slice view");
                }
            )+
        }
    };
}

// Adapters: append the view-specific names to what mat_spec! produces.
macro_rules! mat_views_rows {
    ($($t:tt)*) => { mat_views!{ $($t)* idx_row as_row_slice as_mut_row_slice as_row_ptr as_mut_row_ptr } };
}
macro_rules! mat_views_cols {
    ($($t:tt)*) => { mat_views!{ $($t)* idx_col as_col_slice as_mut_col_slice as_col_ptr as_mut_col_ptr } };
}
mat_spec!(2, mat_views_rows, get_rows, rm, c18_mat_view_rm2, c18_mat_view_mut_rm2);
mat_spec!(3, mat_views_rows, get_rows, rm, c18_mat_view_rm3, c18_mat_view_mut_rm3);
mat_spec!(4, mat_views_rows, get_rows, rm, c18_mat_view_rm4, c18_mat_view_mut_rm4);
mat_spec!(2, mat_views_cols, get_cols, cm, c18_mat_view_cm2, c18_mat_view_mut_cm2);
mat_spec!(3, mat_views_cols, get_cols, cm, c18_mat_view_cm3, c18_mat_view_mut_cm3);
mat_spec!(4, mat_views_cols, get_cols, cm, c18_mat_view_cm4, c18_mat_view_mut_cm4);
