// C. Observers on a consuming iterator: the safe trait impls of `IntoIter` (`PartialEq`, `Hash`,
// `Debug`; vek/src/vec.rs:1790 `#[derive(Debug, Hash, PartialEq, Eq)]`) must only look at the
// elements that are still inside the iterator (slots [start, end)).
//
// `Tok`'s PartialEq / Hash / Debug impls assert that the token they are called on is LIVE.
// *_fresh_* harnesses: no pull yet, all slots live: must PASS (the observers themselves are fine).
// *_pulled_* harnesses: after every history of 1..=N pulls: expected to FAIL on the unchanged tree,
//   because the derived impls walk all N `ManuallyDrop` slots of `vector`.

use super::iter::*;
use super::*;
use core::fmt::Write;
use vek::vec::repr_c::*;

macro_rules! obs {
    ([$eq_fresh:ident $eq_pulled:ident $hash_fresh:ident $hash_pulled:ident]
     $V:ident $n:tt $u:tt $S:ident $SD:ident ($($f:tt)+) ($($id:tt)+)) => {
        #[kani::proof]
        #[kani::unwind($u)]
        fn $eq_fresh() {
            let it = $V::new($(Tok::<$S>::new($id)),+).into_iter();
            let same = it == it;
            assert!(same);
            drop(it);
            assert!(all_in_state::<$S>(0, $n, DROPPED));
        }

        #[kani::proof]
        #[kani::unwind($u)]
        fn $eq_pulled() {
            let mut it = $V::new($(Tok::<$S>::new($id)),+).into_iter();
            let mut front = 0usize;
            let mut back = $n as usize;
            history(&mut it, &mut front, &mut back, $n);
            kani::assume(back - front < $n); // at least one element was yielded
            let same = it == it; // must not read a yielded slot
            assert!(same);
            drop(it);
            assert!(table_ok::<$S>($n, front, back, DROPPED));
        }

        #[kani::proof]
        #[kani::unwind($u)]
        fn $hash_fresh() {
            let it = $V::new($(Tok::<$S>::new($id)),+).into_iter();
            let mut h = NullHasher(0);
            it.hash(&mut h);
            drop(it);
            assert!(all_in_state::<$S>(0, $n, DROPPED));
        }

        #[kani::proof]
        #[kani::unwind($u)]
        fn $hash_pulled() {
            let mut it = $V::new($(Tok::<$S>::new($id)),+).into_iter();
            let mut front = 0usize;
            let mut back = $n as usize;
            history(&mut it, &mut front, &mut back, $n);
            kani::assume(back - front < $n); // at least one element was yielded
            let mut h = NullHasher(0);
            it.hash(&mut h); // must not read a yielded slot
            drop(it);
            assert!(table_ok::<$S>($n, front, back, DROPPED));
        }
    };
}

spec!(Vec2, obs, c18_obs_eq_fresh_vec2, c18_obs_eq_pulled_vec2, c18_obs_hash_fresh_vec2, c18_obs_hash_pulled_vec2);
spec!(Vec3, obs, c18_obs_eq_fresh_vec3, c18_obs_eq_pulled_vec3, c18_obs_hash_fresh_vec3, c18_obs_hash_pulled_vec3);
spec!(Vec4, obs, c18_obs_eq_fresh_vec4, c18_obs_eq_pulled_vec4, c18_obs_hash_fresh_vec4, c18_obs_hash_pulled_vec4);
spec!(Rgba, obs, c18_obs_eq_fresh_rgba, c18_obs_eq_pulled_rgba, c18_obs_hash_fresh_rgba, c18_obs_hash_pulled_rgba);
spec!(Extent2, obs, c18_obs_eq_fresh_extent2, c18_obs_eq_pulled_extent2, c18_obs_hash_fresh_extent2, c18_obs_hash_pulled_extent2);
spec!(Vec8, obs, c18_obs_eq_fresh_vec8, c18_obs_eq_pulled_vec8, c18_obs_hash_fresh_vec8, c18_obs_hash_pulled_vec8);

// The smallest concrete histories (one pull), so that the failing slot is explicit.
#[kani::proof]
#[kani::unwind(5)]
fn c18_obs_eq_after_next_vec2() {
    let mut it = Vec2::new(Tok::<S2>::new(0), Tok::<S2>::new(1)).into_iter();
    let t = it.next().unwrap(); // slot 0 (field x) is moved out; the caller owns token 0
    receive(&t, 0);
    let same = it == it; // derived PartialEq compares vector.x first: reads slot 0
    assert!(same);
    drop(t);
}

#[kani::proof]
#[kani::unwind(5)]
fn c18_obs_hash_after_next_back_vec2() {
    let mut it = Vec2::new(Tok::<S2>::new(0), Tok::<S2>::new(1)).into_iter();
    let t = it.next_back().unwrap(); // slot 1 (field y) is moved out
    take(t, 1); // ... and dropped by the caller
    let mut h = NullHasher(0);
    it.hash(&mut h); // derived Hash hashes vector.x then vector.y: reads slot 1
}

// Two different iterators compared with each other (a: any history with at least one pull,
// b: fresh, other tokens). No claim on the result, only on what is read.
#[kani::proof]
#[kani::unwind(6)]
fn c18_obs_eq_two_iters_vec3() {
    let mut a = Vec3::new(Tok::<SD3>::new(0), Tok::<SD3>::new(1), Tok::<SD3>::new(2)).into_iter();
    let b = Vec3::new(Tok::<SD3>::new(4), Tok::<SD3>::new(5), Tok::<SD3>::new(6)).into_iter();
    let mut front = 0usize;
    let mut back = 3usize;
    history(&mut a, &mut front, &mut back, 3);
    kani::assume(back - front < 3);
    let _ = a == b; // must not read a yielded slot of a
    let _ = b == a;
    drop(a);
    drop(b);
    assert!(table_ok::<SD3>(3, front, back, DROPPED));
    assert!(all_in_state::<SD3>(4, 7, DROPPED));
}

// Debug through a minimal fmt::Write sink (core::fmt machinery; N = 2 only).
pub struct Sink(pub usize);
impl fmt::Write for Sink {
    fn write_str(&mut self, s: &str) -> fmt::Result {
        self.0 = self.0.wrapping_add(s.len());
        Ok(())
    }
}

#[kani::proof]
#[kani::unwind(12)]
fn c18_obs_debug_after_next_vec2() {
    let mut it = Vec2::new(Tok::<S2>::new(0), Tok::<S2>::new(1)).into_iter();
    let t = it.next().unwrap(); // slot 0 moved out
    take(t, 0);
    let mut s = Sink(0);
    let r = write!(s, "{:?}", it); // derived Debug prints vector.x: reads slot 0
    assert!(r.is_ok());
}

// Debug after every history of 1..=N pulls (N = 2, 3, 4), and on fresh iterators.
macro_rules! obs_debug {
    ([$fresh:ident $pulled:ident] $V:ident $n:tt $u:tt $S:ident $SD:ident ($($f:tt)+) ($($id:tt)+)) => {
        #[kani::proof]
        #[kani::unwind(12)]
        fn $fresh() {
            let it = $V::new($(Tok::<$S>::new($id)),+).into_iter();
            let mut s = Sink(0);
            let r = write!(s, "{:?}", it);
            assert!(r.is_ok());
            drop(it);
            assert!(all_in_state::<$S>(0, $n, DROPPED));
        }

        #[kani::proof]
        #[kani::unwind(12)]
        fn $pulled() {
            let mut it = $V::new($(Tok::<$S>::new($id)),+).into_iter();
            let mut front = 0usize;
            let mut back = $n as usize;
            history(&mut it, &mut front, &mut back, $n);
            kani::assume(back - front < $n); // at least one element was yielded
            let mut s = Sink(0);
            let r = write!(s, "{:?}", it); // must not read a yielded slot
            assert!(r.is_ok());
            drop(it);
            assert!(table_ok::<$S>($n, front, back, DROPPED));
        }
    };
}
spec!(Vec2, obs_debug, c18_obs_debug_fresh_vec2, c18_obs_debug_pulled_vec2);
spec!(Vec3, obs_debug, c18_obs_debug_fresh_vec3, c18_obs_debug_pulled_vec3);
spec!(Vec4, obs_debug, c18_obs_debug_fresh_vec4, c18_obs_debug_pulled_vec4);
