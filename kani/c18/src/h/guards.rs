// F. Vacuity guards: every harness in this file must FAIL (should_fail = true). They show that the
// ghost table, the observer assertions and the order / aliasing checks of the other files are
// reachable and do detect what they are meant to detect.

use super::iter::*;
use super::*;
use vek::mat::repr_c::column_major as cm;
use vek::mat::repr_c::row_major as rm;
use vek::vec::repr_c::*;

fn v3() -> Vec3<Tok<S3>> {
    Vec3::new(Tok::new(0), Tok::new(1), Tok::new(2))
}

// The iterator does NOT yield id 1 first.
#[kani::proof]
#[kani::unwind(6)]
fn c18_guard_wrong_id_fails() {
    let mut it = v3().into_iter();
    let t = it.next().unwrap();
    take(t, 1);
}

// next_back() does NOT yield the front element.
#[kani::proof]
#[kani::unwind(6)]
fn c18_guard_wrong_end_fails() {
    let mut it = v3().into_iter();
    let t = it.next_back().unwrap();
    take(t, 0);
}

// len() is not constant: after some history it differs from N.
#[kani::proof]
#[kani::unwind(6)]
fn c18_guard_len_changes_fails() {
    let mut it = v3().into_iter();
    let mut front = 0usize;
    let mut back = 3usize;
    history(&mut it, &mut front, &mut back, 5);
    assert!(it.len() == 3);
}

// The exhausted state is reachable within the history bound (cover as a failing assertion).
#[kani::proof]
#[kani::unwind(6)]
fn c18_guard_exhaustion_reachable_fails() {
    let mut it = v3().into_iter();
    let mut front = 0usize;
    let mut back = 3usize;
    history(&mut it, &mut front, &mut back, 5);
    assert!(!(front == 2 && back == 2 && it.next().is_none() && it.next_back().is_none()));
}

// Leak detection: forgetting a partially consumed iterator leaves LIVE elements behind.
#[kani::proof]
#[kani::unwind(6)]
fn c18_guard_leak_detected_fails() {
    let mut it = v3().into_iter();
    let mut front = 0usize;
    let mut back = 3usize;
    history(&mut it, &mut front, &mut back, 5);
    core::mem::forget(it);
    assert!(table_ok::<S3>(3, front, back, DROPPED));
}

// Double-drop detection: a bitwise duplicate of a token dropped twice trips Tok::drop.
#[kani::proof]
#[kani::unwind(6)]
fn c18_guard_double_drop_detected_fails() {
    let v = v3();
    let dup: Tok<S3> = unsafe { core::ptr::read(&v.y) };
    drop(dup);
    drop(v);
}

// Observer detection: comparing / hashing a token that was handed out trips the observer assertion.
#[kani::proof]
#[kani::unwind(6)]
fn c18_guard_observer_eq_detected_fails() {
    let v = v3();
    let shadow: Tok<S3> = unsafe { core::ptr::read(&v.x) }; // bitwise duplicate of slot 0
    let mut it = v.into_iter();
    let t = it.next().unwrap();
    take(t, 0);
    let _ = shadow == shadow;
    core::mem::forget(shadow);
}

#[kani::proof]
#[kani::unwind(6)]
fn c18_guard_observer_hash_detected_fails() {
    let v = v3();
    let shadow: Tok<S3> = unsafe { core::ptr::read(&v.z) };
    let mut it = v.into_iter();
    let t = it.next_back().unwrap();
    take(t, 2);
    let mut h = NullHasher(0);
    shadow.hash(&mut h);
    core::mem::forget(shadow);
}

// Conversions: the array is NOT reversed; the column array of a non-symmetric matrix is NOT the row array.
#[kani::proof]
#[kani::unwind(6)]
fn c18_guard_into_array_order_fails() {
    let a = v3().into_array();
    assert!(a[0].id == 2);
}

#[kani::proof]
#[kani::unwind(11)]
fn c18_guard_col_array_is_not_row_array_fails() {
    let m = rm::Mat3::new(
        Tok::<S9>::new(0), Tok::<S9>::new(1), Tok::<S9>::new(2),
        Tok::<S9>::new(3), Tok::<S9>::new(4), Tok::<S9>::new(5),
        Tok::<S9>::new(6), Tok::<S9>::new(7), Tok::<S9>::new(8),
    );
    let a = m.into_col_array();
    assert!(a[1].id == 1);
}

#[kani::proof]
#[kani::unwind(11)]
fn c18_guard_from_col_array_cm_order_fails() {
    let a: [Tok<S4>; 4] = [Tok::new(0), Tok::new(1), Tok::new(2), Tok::new(3)];
    let m = cm::Mat2::from_col_array(a);
    // element (0, 1) is cols.y.x = a[2], not a[1]
    assert!(m.cols.y.x.id == 1);
}

// from_iter: a short iterator does NOT fill the whole vector with source items.
#[kani::proof]
#[kani::unwind(6)]
fn c18_guard_from_iter_short_fails() {
    let mut src = super::conv::Src::<SD3>::new(2);
    let v: Vec3<Tok<SD3>> = (&mut src).collect();
    assert!(v.z.id == 2);
}

// Views: with symbolic (hence possibly distinct) values, entry 0 is NOT field y, and the view of one
// vector does not alias another vector.
#[kani::proof]
fn c18_guard_view_order_fails() {
    let v: Vec3<u16> = Vec3::new(kani::any(), kani::any(), kani::any());
    assert!(v.as_slice()[0] == v.y);
}

#[kani::proof]
fn c18_guard_view_alias_fails() {
    let v: Vec3<u16> = Vec3::new(kani::any(), kani::any(), kani::any());
    let w: Vec3<u16> = v;
    assert!(v.as_slice().as_ptr() == w.as_slice().as_ptr());
}

#[kani::proof]
fn c18_guard_mat_view_order_fails() {
    let m: cm::Mat2<u16> = cm::Mat2::new(kani::any(), kani::any(), kani::any(), kani::any());
    // column-major storage: entry 1 is element (1, 0), not element (0, 1)
    assert!(m.as_col_slice()[1] == m.cols.y.x);
}
