// D. Vector conversions with a non-Copy element type: every element is moved exactly once (no
// `Drop` call during the conversion, nothing skipped: ghost table) and the documented order is
// kept (element i of the array / tuple / iterator <-> field i in declaration order).
//
//   From<[T; N]>   vek/src/vec.rs:1891-1903  (ManuallyDrop + ptr::read of each slot)
//   into_array     vek/src/vec.rs:509-511
//   into_tuple     vek/src/vec.rs:505-507, From<tuple> vek/src/vec.rs:1886-1890
//   FromIterator   vek/src/vec.rs:1857-1870  (T: Default; short iterators leave defaults, long
//                                             iterators are pulled exactly N times)
//   from_slice     vek/src/vec.rs:542-544    (T: Default + Copy)

use super::*;
use core::iter::FromIterator;
use vek::vec::repr_c::*;

/// A source iterator that creates tokens `next, next+1, ..., end-1` on demand.
pub struct Src<S: Space> {
    pub next: u8,
    pub end: u8,
    pub calls: u8,
    _s: PhantomData<S>,
}
impl<S: Space> Src<S> {
    pub fn new(end: u8) -> Self {
        Src { next: 0, end, calls: 0, _s: PhantomData }
    }
}
impl<S: Space> Iterator for Src<S> {
    type Item = Tok<S>;
    fn next(&mut self) -> Option<Tok<S>> {
        self.calls += 1;
        if self.next < self.end {
            let t = Tok::new(self.next);
            self.next += 1;
            Some(t)
        } else {
            None
        }
    }
}

macro_rules! conv {
    ([$from_array:ident $into_array:ident $tuple:ident $from_iter:ident]
     $V:ident $n:tt $u:tt $S:ident $SD:ident ($($f:tt)+) ($($id:tt)+)) => {
        #[kani::proof]
        #[kani::unwind($u)]
        fn $from_array() {
            let a: [Tok<$S>; $n] = [$(Tok::new($id)),+];
            let v = $V::from(a);
            assert!(all_in_state::<$S>(0, $n, LIVE), "C18: From<[T; N]> dropped an element");
            $( assert!(v.$f.id == $id, "C18: From<[T; N]> order"); )+
            drop(v);
            assert!(all_in_state::<$S>(0, $n, DROPPED), "C18: From<[T; N]> leaked an element");
            assert!(st::<$S>($n) == LIVE);
        }

        #[kani::proof]
        #[kani::unwind($u)]
        fn $into_array() {
            let v = $V::new($(Tok::<$S>::new($id)),+);
            let a: [Tok<$S>; $n] = v.into_array();
            assert!(all_in_state::<$S>(0, $n, LIVE), "C18: into_array dropped an element");
            $( assert!(a[$id].id == $id, "C18: into_array order"); )+
            drop(a);
            assert!(all_in_state::<$S>(0, $n, DROPPED), "C18: into_array leaked an element");
            assert!(st::<$S>($n) == LIVE);
        }

        #[kani::proof]
        #[kani::unwind($u)]
        fn $tuple() {
            let v = $V::new($(Tok::<$S>::new($id)),+);
            let t = v.into_tuple();
            assert!(all_in_state::<$S>(0, $n, LIVE), "C18: into_tuple dropped an element");
            $( assert!(t.$id.id == $id, "C18: into_tuple order"); )+
            let v2 = $V::from(t);
            assert!(all_in_state::<$S>(0, $n, LIVE), "C18: From<tuple> dropped an element");
            $( assert!(v2.$f.id == $id, "C18: From<tuple> order"); )+
            drop(v2);
            assert!(all_in_state::<$S>(0, $n, DROPPED), "C18: tuple conversion leaked an element");
            assert!(st::<$S>($n) == LIVE);
        }

        // FromIterator from a source of m items, m symbolic in 0..=N+2 (fewer, exactly N, more).
        #[kani::proof]
        #[kani::unwind($u)]
        fn $from_iter() {
            let m: u8 = kani::any();
            kani::assume(m <= $n + 2);
            let used: u8 = if m < $n { m } else { $n };
            let first_default = <$SD as Space>::FIRST_DEFAULT;
            let mut src = Src::<$SD>::new(m);
            let v = $V::from_iter(&mut src);
            // exactly min(m, N) items were pulled out of the source; nothing is pulled past N.
            assert!(src.next == used, "C18: from_iter pulled a wrong number of items");
            assert!(src.calls as usize <= $n, "C18: from_iter pulled past N");
            // exactly N default elements were created, the first min(m, N) of them replaced (dropped).
            assert!(<$SD as Space>::next_default() == first_default + $n);
            // element i is source item i for i < min(m, N), a live default otherwise.
            $(
                if ($id as u8) < used {
                    assert!(v.$f.id == $id, "C18: from_iter order");
                } else {
                    assert!(v.$f.id >= first_default, "C18: from_iter short iterator: not a default");
                }
                assert!(st::<$SD>(v.$f.id) == LIVE, "C18: from_iter left a dropped element in the vector");
            )+
            let mut dropped_defaults = 0u8;
            let mut i = 0u8;
            while i < $n {
                let s = st::<$SD>(first_default + i);
                assert!(s == LIVE || s == DROPPED);
                if s == DROPPED {
                    dropped_defaults += 1;
                }
                i += 1;
            }
            assert!(dropped_defaults == used, "C18: from_iter dropped a wrong number of defaults");
            drop(v);
            // now everything that was ever created is dropped exactly once
            assert!(all_in_state::<$SD>(0, used as usize, DROPPED));
            assert!(all_in_state::<$SD>(used as usize, $n + 2, LIVE)); // never created
            assert!(all_in_state::<$SD>(first_default as usize, first_default as usize + $n, DROPPED));
        }
    };
}

spec!(Vec2, conv, c18_conv_from_array_vec2, c18_conv_into_array_vec2, c18_conv_tuple_vec2, c18_conv_from_iter_vec2);
spec!(Vec3, conv, c18_conv_from_array_vec3, c18_conv_into_array_vec3, c18_conv_tuple_vec3, c18_conv_from_iter_vec3);
spec!(Vec4, conv, c18_conv_from_array_vec4, c18_conv_into_array_vec4, c18_conv_tuple_vec4, c18_conv_from_iter_vec4);
spec!(Extent2, conv, c18_conv_from_array_extent2, c18_conv_into_array_extent2, c18_conv_tuple_extent2, c18_conv_from_iter_extent2);
spec!(Extent3, conv, c18_conv_from_array_extent3, c18_conv_into_array_extent3, c18_conv_tuple_extent3, c18_conv_from_iter_extent3);
spec!(Rgb, conv, c18_conv_from_array_rgb, c18_conv_into_array_rgb, c18_conv_tuple_rgb, c18_conv_from_iter_rgb);
spec!(Rgba, conv, c18_conv_from_array_rgba, c18_conv_into_array_rgba, c18_conv_tuple_rgba, c18_conv_from_iter_rgba);
spec!(Uv, conv, c18_conv_from_array_uv, c18_conv_into_array_uv, c18_conv_tuple_uv, c18_conv_from_iter_uv);
spec!(Uvw, conv, c18_conv_from_array_uvw, c18_conv_into_array_uvw, c18_conv_tuple_uvw, c18_conv_from_iter_uvw);
spec!(Vec8, conv, c18_conv_from_array_vec8, c18_conv_into_array_vec8, c18_conv_tuple_vec8, c18_conv_from_iter_vec8);
spec!(Vec16, conv, c18_conv_from_array_vec16, c18_conv_into_array_vec16, c18_conv_tuple_vec16, c18_conv_from_iter_vec16);
spec!(Vec32, conv, c18_conv_from_array_vec32, c18_conv_into_array_vec32, c18_conv_tuple_vec32, c18_conv_from_iter_vec32);
spec!(Vec64, conv, c18_conv_from_array_vec64, c18_conv_into_array_vec64, c18_conv_tuple_vec64, c18_conv_from_iter_vec64);

// FromIterator / collect() fed by real owning iterators: the items that do not fit stay in the
// source and are dropped exactly once by it; the vector's own IntoIter as a source.
#[kani::proof]
#[kani::unwind(8)]
fn c18_conv_collect_array_iter_vec3() {
    // [T; 4] -> Vec3 (one item too many), ids 0..4
    let a: [Tok<SD3>; 4] = [Tok::new(0), Tok::new(1), Tok::new(2), Tok::new(3)];
    let v: Vec3<Tok<SD3>> = a.into_iter().collect();
    assert!(v.x.id == 0 && v.y.id == 1 && v.z.id == 2);
    assert!(all_in_state::<SD3>(0, 3, LIVE));
    assert!(st::<SD3>(3) == DROPPED); // the surplus item was dropped (once) with the source
    assert!(all_in_state::<SD3>(5, 8, DROPPED)); // the three replaced defaults
    drop(v);
    assert!(all_in_state::<SD3>(0, 4, DROPPED));
}

#[kani::proof]
#[kani::unwind(8)]
fn c18_conv_collect_vek_iter_vec4_to_vec2_to_vec3() {
    // Vec4 --into_iter--> Vec2 (two surplus items dropped by vek's IntoIter), then
    // Vec2 --into_iter--> Vec3 (one default stays).
    let v4 = Vec4::new(Tok::<SD4>::new(0), Tok::<SD4>::new(1), Tok::<SD4>::new(2), Tok::<SD4>::new(3));
    let v2: Vec2<Tok<SD4>> = v4.into_iter().collect();
    assert!(v2.x.id == 0 && v2.y.id == 1);
    assert!(st::<SD4>(0) == LIVE && st::<SD4>(1) == LIVE);
    assert!(st::<SD4>(2) == DROPPED && st::<SD4>(3) == DROPPED);
    let v3: Vec3<Tok<SD4>> = v2.into_iter().collect();
    assert!(v3.x.id == 0 && v3.y.id == 1 && v3.z.id >= 6);
    assert!(st::<SD4>(0) == LIVE && st::<SD4>(1) == LIVE && st::<SD4>(v3.z.id) == LIVE);
    drop(v3);
    assert!(all_in_state::<SD4>(0, 4, DROPPED));
    // 2 + 3 defaults were created (ids 6..11), all dropped exactly once
    assert!(<SD4 as Space>::next_default() == 11);
    assert!(all_in_state::<SD4>(6, 11, DROPPED));
}

// from_slice (T: Default + Copy): element i is slice[i] for i < min(len, N), T::default() after;
// slice length symbolic in 0..=N+2.
macro_rules! from_slice {
    ([$name:ident] $V:ident $n:tt $u:tt $S:ident $SD:ident ($($f:tt)+) ($($id:tt)+)) => {
        #[kani::proof]
        #[kani::unwind($u)]
        fn $name() {
            let a: [u16; $n + 2] = kani::any();
            let m: usize = kani::any();
            kani::assume(m <= $n + 2);
            let v = $V::<u16>::from_slice(&a[..m]);
            $(
                if $id < m {
                    assert!(v.$f == a[$id], "C18: from_slice order");
                } else {
                    assert!(v.$f == 0, "C18: from_slice short slice: not the default");
                }
            )+
        }
    };
}
spec!(Vec2, from_slice, c18_conv_from_slice_vec2);
spec!(Vec3, from_slice, c18_conv_from_slice_vec3);
spec!(Vec4, from_slice, c18_conv_from_slice_vec4);
spec!(Extent2, from_slice, c18_conv_from_slice_extent2);
spec!(Extent3, from_slice, c18_conv_from_slice_extent3);
spec!(Rgb, from_slice, c18_conv_from_slice_rgb);
spec!(Rgba, from_slice, c18_conv_from_slice_rgba);
spec!(Uv, from_slice, c18_conv_from_slice_uv);
spec!(Uvw, from_slice, c18_conv_from_slice_uvw);
spec!(Vec8, from_slice, c18_conv_from_slice_vec8);
spec!(Vec16, from_slice, c18_conv_from_slice_vec16);
spec!(Vec32, from_slice, c18_conv_from_slice_vec32);
spec!(Vec64, from_slice, c18_conv_from_slice_vec64);
