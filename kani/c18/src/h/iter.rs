// B. `IntoIter` (vek/src/vec.rs:1785-1855) as a data structure.
//
// Model: the iterator over a vector with tokens 0..N is fully described by two cursors
// (front, back), 0 <= front <= back <= N; ids in [front, back) are still in the iterator.
//   next()      -> Some(front), front += 1     if front < back, else None and nothing changes
//   next_back() -> Some(back - 1), back -= 1   if front < back, else None and nothing changes
//   len() == size_hint().0 == size_hint().1.unwrap() == back - front
//   drop        -> drops exactly the ids in [front, back)
//
// One harness per vector type explores EVERY history of at most N + 2 calls, each call being
// `next` or `next_back` (symbolic choice per step, symbolic number of steps), so all reachable
// (front, back) states, all transitions out of them (including up to two pulls on an exhausted
// iterator, in any next/next_back combination), followed by a drop of the iterator at that moment.

use super::*;
use vek::vec::repr_c::*;

/// One pull, checked against the cursor model.
pub fn step<S: Space, I>(it: &mut I, front: &mut usize, back: &mut usize, pull_front: bool)
where
    I: DoubleEndedIterator<Item = Tok<S>> + ExactSizeIterator,
{
    let r = if pull_front { it.next() } else { it.next_back() };
    match r {
        Some(t) => {
            assert!(*front < *back, "C18: an exhausted iterator yielded an element");
            let expect = if pull_front {
                let e = *front;
                *front += 1;
                e
            } else {
                *back -= 1;
                *back
            };
            take(t, expect);
        }
        None => {
            assert!(*front == *back, "C18: iterator returned None while elements remain");
        }
    }
    check_len(it, *front, *back);
}

pub fn check_len<S: Space, I>(it: &I, front: usize, back: usize)
where
    I: DoubleEndedIterator<Item = Tok<S>> + ExactSizeIterator,
{
    let rem = back - front;
    assert!(it.len() == rem, "C18: len() differs from the remaining count");
    let (lo, hi) = it.size_hint();
    assert!(lo == rem, "C18: size_hint().0 differs from the remaining count");
    assert!(hi == Some(rem), "C18: size_hint().1 differs from the remaining count");
}

/// A symbolic history of at most `max_steps` pulls.
pub fn history<S: Space, I>(it: &mut I, front: &mut usize, back: &mut usize, max_steps: usize)
where
    I: DoubleEndedIterator<Item = Tok<S>> + ExactSizeIterator,
{
    let steps: usize = kani::any();
    kani::assume(steps <= max_steps);
    let mut s = 0;
    while s < max_steps {
        if s >= steps {
            break;
        }
        let pull_front: bool = kani::any();
        step(it, front, back, pull_front);
        s += 1;
    }
}

/// Ghost table for a vector of `n` tokens 0..n with cursors (front, back):
/// yielded ids were dropped once by the caller; the others are `inside` (LIVE before the iterator
/// is dropped, DROPPED after). (Concrete table index per iteration: cheaper for CBMC than three
/// loops with symbolic bounds.)
pub fn table_ok<S: Space>(n: usize, front: usize, back: usize, inside: u8) -> bool {
    let mut ok = true;
    let mut i = 0;
    while i < n {
        let expect = if i < front || i >= back { DROPPED_BY_CALLER } else { inside };
        ok &= st::<S>(i as u8) == expect;
        i += 1;
    }
    // nothing else was touched (sentinel id n)
    ok && st::<S>(n as u8) == LIVE
}

macro_rules! iter_history {
    ([$name:ident] $V:ident $n:tt $u:tt $S:ident $SD:ident ($($f:tt)+) ($($id:tt)+)) => {
        #[kani::proof]
        #[kani::unwind($u)]
        fn $name() {
            let v = $V::new($(Tok::<$S>::new($id)),+);
            let mut it = v.into_iter();
            assert!(all_in_state::<$S>(0, $n, LIVE), "C18: into_iter() dropped an element");
            let mut front = 0usize;
            let mut back = $n as usize;
            check_len(&it, front, back);
            history(&mut it, &mut front, &mut back, $n + 2);
            assert!(table_ok::<$S>($n, front, back, LIVE), "C18: wrong ownership state before drop");
            drop(it);
            assert!(table_ok::<$S>($n, front, back, DROPPED), "C18: element leaked or dropped by the wrong owner");
        }
    };
}

spec!(Vec2, iter_history, c18_iter_history_vec2);
spec!(Vec3, iter_history, c18_iter_history_vec3);
spec!(Vec4, iter_history, c18_iter_history_vec4);
spec!(Extent2, iter_history, c18_iter_history_extent2);
spec!(Extent3, iter_history, c18_iter_history_extent3);
spec!(Rgb, iter_history, c18_iter_history_rgb);
spec!(Rgba, iter_history, c18_iter_history_rgba);
spec!(Uv, iter_history, c18_iter_history_uv);
spec!(Uvw, iter_history, c18_iter_history_uvw);
spec!(Vec8, iter_history, c18_iter_history_vec8);
spec!(Vec16, iter_history, c18_iter_history_vec16);
spec!(Vec32, iter_history, c18_iter_history_vec32);
spec!(Vec64, iter_history, c18_iter_history_vec64);

// The standard adaptors built on next/next_back: `for` loops over the consuming iterator and
// `rev()` (documented order: declaration order, reversed for rev()).
macro_rules! iter_for_loop {
    ([$name:ident $name_rev:ident] $V:ident $n:tt $u:tt $S:ident $SD:ident ($($f:tt)+) ($($id:tt)+)) => {
        #[kani::proof]
        #[kani::unwind($u)]
        fn $name() {
            let v = $V::new($(Tok::<$S>::new($id)),+);
            let mut k = 0usize;
            for t in v {
                take(t, k);
                k += 1;
            }
            assert!(k == $n);
            assert!(all_in_state::<$S>(0, $n, DROPPED_BY_CALLER));
        }
        #[kani::proof]
        #[kani::unwind($u)]
        fn $name_rev() {
            let v = $V::new($(Tok::<$S>::new($id)),+);
            let mut k = $n as usize;
            for t in v.into_iter().rev() {
                k -= 1;
                take(t, k);
            }
            assert!(k == 0);
            assert!(all_in_state::<$S>(0, $n, DROPPED_BY_CALLER));
        }
    };
}
spec!(Vec2, iter_for_loop, c18_iter_for_vec2, c18_iter_rev_vec2);
spec!(Vec3, iter_for_loop, c18_iter_for_vec3, c18_iter_rev_vec3);
spec!(Vec4, iter_for_loop, c18_iter_for_vec4, c18_iter_rev_vec4);
spec!(Vec8, iter_for_loop, c18_iter_for_vec8, c18_iter_rev_vec8);
