// E. Slice views of the 13 vector types (vek/src/vec.rs:514-538 as_slice / as_mut_slice through
// `self as *const _ as *const T` + from_raw_parts; 1714-1783 AsRef, AsMut, Borrow, BorrowMut, Deref,
// DerefMut, IntoIterator for &V / &mut V).
//
// Contract discharged here (the Verus-based checks ASSUME it as `as_slice()@ == [x, y, z, w]`):
//   len == N; the view starts at the vector's own address (== address of the first field);
//   entry i IS field i in declaration order (same address, hence same value, no copy);
//   a write through a mutable view lands in field i and a write to field i is seen by the view.
// Element type u16 with fully symbolic values (and u8 / u64 / a 3-byte struct for a few types, to
// vary size and alignment). Loop-free.

use core::borrow::{Borrow, BorrowMut};
use vek::vec::repr_c::*;

macro_rules! views {
    ([$shared:ident $mutable:ident $iter:ident]
     $V:ident $n:tt $u:tt $S:ident $SD:ident ($first:tt $($rest:tt)*) ($($id:tt)+)) => {
        views!{@impl [$shared $mutable $iter] $V $n $u u16 ($first) ($first $($rest)*) ($($id)+)}
    };
    (@impl [$shared:ident $mutable:ident $iter:ident]
     $V:ident $n:tt $u:tt $T:ident ($first:tt) ($($f:tt)+) ($($id:tt)+)) => {
        #[kani::proof]
        fn $shared() {
            let v: $V<$T> = $V::new($({ let _ = $id; kani::any() }),+);
            let base = &v as *const $V<$T> as *const $T;
            assert!(base == &v.$first as *const $T);

            let s: &[$T] = v.as_slice();
            assert!(s.len() == $n, "C18: as_slice length");
            assert!(s.as_ptr() == base, "C18: as_slice does not start at the first field");
            $(
                assert!(&s[$id] as *const $T == &v.$f as *const $T, "C18: as_slice entry does not alias its field");
                assert!(s[$id] == v.$f, "C18: as_slice order");
            )+

            let d: &[$T] = &v[..]; // Deref
            assert!(d.len() == $n && d.as_ptr() == base, "C18: Deref view");
            $( assert!(d[$id] == v.$f && v[$id] == v.$f, "C18: Deref order"); )+

            let r: &[$T] = AsRef::<[$T]>::as_ref(&v);
            assert!(r.len() == $n && r.as_ptr() == base, "C18: AsRef<[T]> view");
            $( assert!(r[$id] == v.$f, "C18: AsRef<[T]> order"); )+

            let b: &[$T] = Borrow::<[$T]>::borrow(&v);
            assert!(b.len() == $n && b.as_ptr() == base, "C18: Borrow<[T]> view");
            $( assert!(b[$id] == v.$f, "C18: Borrow<[T]> order"); )+

            // the inherent slice methods reached through Deref
            assert!(v.len() == $n);
            assert!(v.as_ptr() == base);
        }

        #[kani::proof]
        fn $mutable() {
            let mut v: $V<$T> = $V::new($({ let _ = $id; kani::any() }),+);
            let base = &v as *const $V<$T> as *const $T;
            {
                let s: &mut [$T] = v.as_mut_slice();
                assert!(s.len() == $n && s.as_ptr() == base, "C18: as_mut_slice view");
            }
            {
                let s: &mut [$T] = &mut v[..]; // DerefMut
                assert!(s.len() == $n && s.as_ptr() == base, "C18: DerefMut view");
            }
            {
                let s: &mut [$T] = AsMut::<[$T]>::as_mut(&mut v);
                assert!(s.len() == $n && s.as_ptr() == base, "C18: AsMut<[T]> view");
            }
            {
                let s: &mut [$T] = BorrowMut::<[$T]>::borrow_mut(&mut v);
                assert!(s.len() == $n && s.as_ptr() == base, "C18: BorrowMut<[T]> view");
            }
            $(
                {
                    // write through each mutable view, read the field
                    let a: $T = kani::any();
                    v.as_mut_slice()[$id] = a;
                    assert!(v.$f == a, "C18: write through as_mut_slice");
                    let a: $T = kani::any();
                    v[$id] = a; // DerefMut + IndexMut
                    assert!(v.$f == a, "C18: write through DerefMut");
                    let a: $T = kani::any();
                    AsMut::<[$T]>::as_mut(&mut v)[$id] = a;
                    assert!(v.$f == a, "C18: write through AsMut<[T]>");
                    let a: $T = kani::any();
                    BorrowMut::<[$T]>::borrow_mut(&mut v)[$id] = a;
                    assert!(v.$f == a, "C18: write through BorrowMut<[T]>");
                    // write the field, read through the view
                    let a: $T = kani::any();
                    v.$f = a;
                    assert!(v.as_mut_slice()[$id] == a && v.as_slice()[$id] == a, "C18: field write not seen by the view");
                }
            )+
        }

        // by-reference iteration: `&v` and `&mut v` yield the fields themselves, in order
        #[kani::proof]
        #[kani::unwind($u)]
        fn $iter() {
            let mut v: $V<$T> = $V::new($({ let _ = $id; kani::any() }),+);
            let addrs: [*const $T; $n] = [$(&v.$f as *const $T),+];
            let mut k = 0usize;
            for e in &v {
                assert!(e as *const $T == addrs[k], "C18: (&v).into_iter() order / aliasing");
                k += 1;
            }
            assert!(k == $n);
            let mut k = 0usize;
            for e in &mut v {
                assert!(e as *mut $T as *const $T == addrs[k], "C18: (&mut v).into_iter() order / aliasing");
                k += 1;
            }
            assert!(k == $n);
            assert!(v.iter().len() == $n);
        }
    };
}

spec!(Vec2, views, c18_view_shared_vec2, c18_view_mut_vec2, c18_view_iter_vec2);
spec!(Vec3, views, c18_view_shared_vec3, c18_view_mut_vec3, c18_view_iter_vec3);
spec!(Vec4, views, c18_view_shared_vec4, c18_view_mut_vec4, c18_view_iter_vec4);
spec!(Vec8, views, c18_view_shared_vec8, c18_view_mut_vec8, c18_view_iter_vec8);
spec!(Vec16, views, c18_view_shared_vec16, c18_view_mut_vec16, c18_view_iter_vec16);
spec!(Vec32, views, c18_view_shared_vec32, c18_view_mut_vec32, c18_view_iter_vec32);
spec!(Vec64, views, c18_view_shared_vec64, c18_view_mut_vec64, c18_view_iter_vec64);
spec!(Extent3, views, c18_view_shared_extent3, c18_view_mut_extent3, c18_view_iter_extent3);
spec!(Extent2, views, c18_view_shared_extent2, c18_view_mut_extent2, c18_view_iter_extent2);
spec!(Rgba, views, c18_view_shared_rgba, c18_view_mut_rgba, c18_view_iter_rgba);
spec!(Rgb, views, c18_view_shared_rgb, c18_view_mut_rgb, c18_view_iter_rgb);
spec!(Uvw, views, c18_view_shared_uvw, c18_view_mut_uvw, c18_view_iter_uvw);
spec!(Uv, views, c18_view_shared_uv, c18_view_mut_uv, c18_view_iter_uv);

// Other element sizes / alignments (the code is generic in T; these vary size_of::<T>() in the
// pointer arithmetic): u8 (1/1), u64 (8/8), a 3-byte struct of alignment 1.
#[derive(Clone, Copy, PartialEq, Eq, kani::Arbitrary)]
pub struct B3(pub u8, pub u8, pub u8);

views!{@impl [c18_view_shared_vec3_u8 c18_view_mut_vec3_u8 c18_view_iter_vec3_u8] Vec3 3 6 u8 (x) (x y z) (0 1 2)}
views!{@impl [c18_view_shared_vec4_u64 c18_view_mut_vec4_u64 c18_view_iter_vec4_u64] Vec4 4 7 u64 (x) (x y z w) (0 1 2 3)}
views!{@impl [c18_view_shared_rgb_b3 c18_view_mut_rgb_b3 c18_view_iter_rgb_b3] Rgb 3 6 B3 (r) (r g b) (0 1 2)}
views!{@impl [c18_view_shared_vec8_u64 c18_view_mut_vec8_u64 c18_view_iter_vec8_u64] Vec8 8 11 u64 (0) (0 1 2 3 4 5 6 7) (0 1 2 3 4 5 6 7)}
