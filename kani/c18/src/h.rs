// harnesses for c18
