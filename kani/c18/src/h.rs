// Kani harnesses for property C18:
// "Element containers never duplicate, leak or touch a moved-out element".
//
// Layout of this crate
//   h.rs        ownership-tracking element type `Tok`, ghost state tables, the per-type `spec!` table
//   h/iter.rs   B: `IntoIter` as a data structure (all pull histories, drop at any moment)
//   h/obs.rs    C: observers (PartialEq / Hash / Debug) on a partially consumed `IntoIter`
//   h/conv.rs   D: vector conversions (arrays, tuples, FromIterator, from_slice)
//   h/mat.rs    D/E: matrix array conversions and matrix slice views
//   h/views.rs  E: vector slice views (as_slice, as_mut_slice, Deref, AsRef, Borrow, ...)
//   h/guards.rs F: vacuity guards (harnesses that must FAIL)
//
// Every harness is a separate CBMC run, so the ghost tables start from their initial value in each.

use core::fmt;
use core::hash::{Hash, Hasher};
use core::marker::PhantomData;

// ---------------------------------------------------------------------------------------------
// A. Ownership-tracking element type
// ---------------------------------------------------------------------------------------------

/// Token states (ghost table, indexed by token id).
pub const LIVE: u8 = 0; // owned by a container (vector, matrix, array, tuple, iterator)
pub const HANDED: u8 = 1; // yielded by a consuming iterator: now owned by the caller
pub const DROPPED: u8 = 2; // dropped exactly once while owned by a container
pub const DROPPED_BY_CALLER: u8 = 3; // dropped exactly once after having been handed to the caller

/// A ghost table `static mut [u8; SIZE]` of token states indexed by id.
///
/// There is one table per size class instead of one global `[u8; 256]`: an array updated at a
/// symbolic index costs CBMC ~3.9k SAT clauses per entry and per history (measured on
/// c18_iter_history_vec8: 256 entries 1.36M clauses / 28 s solver, 16 entries 0.42M / 4.4 s), so each
/// harness uses the smallest table that holds its ids. (Two u64/u128 bit masks were measured too:
/// not cheaper than a small array.) An id outside the table is an index-out-of-bounds failure.
pub trait Space: 'static {
    /// ids >= FIRST_DEFAULT are handed out by `Default` (needed by `FromIterator`: `T: Default`).
    const FIRST_DEFAULT: u8;
    fn get(id: u8) -> u8;
    fn set(id: u8, s: u8);
    fn fresh_default() -> u8;
    fn next_default() -> u8;
}

macro_rules! space {
    ($S:ident, $m:ident, $size:expr, $first_default:expr) => {
        pub mod $m {
            pub static mut ST: [u8; $size] = [super::LIVE; $size];
            pub static mut NEXT_DEFAULT: u8 = $first_default;
        }
        pub struct $S;
        impl Space for $S {
            const FIRST_DEFAULT: u8 = $first_default;
            #[inline(always)]
            fn get(id: u8) -> u8 {
                unsafe { $m::ST[id as usize] }
            }
            #[inline(always)]
            fn set(id: u8, s: u8) {
                unsafe { $m::ST[id as usize] = s }
            }
            fn fresh_default() -> u8 {
                unsafe {
                    let id = $m::NEXT_DEFAULT;
                    $m::NEXT_DEFAULT += 1;
                    id
                }
            }
            fn next_default() -> u8 {
                unsafe { $m::NEXT_DEFAULT }
            }
        }
    };
}
// S<N>: ids 0..N and one sentinel id N that nobody may touch; no defaults (calling default() is out of bounds).
space!(S2, s2, 3, 3);
space!(S3, s3, 4, 4);
space!(S4, s4, 5, 5);
space!(S8, s8, 9, 9);
space!(S9, s9, 10, 10);
space!(S16, s16, 17, 17);
space!(S32, s32, 33, 33);
space!(S64, s64, 65, 65);
// SD<N>: explicit ids 0..N+2, default ids N+2..2N+2, one sentinel.
space!(SD2, sd2, 7, 4);
space!(SD3, sd3, 9, 5);
space!(SD4, sd4, 11, 6);
space!(SD8, sd8, 19, 10);
space!(SD16, sd16, 35, 18);
space!(SD32, sd32, 67, 34);
space!(SD64, sd64, 131, 66);

/// NOT Copy, NOT Clone. size_of == 4, align_of == 2 (not 1, so that an element stride that is
/// confused with a byte offset would not go unnoticed); `tag` is a constant that every token
/// carries: a "token" read from a wrong address or from uninitialised storage fails the tag check.
pub struct Tok<S: Space> {
    pub id: u8,
    pub tag: u16,
    _s: PhantomData<S>,
}
pub const TAG: u16 = 0x0C18;

#[inline(always)]
pub fn st<S: Space>(id: u8) -> u8 {
    S::get(id)
}

impl<S: Space> Tok<S> {
    #[inline(always)]
    pub fn new(id: u8) -> Self {
        Tok { id, tag: TAG, _s: PhantomData }
    }
}

impl<S: Space> Drop for Tok<S> {
    fn drop(&mut self) {
        assert!(self.tag == TAG, "C18: dropped something that is not an element");
        let s = S::get(self.id);
        assert!(s < DROPPED, "C18: an element was dropped twice");
        S::set(self.id, s + 2); // LIVE -> DROPPED, HANDED -> DROPPED_BY_CALLER
    }
}

/// `Default` hands out fresh ids FIRST_DEFAULT, FIRST_DEFAULT + 1, ...
impl<S: Space> Default for Tok<S> {
    fn default() -> Self {
        Tok::new(S::fresh_default())
    }
}

// Observers: being called on a token that is not LIVE (i.e. that was already yielded to the
// caller, and possibly dropped by it) is a violation of C18.
impl<S: Space> PartialEq for Tok<S> {
    fn eq(&self, other: &Self) -> bool {
        assert!(S::get(self.id) == LIVE, "C18: PartialEq read an element that was already moved out");
        assert!(S::get(other.id) == LIVE, "C18: PartialEq read an element that was already moved out");
        self.id == other.id
    }
}
impl<S: Space> Eq for Tok<S> {}

impl<S: Space> Hash for Tok<S> {
    fn hash<H: Hasher>(&self, h: &mut H) {
        assert!(S::get(self.id) == LIVE, "C18: Hash read an element that was already moved out");
        h.write_u8(self.id);
    }
}

impl<S: Space> fmt::Debug for Tok<S> {
    fn fmt(&self, f: &mut fmt::Formatter) -> fmt::Result {
        assert!(S::get(self.id) == LIVE, "C18: Debug read an element that was already moved out");
        f.write_str("T")
    }
}

/// The caller receives a yielded token: it must be the expected one and must not have been
/// handed out or dropped before (LIVE -> HANDED).
pub fn receive<S: Space>(t: &Tok<S>, expect: usize) {
    assert!(t.tag == TAG, "C18: iterator yielded something that is not an element");
    assert!(t.id as usize == expect, "C18: iterator yielded the wrong element");
    assert!(S::get(t.id) == LIVE, "C18: element yielded twice or after being dropped");
    S::set(t.id, HANDED);
}

/// `receive`, then the caller drops the token (-> DROPPED_BY_CALLER; a later drop of the same id
/// by anybody trips the assertion in `Tok::drop`).
pub fn take<S: Space>(t: Tok<S>, expect: usize) {
    receive(&t, expect);
    drop(t);
    assert!(S::get(expect as u8) == DROPPED_BY_CALLER);
}

/// All ids in `lo..hi` are in state `s`.
pub fn all_in_state<S: Space>(lo: usize, hi: usize, s: u8) -> bool {
    let mut ok = true;
    let mut i = lo;
    while i < hi {
        ok &= S::get(i as u8) == s;
        i += 1;
    }
    ok
}

/// A hasher without loops (the derived `Hash` impls only reach `write_u8` / `write_usize`).
pub struct NullHasher(pub u64);
impl Hasher for NullHasher {
    fn finish(&self) -> u64 {
        self.0
    }
    fn write(&mut self, bytes: &[u8]) {
        self.0 = self.0.wrapping_add(bytes.len() as u64);
    }
    fn write_u8(&mut self, i: u8) {
        self.0 = self.0.wrapping_mul(31).wrapping_add(i as u64);
    }
    fn write_usize(&mut self, i: usize) {
        self.0 = self.0.wrapping_mul(31).wrapping_add(i as u64);
    }
}

// ---------------------------------------------------------------------------------------------
// Per-type table: `spec!(Type, callback, names...)` expands to
//   callback!{ [names...] Type N UNWIND S SD (fields...) (ids...) }
// UNWIND = N + 3 (a history of N + 2 steps plus loop exit); S / SD: ghost tables for N tokens.
// ---------------------------------------------------------------------------------------------
macro_rules! spec {
    (Vec2, $cb:ident, $($a:ident),*) => { $cb!{ [$($a)*] Vec2 2 5 S2 SD2 (x y) (0 1) } };
    (Vec3, $cb:ident, $($a:ident),*) => { $cb!{ [$($a)*] Vec3 3 6 S3 SD3 (x y z) (0 1 2) } };
    (Vec4, $cb:ident, $($a:ident),*) => { $cb!{ [$($a)*] Vec4 4 7 S4 SD4 (x y z w) (0 1 2 3) } };
    (Extent2, $cb:ident, $($a:ident),*) => { $cb!{ [$($a)*] Extent2 2 5 S2 SD2 (w h) (0 1) } };
    (Extent3, $cb:ident, $($a:ident),*) => { $cb!{ [$($a)*] Extent3 3 6 S3 SD3 (w h d) (0 1 2) } };
    (Rgb, $cb:ident, $($a:ident),*) => { $cb!{ [$($a)*] Rgb 3 6 S3 SD3 (r g b) (0 1 2) } };
    (Rgba, $cb:ident, $($a:ident),*) => { $cb!{ [$($a)*] Rgba 4 7 S4 SD4 (r g b a) (0 1 2 3) } };
    (Uv, $cb:ident, $($a:ident),*) => { $cb!{ [$($a)*] Uv 2 5 S2 SD2 (u v) (0 1) } };
    (Uvw, $cb:ident, $($a:ident),*) => { $cb!{ [$($a)*] Uvw 3 6 S3 SD3 (u v w) (0 1 2) } };
    (Vec8, $cb:ident, $($a:ident),*) => { $cb!{ [$($a)*] Vec8 8 11 S8 SD8
        (0 1 2 3 4 5 6 7) (0 1 2 3 4 5 6 7) } };
    (Vec16, $cb:ident, $($a:ident),*) => { $cb!{ [$($a)*] Vec16 16 19 S16 SD16
        (0 1 2 3 4 5 6 7 8 9 10 11 12 13 14 15) (0 1 2 3 4 5 6 7 8 9 10 11 12 13 14 15) } };
    (Vec32, $cb:ident, $($a:ident),*) => { $cb!{ [$($a)*] Vec32 32 35 S32 SD32
        (0 1 2 3 4 5 6 7 8 9 10 11 12 13 14 15 16 17 18 19 20 21 22 23 24 25 26 27 28 29 30 31)
        (0 1 2 3 4 5 6 7 8 9 10 11 12 13 14 15 16 17 18 19 20 21 22 23 24 25 26 27 28 29 30 31) } };
    (Vec64, $cb:ident, $($a:ident),*) => { $cb!{ [$($a)*] Vec64 64 67 S64 SD64
        (0 1 2 3 4 5 6 7 8 9 10 11 12 13 14 15 16 17 18 19 20 21 22 23 24 25 26 27 28 29 30 31 32 33 34 35 36 37 38 39 40 41 42 43 44 45 46 47 48 49 50 51 52 53 54 55 56 57 58 59 60 61 62 63)
        (0 1 2 3 4 5 6 7 8 9 10 11 12 13 14 15 16 17 18 19 20 21 22 23 24 25 26 27 28 29 30 31 32 33 34 35 36 37 38 39 40 41 42 43 44 45 46 47 48 49 50 51 52 53 54 55 56 57 58 59 60 61 62 63) } };
}

mod conv;
mod guards;
mod iter;
mod mat;
mod obs;
mod views;
