//! C03 supplement on the real code of /repo: the parts of "element (i,j) means row i, column j in every matrix API" that the Verus
//! unit assumes or cannot reach: `IndexMut<(usize,usize)>` (writes through the unsafe slice views), `Display` (core::fmt), and the
//! element casts `as_` / `numcast` (shared with C20).
use core::fmt::{self, Display, Formatter, Write};
use vek::mat::repr_c::row_major as rm;
use vek::mat::repr_c::column_major as cm;

// ---------------------------------------------------------------------------------------------- IndexMut
macro_rules! index_mut {
    ($h:ident, $M:ty, $n:expr) => {
        /// m[(i,j)] = v changes exactly element (row i, column j), as read back by Index, and nothing else
        #[kani::proof]
        #[kani::unwind(6)]
        fn $h() {
            let vals: [[u8; $n]; $n] = kani::any();
            let mut m = <$M>::zero();
            let mut i = 0;
            while i < $n { let mut j = 0; while j < $n { m[(i, j)] = vals[i][j]; j += 1; } i += 1; }
            // what was written at (i,j) is what the row / column views and Index report there
            let rows = m.into_row_arrays();
            let cols = m.into_col_arrays();
            let mut i = 0;
            while i < $n { let mut j = 0; while j < $n {
                assert!(m[(i, j)] == vals[i][j]);
                assert!(rows[i][j] == vals[i][j]);
                assert!(cols[j][i] == vals[i][j]);
                j += 1; } i += 1; }
            // a single write leaves every other element alone
            let (a, b): (usize, usize) = (kani::any(), kani::any());
            kani::assume(a < $n && b < $n);
            let before = m;
            let v: u8 = kani::any();
            m[(a, b)] = v;
            let mut i = 0;
            while i < $n { let mut j = 0; while j < $n {
                assert!(m[(i, j)] == if i == a && j == b { v } else { before[(i, j)] });
                j += 1; } i += 1; }
        }
    };
}
index_mut!(c03_index_mut_rows2, rm::Mat2<u8>, 2);
index_mut!(c03_index_mut_rows3, rm::Mat3<u8>, 3);
index_mut!(c03_index_mut_rows4, rm::Mat4<u8>, 4);
index_mut!(c03_index_mut_cols2, cm::Mat2<u8>, 2);
index_mut!(c03_index_mut_cols3, cm::Mat3<u8>, 3);
index_mut!(c03_index_mut_cols4, cm::Mat4<u8>, 4);

#[kani::proof]
fn c03_guard_index_mut_wrong_fails() {
    let mut m = rm::Mat2::<u8>::zero();
    m[(0, 1)] = 7;
    assert!(m.into_row_arrays()[1][0] == 7);
}

// ---------------------------------------------------------------------------------------------- Display
/// element type whose rendering records which element was printed and under which formatter parameters
#[derive(Copy, Clone)]
struct E(u8);
static mut LOG: [(u8, u8); 40] = [(0, 0); 40];     // (kind, payload): 1 = literal byte, 2 = element id, 3 = precision seen by the element
static mut N: usize = 0;
fn log(k: u8, p: u8) { unsafe { if N < 40 { LOG[N] = (k, p); N += 1; } } }
impl Display for E {
    fn fmt(&self, f: &mut Formatter) -> fmt::Result {
        log(2, self.0);
        log(3, match f.precision() { Some(p) => p as u8, None => 255 });
        Ok(())
    }
}
struct Sink;
impl Write for Sink {
    fn write_str(&mut self, s: &str) -> fmt::Result { for b in s.bytes() { log(1, b); } Ok(()) }
}
macro_rules! display {
    ($h:ident, $R:ty, $C:ty, $n:expr) => {
        /// Display prints "(", then the rows top to bottom, each element of row i in column order preceded by a space, rows separated
        /// by "\n ", then " )"; every element is rendered with the caller's formatter parameters; both layouts print the same
        #[kani::proof]
        #[kani::unwind(42)]
        fn $h() {
            let mut vals = [[0u8; $n]; $n];
            let mut i = 0;
            while i < $n { let mut j = 0; while j < $n { vals[i][j] = (i * $n + j) as u8 + 100; j += 1; } i += 1; }
            let r = <$R>::from_row_arrays(vals.map(|row| row.map(E)));
            let c = <$C>::from_row_arrays(vals.map(|row| row.map(E)));
            // a Formatter with a non-default parameter (precision 3) over the recording sink (nightly API of Kani's toolchain)
            let mut opts = fmt::FormattingOptions::new();
            opts.precision(Some(3));
            unsafe { N = 0; }
            let mut sink = Sink;
            let _ = Display::fmt(&r, &mut Formatter::new(&mut sink, opts));
            let (log_r, n_r) = unsafe { (LOG, N) };
            unsafe { N = 0; }
            let _ = Display::fmt(&c, &mut Formatter::new(&mut sink, opts));
            let (log_c, n_c) = unsafe { (LOG, N) };
            // expected token stream
            let mut want = [(0u8, 0u8); 40];
            let mut k = 0;
            want[k] = (1, b'('); k += 1;
            let mut i = 0;
            while i < $n {
                if i > 0 { want[k] = (1, b'\n'); k += 1; want[k] = (1, b' '); k += 1; }
                let mut j = 0;
                while j < $n { want[k] = (1, b' '); k += 1; want[k] = (2, vals[i][j]); k += 1; want[k] = (3, 3); k += 1; j += 1; }
                i += 1;
            }
            want[k] = (1, b' '); k += 1; want[k] = (1, b')'); k += 1;
            assert!(n_r == k && n_c == k);
            let mut q = 0;
            while q < k { assert!(log_r[q] == want[q]); assert!(log_c[q] == want[q]); q += 1; }
        }
    };
}
display!(c03_display_mat2, rm::Mat2<E>, cm::Mat2<E>, 2);
display!(c03_display_mat3, rm::Mat3<E>, cm::Mat3<E>, 3);

// ---------------------------------------------------------------------------------------------- as_ / numcast keep (i,j)
macro_rules! casts {
    ($h:ident, $M:ident, $n:expr) => {
        /// element (i,j) of `as_` / `numcast` is the cast of element (i,j); numcast fails exactly when some element does not fit
        #[kani::proof]
        #[kani::unwind(6)]
        fn $h() {
            let vals: [[i16; $n]; $n] = kani::any();
            let m = $M::<i16>::from_row_arrays(vals);
            let a: $M<u8> = m.as_();
            let c: Option<$M<u8>> = m.numcast();
            let mut fits = true;
            let mut i = 0;
            while i < $n { let mut j = 0; while j < $n {
                assert!(a[(i, j)] == vals[i][j] as u8);
                if vals[i][j] < 0 || vals[i][j] > 255 { fits = false; }
                j += 1; } i += 1; }
            assert!(c.is_some() == fits);
            if let Some(c) = c {
                let mut i = 0;
                while i < $n { let mut j = 0; while j < $n { assert!(c[(i, j)] == vals[i][j] as u8); j += 1; } i += 1; }
            }
        }
    };
}
mod casts_rows { use super::*; use vek::mat::repr_c::row_major::{Mat2, Mat3, Mat4};
    casts!(c03_casts_rows2, Mat2, 2); casts!(c03_casts_rows3, Mat3, 3); casts!(c03_casts_rows4, Mat4, 4); }
mod casts_cols { use super::*; use vek::mat::repr_c::column_major::{Mat2, Mat3, Mat4};
    casts!(c03_casts_cols2, Mat2, 2); casts!(c03_casts_cols3, Mat3, 3); casts!(c03_casts_cols4, Mat4, 4); }
