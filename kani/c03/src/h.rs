//! C03 supplement on the real code of /repo: the parts of "element (i,j) means row i, column j in every matrix API" that the Verus
//! unit assumes or cannot reach: `IndexMut<(usize,usize)>` (writes through the unsafe slice views), `Display` (core::fmt), and the
//! element casts `as_` / `numcast` (shared with C20).
use core::fmt::{self, Display, Formatter, Write};
use vek::mat::repr_c::row_major as rm;
use vek::mat::repr_c::column_major as cm;

// ---------------------------------------------------------------------------------------------- IndexMut
macro_rules! index_mut {
    ($h:ident, $M:ty, $n:expr) => {
        /// m[(i,j)] = v changes exactly element (row i, column j), as read back by Index, and nothing else
        #[kani::proof]
        #[kani::unwind(6)]
        fn $h() {
            let vals: [[u8; $n]; $n] = kani::any();
            let mut m = <$M>::zero();
            let mut i = 0;
            while i < $n { let mut j = 0; while j < $n { m[(i, j)] = vals[i][j]; j += 1; } i += 1; }
            // what was written at (i,j) is what the row / column views and Index report there
            let rows = m.into_row_arrays();
            let cols = m.into_col_arrays();
            let mut i = 0;
            while i < $n { let mut j = 0; while j < $n {
                assert!(m[(i, j)] == vals[i][j]);
                assert!(rows[i][j] == vals[i][j]);
                assert!(cols[j][i] == vals[i][j]);
                j += 1; } i += 1; }
            // a single write leaves every other element alone
            let (a, b): (usize, usize) = (kani::any(), kani::any());
            kani::assume(a < $n && b < $n);
            let before = m;
            let v: u8 = kani::any();
            m[(a, b)] = v;
            let mut i = 0;
            while i < $n { let mut j = 0; while j < $n {
                assert!(m[(i, j)] == if i == a && j == b { v } else { before[(i, j)] });
                j += 1; } i += 1; }
        }
    };
}
index_mut!(c03_index_mut_rows2, rm::Mat2<u8>, 2);
index_mut!(c03_index_mut_rows3, rm::Mat3<u8>, 3);
index_mut!(c03_index_mut_rows4, rm::Mat4<u8>, 4);
index_mut!(c03_index_mut_cols2, cm::Mat2<u8>, 2);
index_mut!(c03_index_mut_cols3, cm::Mat3<u8>, 3);
index_mut!(c03_index_mut_cols4, cm::Mat4<u8>, 4);

#[kani::proof]
fn c03_guard_index_mut_wrong_fails() {
    let mut m = rm::Mat2::<u8>::zero();
    m[(0, 1)] = 7;
    assert!(m.into_row_arrays()[1][0] == 7);
}

// ---------------------------------------------------------------------------------------------- Display
/// element type whose rendering records which element was printed and under which formatter parameters
#[derive(Copy, Clone)]
struct E(u8);
static mut LOG: [(u8, u8); 64] = [(0, 0); 64];     // (kind, payload): 1 = literal byte, 2 = element id, 3 = precision seen by the element
static mut N: usize = 0;
fn log(k: u8, p: u8) { unsafe { if N < 64 { LOG[N] = (k, p); N += 1; } } }
impl Display for E {
    fn fmt(&self, f: &mut Formatter) -> fmt::Result {
        log(2, self.0);
        log(3, match f.precision() { Some(p) => p as u8, None => 255 });
        Ok(())
    }
}
struct Sink;
impl Write for Sink {
    // literals written by the Display impl are at most two bytes long ("(", " ", "\n ", " )"): no loop, so that the unwinding bound
    // of the harness only has to cover the loops of the code under verification
    fn write_str(&mut self, s: &str) -> fmt::Result {
        let b = s.as_bytes();
        assert!(b.len() <= 2);
        if b.len() >= 1 { log(1, b[0]); }
        if b.len() >= 2 { log(1, b[1]); }
        Ok(())
    }
}
fn render<M: Display>(m: &M) -> ([(u8, u8); 64], usize) {
    // a Formatter with a non-default parameter (precision 3) over the recording sink (nightly API of Kani's toolchain)
    let mut opts = fmt::FormattingOptions::new();
    opts.precision(Some(3));
    unsafe { N = 0; }
    let mut sink = Sink;
    let _ = Display::fmt(m, &mut Formatter::new(&mut sink, opts));
    unsafe { (LOG, N) }
}
macro_rules! display {
    ($h:ident, $M:ty, $n:expr, $uw:expr, $want:ident) => {
        /// Display prints "(", then the rows top to bottom, each element of row i in column order preceded by a space, rows separated
        /// by "\n ", then " )"; every element is rendered under the caller's formatter parameters (same token stream for both layouts)
        #[kani::proof]
        #[kani::unwind($uw)]
        fn $h() {
            let vals: [[u8; $n]; $n] = kani::any();
            let m = <$M>::from_row_arrays(vals.map(|row| row.map(E)));
            let (got, n) = render(&m);
            let want = $want(vals);
            assert!(n == want.len());
            let mut q = 0;
            while q < want.len() { assert!(got[q] == want[q]); q += 1; }
        }
    };
}
fn want2(vals: [[u8; 2]; 2]) -> [(u8, u8); 17] { [(1, b'('), (1, b' '), (2, vals[0][0]), (3, 3), (1, b' '), (2, vals[0][1]), (3, 3), (1, b'\n'), (1, b' '), (1, b' '), (2, vals[1][0]), (3, 3), (1, b' '), (2, vals[1][1]), (3, 3), (1, b' '), (1, b')')] }
fn want3(vals: [[u8; 3]; 3]) -> [(u8, u8); 34] { [(1, b'('), (1, b' '), (2, vals[0][0]), (3, 3), (1, b' '), (2, vals[0][1]), (3, 3), (1, b' '), (2, vals[0][2]), (3, 3), (1, b'\n'), (1, b' '), (1, b' '), (2, vals[1][0]), (3, 3), (1, b' '), (2, vals[1][1]), (3, 3), (1, b' '), (2, vals[1][2]), (3, 3), (1, b'\n'), (1, b' '), (1, b' '), (2, vals[2][0]), (3, 3), (1, b' '), (2, vals[2][1]), (3, 3), (1, b' '), (2, vals[2][2]), (3, 3), (1, b' '), (1, b')')] }
fn want4(vals: [[u8; 4]; 4]) -> [(u8, u8); 57] { [(1, b'('), (1, b' '), (2, vals[0][0]), (3, 3), (1, b' '), (2, vals[0][1]), (3, 3), (1, b' '), (2, vals[0][2]), (3, 3), (1, b' '), (2, vals[0][3]), (3, 3), (1, b'\n'), (1, b' '), (1, b' '), (2, vals[1][0]), (3, 3), (1, b' '), (2, vals[1][1]), (3, 3), (1, b' '), (2, vals[1][2]), (3, 3), (1, b' '), (2, vals[1][3]), (3, 3), (1, b'\n'), (1, b' '), (1, b' '), (2, vals[2][0]), (3, 3), (1, b' '), (2, vals[2][1]), (3, 3), (1, b' '), (2, vals[2][2]), (3, 3), (1, b' '), (2, vals[2][3]), (3, 3), (1, b'\n'), (1, b' '), (1, b' '), (2, vals[3][0]), (3, 3), (1, b' '), (2, vals[3][1]), (3, 3), (1, b' '), (2, vals[3][2]), (3, 3), (1, b' '), (2, vals[3][3]), (3, 3), (1, b' '), (1, b')')] }
display!(c03_display_rows2, rm::Mat2<E>, 2, 20, want2);
display!(c03_display_cols2, cm::Mat2<E>, 2, 20, want2);
display!(c03_display_rows3, rm::Mat3<E>, 3, 37, want3);
display!(c03_display_cols3, cm::Mat3<E>, 3, 37, want3);
display!(c03_display_rows4, rm::Mat4<E>, 4, 60, want4);
display!(c03_display_cols4, cm::Mat4<E>, 4, 60, want4);

// ---------------------------------------------------------------------------------------------- as_ / numcast keep (i,j)
macro_rules! casts {
    ($h:ident, $M:ident, $n:expr) => {
        /// element (i,j) of `as_` / `numcast` is the cast of element (i,j); numcast fails exactly when some element does not fit
        #[kani::proof]
        #[kani::unwind(6)]
        fn $h() {
            let vals: [[i16; $n]; $n] = kani::any();
            let m = $M::<i16>::from_row_arrays(vals);
            let a: $M<u8> = m.as_();
            let c: Option<$M<u8>> = m.numcast();
            let mut fits = true;
            let mut i = 0;
            while i < $n { let mut j = 0; while j < $n {
                assert!(a[(i, j)] == vals[i][j] as u8);
                if vals[i][j] < 0 || vals[i][j] > 255 { fits = false; }
                j += 1; } i += 1; }
            assert!(c.is_some() == fits);
            if let Some(c) = c {
                let mut i = 0;
                while i < $n { let mut j = 0; while j < $n { assert!(c[(i, j)] == vals[i][j] as u8); j += 1; } i += 1; }
            }
        }
    };
}
mod casts_rows { use super::*; use vek::mat::repr_c::row_major::{Mat2, Mat3, Mat4};
    casts!(c03_casts_rows2, Mat2, 2); casts!(c03_casts_rows3, Mat3, 3); casts!(c03_casts_rows4, Mat4, 4); }
mod casts_cols { use super::*; use vek::mat::repr_c::column_major::{Mat2, Mat3, Mat4};
    casts!(c03_casts_cols2, Mat2, 2); casts!(c03_casts_cols3, Mat3, 3); casts!(c03_casts_cols4, Mat4, 4); }

// ---------------------------------------------------------------------------------------------- OpenGL transpose flag
/// the associated constant and the method agree, per layout: row-major storage must be transposed for OpenGL, column-major not;
/// the flat slice named by the layout, read with that flag, denotes the same matrix
#[kani::proof]
#[kani::unwind(4)]
fn c03_gl_transpose_flag() {
    let vals: [[u8; 2]; 2] = kani::any();
    let r = rm::Mat2::<u8>::from_row_arrays(vals);
    let c = cm::Mat2::<u8>::from_row_arrays(vals);
    assert!(rm::Mat2::<u8>::GL_SHOULD_TRANSPOSE && r.gl_should_transpose());
    assert!(!cm::Mat2::<u8>::GL_SHOULD_TRANSPOSE && !c.gl_should_transpose());
    assert!(rm::Mat3::<u8>::GL_SHOULD_TRANSPOSE && rm::Mat4::<u8>::GL_SHOULD_TRANSPOSE);
    assert!(!cm::Mat3::<u8>::GL_SHOULD_TRANSPOSE && !cm::Mat4::<u8>::GL_SHOULD_TRANSPOSE);
    // OpenGL reads a flat array column by column unless told to transpose
    let gl = |flat: &[u8], transpose: bool, i: usize, j: usize| if transpose { flat[i * 2 + j] } else { flat[j * 2 + i] };
    let (fr, fc) = (r.as_row_slice(), c.as_col_slice());
    let mut i = 0;
    while i < 2 { let mut j = 0; while j < 2 {
        assert!(gl(fr, rm::Mat2::<u8>::GL_SHOULD_TRANSPOSE, i, j) == vals[i][j]);
        assert!(gl(fc, cm::Mat2::<u8>::GL_SHOULD_TRANSPOSE, i, j) == vals[i][j]);
        j += 1; } i += 1; }
}

// ---------------------------------------------------------------------------------------------- derived PartialEq
macro_rules! mat_eq {
    ($h:ident, $M:ty, $n:expr) => {
        /// `a == b` (derived, compares the row / column vectors) holds exactly when every element (i,j) agrees
        #[kani::proof]
        #[kani::unwind(6)]
        fn $h() {
            let (va, vb): ([[u8; $n]; $n], [[u8; $n]; $n]) = (kani::any(), kani::any());
            let (a, b) = (<$M>::from_row_arrays(va), <$M>::from_row_arrays(vb));
            let mut all = true;
            let mut i = 0;
            while i < $n { let mut j = 0; while j < $n {
                if a[(i, j)] != b[(i, j)] { all = false; }
                j += 1; } i += 1; }
            assert!((a == b) == all);
            assert!((a != b) == !all);
            assert!(a == a);
        }
    };
}
mat_eq!(c03_mat_eq_rows2, rm::Mat2<u8>, 2);
mat_eq!(c03_mat_eq_rows3, rm::Mat3<u8>, 3);
mat_eq!(c03_mat_eq_rows4, rm::Mat4<u8>, 4);
mat_eq!(c03_mat_eq_cols2, cm::Mat2<u8>, 2);
mat_eq!(c03_mat_eq_cols3, cm::Mat3<u8>, 3);
mat_eq!(c03_mat_eq_cols4, cm::Mat4<u8>, 4);
