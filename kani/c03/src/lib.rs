#![allow(unused)]
#![cfg_attr(kani, feature(formatting_options))]
#[cfg(kani)]
mod h;
