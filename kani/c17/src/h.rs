//! C17 -- "Clamp, range test, wrap, ping-pong and angle difference obey their range laws".
//!
//! Every harness lives in this one module (`h::c17_*`) so that the fully qualified name needed by
//! `cargo kani --exact --harness` is always `h::<name>`; the pieces are textually included.
//!
//! Conventions
//! * wrappers (`mod w_<type>`) have a body that is ONE call into vek and carry the contract;
//!   `c17_contract_*` harnesses prove the contract over fully symbolic arguments.
//! * `*_panics_*` harnesses are `#[kani::should_panic]` AND end in `must_be_unreachable()`, which turns
//!   "at least one input panics" into "EVERY input of the assumed domain panics" (see util.rs).
//! * `*_safe_region` harnesses restrict a contract that is violated on the unchanged tree to the exact
//!   region where vek is correct; the unrestricted twin is registered as known_failing.
//! * `c17_vacuity_*` harnesses must FAIL (they assert false under a precondition family).
//! * harnesses that exist in the sources but are NOT in harnesses.json gave no verdict within their timeout
//!   (wide-integer complete contracts, general f32 wrap claims, everything named `c17_unregistered_*`);
//!   `python3 mk_json.py` lists them.
//!
//! Tools: `mk_json.py` regenerates harnesses.json from the harness names + the metadata rules it contains;
//! `run.py [--tier quick|thorough] [--update] [regex..]` runs registered harnesses and prints a table.
#![allow(unused, non_snake_case)]
use core::num::Wrapping;
use vek::ops::*;

include!("util.rs");
include!("int_clamp.rs");
include!("int_wrap.rs");
include!("float.rs");
include!("vecs.rs");
include!("vacuity.rs");
