use vek::ops::*;

#[kani::proof]
fn c17_clamped_u8() {
    let v: u8 = kani::any(); let lo: u8 = kani::any(); let hi: u8 = kani::any();
    kani::assume(lo <= hi);
    let r = v.clamped(lo, hi);
    assert!(r == if v < lo { lo } else if v > hi { hi } else { v });
}
