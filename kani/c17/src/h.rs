use vek::ops::*;

/// Reached only on executions that did NOT panic. Triggers a non-panic failure
fn must_be_unreachable() { let p: *const u8 = core::ptr::null(); let _x = unsafe { *p }; }

#[kani::proof]
#[kani::should_panic]
fn c17_x_all_panic() {
    let v: u8 = kani::any(); let lo: u8 = kani::any(); let hi: u8 = kani::any();
    kani::assume(lo > hi);
    let r = v.clamped(lo, hi);
    must_be_unreachable();
}
#[kani::proof]
#[kani::should_panic]
fn c17_x_some_panic() {
    let v: u8 = kani::any(); let lo: u8 = kani::any(); let hi: u8 = kani::any();
    kani::assume(lo >= hi);
    let r = v.clamped(lo, hi);
    must_be_unreachable();
}
