//! C17 -- "Clamp, range test, wrap, ping-pong and angle difference obey their range laws".
//!
//! Every harness lives in this one module (`h::c17_*`) so that the fully qualified name needed by
//! `cargo kani --exact --harness` is always `h::<name>`; the pieces are textually included.
//!
//! Conventions
//! * wrappers (`mod w_<type>`) have a body that is ONE call into vek and carry the contract;
//!   `c17_contract_*` harnesses prove the contract over fully symbolic arguments.
//! * `*_panics_*` harnesses are `#[kani::should_panic]` AND end in `must_be_unreachable()`, which turns
//!   "at least one input panics" into "EVERY input of the assumed domain panics" (see util.rs).
//! * `*_safe_region` harnesses restrict a contract that is violated on the unchanged tree to the exact
//!   region where vek is correct; the unrestricted twin is registered as known_failing.
//! * `c17_vacuity_*` harnesses must FAIL (they assert false under a precondition family).
#![allow(unused, non_snake_case)]
use core::num::Wrapping;
use vek::ops::*;

include!("util.rs");
include!("int_clamp.rs");
include!("int_wrap.rs");
include!("float.rs");
include!("vecs.rs");
include!("vacuity.rs");
