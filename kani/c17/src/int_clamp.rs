// ---------------------------------------------------------------------------------------------
// Clamp / IsBetween on integer scalars (and Wrapping<_>): no division, cheap at every width.
// ---------------------------------------------------------------------------------------------

macro_rules! c17_clamp_int {
    (ty: $T:ty, any: $any:expr, wrappers: $m:ident,
     contract_clamped: $h_clamped:ident,
     contract_is_between: $h_between:ident,
     contract_clamped01: $h_c01:ident,
     laws: $h_laws:ident,
     clamped_panics: $h_cp:ident,
     is_between_panics: $h_bp:ident) => {
        mod $m {
            use super::*;
            // "returns the value itself when it lies within the bounds and the nearer bound otherwise"
            #[kani::requires(lo <= hi)]
            #[kani::ensures(|r: &$T| *r == if v < lo { lo } else if v > hi { hi } else { v })]
            #[kani::ensures(|r: &$T| lo <= *r && *r <= hi)]
            pub fn clamped(v: $T, lo: $T, hi: $T) -> $T { v.clamped(lo, hi) }

            // the range test is the inclusive interval membership
            #[kani::requires(lo <= hi)]
            #[kani::ensures(|r: &bool| *r == (lo <= v && v <= hi))]
            pub fn is_between(v: $T, lo: $T, hi: $T) -> bool { v.is_between(lo, hi) }

            // clamped01 is the clamp to [0,1]; never panics
            #[kani::ensures(|r: &$T| r.w() == if v.w() < 0 { 0 } else if v.w() > 1 { 1 } else { v.w() })]
            pub fn clamped01(v: $T) -> $T { v.clamped01() }
        }
        #[kani::proof_for_contract($m::clamped)]
        fn $h_clamped() { $m::clamped($any, $any, $any); }
        #[kani::proof_for_contract($m::is_between)]
        fn $h_between() { $m::is_between($any, $any, $any); }
        #[kani::proof_for_contract($m::clamped01)]
        fn $h_c01() { $m::clamped01($any); }

        /// idempotence, agreement of clamp with the range test, and the aliases
        #[kani::proof]
        fn $h_laws() {
            let v: $T = $any; let lo: $T = $any; let hi: $T = $any;
            kani::assume(lo <= hi);
            let r = v.clamped(lo, hi);
            assert!(r.clamped(lo, hi) == r);                       // idempotent
            assert!(r.is_between(lo, hi));                         // result passes the range test
            assert!(v.is_between(lo, hi) == (r == v));             // fixed points are exactly the in-range values
            assert!(<$T as Clamp>::clamp(v, lo, hi) == r);         // aliases
            assert!(v.clamped_to_inclusive_range(lo..=hi) == r);
            assert!(<$T as Clamp>::clamp_to_inclusive_range(v, lo..=hi) == r);
            assert!(v.is_between_inclusive_range_bounds(lo..=hi) == v.is_between(lo, hi));
            assert!(<$T as Clamp>::clamp01(v) == v.clamped01());
            assert!(v.is_between01() == (0 <= v.w() && v.w() <= 1));
        }

        /// "panics exactly when the bounds are not ordered": every inverted pair panics
        /// (the not-panicking half is the contract above, whose precondition is lo <= hi).
        #[kani::proof]
        #[kani::should_panic]
        fn $h_cp() {
            let v: $T = $any; let lo: $T = $any; let hi: $T = $any;
            kani::assume(lo > hi);
            let _ = v.clamped(lo, hi);
            must_be_unreachable();
        }
        #[kani::proof]
        #[kani::should_panic]
        fn $h_bp() {
            let v: $T = $any; let lo: $T = $any; let hi: $T = $any;
            kani::assume(lo > hi);
            let _ = v.is_between(lo, hi);
            must_be_unreachable();
        }
    }
}

c17_clamp_int!(ty: u8, any: kani::any(), wrappers: wc_u8,
    contract_clamped: c17_contract_clamped_u8, contract_is_between: c17_contract_is_between_u8,
    contract_clamped01: c17_contract_clamped01_u8, laws: c17_clamp_laws_u8,
    clamped_panics: c17_clamped_u8_panics_when_inverted, is_between_panics: c17_is_between_u8_panics_when_inverted);
c17_clamp_int!(ty: i8, any: kani::any(), wrappers: wc_i8,
    contract_clamped: c17_contract_clamped_i8, contract_is_between: c17_contract_is_between_i8,
    contract_clamped01: c17_contract_clamped01_i8, laws: c17_clamp_laws_i8,
    clamped_panics: c17_clamped_i8_panics_when_inverted, is_between_panics: c17_is_between_i8_panics_when_inverted);
c17_clamp_int!(ty: Wrapping<u8>, any: Wrapping(kani::any()), wrappers: wc_wu8,
    contract_clamped: c17_contract_clamped_wu8, contract_is_between: c17_contract_is_between_wu8,
    contract_clamped01: c17_contract_clamped01_wu8, laws: c17_clamp_laws_wu8,
    clamped_panics: c17_clamped_wu8_panics_when_inverted, is_between_panics: c17_is_between_wu8_panics_when_inverted);
c17_clamp_int!(ty: Wrapping<i8>, any: Wrapping(kani::any()), wrappers: wc_wi8,
    contract_clamped: c17_contract_clamped_wi8, contract_is_between: c17_contract_is_between_wi8,
    contract_clamped01: c17_contract_clamped01_wi8, laws: c17_clamp_laws_wi8,
    clamped_panics: c17_clamped_wi8_panics_when_inverted, is_between_panics: c17_is_between_wi8_panics_when_inverted);
c17_clamp_int!(ty: u16, any: kani::any(), wrappers: wc_u16,
    contract_clamped: c17_contract_clamped_u16, contract_is_between: c17_contract_is_between_u16,
    contract_clamped01: c17_contract_clamped01_u16, laws: c17_clamp_laws_u16,
    clamped_panics: c17_clamped_u16_panics_when_inverted, is_between_panics: c17_is_between_u16_panics_when_inverted);
c17_clamp_int!(ty: i16, any: kani::any(), wrappers: wc_i16,
    contract_clamped: c17_contract_clamped_i16, contract_is_between: c17_contract_is_between_i16,
    contract_clamped01: c17_contract_clamped01_i16, laws: c17_clamp_laws_i16,
    clamped_panics: c17_clamped_i16_panics_when_inverted, is_between_panics: c17_is_between_i16_panics_when_inverted);
c17_clamp_int!(ty: u32, any: kani::any(), wrappers: wc_u32,
    contract_clamped: c17_contract_clamped_u32, contract_is_between: c17_contract_is_between_u32,
    contract_clamped01: c17_contract_clamped01_u32, laws: c17_clamp_laws_u32,
    clamped_panics: c17_clamped_u32_panics_when_inverted, is_between_panics: c17_is_between_u32_panics_when_inverted);
c17_clamp_int!(ty: i32, any: kani::any(), wrappers: wc_i32,
    contract_clamped: c17_contract_clamped_i32, contract_is_between: c17_contract_is_between_i32,
    contract_clamped01: c17_contract_clamped01_i32, laws: c17_clamp_laws_i32,
    clamped_panics: c17_clamped_i32_panics_when_inverted, is_between_panics: c17_is_between_i32_panics_when_inverted);
c17_clamp_int!(ty: u64, any: kani::any(), wrappers: wc_u64,
    contract_clamped: c17_contract_clamped_u64, contract_is_between: c17_contract_is_between_u64,
    contract_clamped01: c17_contract_clamped01_u64, laws: c17_clamp_laws_u64,
    clamped_panics: c17_clamped_u64_panics_when_inverted, is_between_panics: c17_is_between_u64_panics_when_inverted);
c17_clamp_int!(ty: i64, any: kani::any(), wrappers: wc_i64,
    contract_clamped: c17_contract_clamped_i64, contract_is_between: c17_contract_is_between_i64,
    contract_clamped01: c17_contract_clamped01_i64, laws: c17_clamp_laws_i64,
    clamped_panics: c17_clamped_i64_panics_when_inverted, is_between_panics: c17_is_between_i64_panics_when_inverted);
c17_clamp_int!(ty: usize, any: kani::any(), wrappers: wc_usize,
    contract_clamped: c17_contract_clamped_usize, contract_is_between: c17_contract_is_between_usize,
    contract_clamped01: c17_contract_clamped01_usize, laws: c17_clamp_laws_usize,
    clamped_panics: c17_clamped_usize_panics_when_inverted, is_between_panics: c17_is_between_usize_panics_when_inverted);
c17_clamp_int!(ty: isize, any: kani::any(), wrappers: wc_isize,
    contract_clamped: c17_contract_clamped_isize, contract_is_between: c17_contract_is_between_isize,
    contract_clamped01: c17_contract_clamped01_isize, laws: c17_clamp_laws_isize,
    clamped_panics: c17_clamped_isize_panics_when_inverted, is_between_panics: c17_is_between_isize_panics_when_inverted);

// clamped_minus1_1 exists for signed types only (Bound: Neg)
#[kani::ensures(|r: &i8| *r == if v < -1 { -1 } else if v > 1 { 1 } else { v })]
fn clamped_minus1_1_i8(v: i8) -> i8 { v.clamped_minus1_1() }
#[kani::proof_for_contract(clamped_minus1_1_i8)]
fn c17_contract_clamped_minus1_1_i8() { clamped_minus1_1_i8(kani::any()); }
#[kani::ensures(|r: &i32| *r == if v < -1 { -1 } else if v > 1 { 1 } else { v })]
fn clamped_minus1_1_i32(v: i32) -> i32 { v.clamped_minus1_1() }
#[kani::proof_for_contract(clamped_minus1_1_i32)]
fn c17_contract_clamped_minus1_1_i32() { clamped_minus1_1_i32(kani::any()); assert!(<i32 as Clamp>::clamp_minus1_1(5) == 1); }
