// ---------------------------------------------------------------------------------------------
// Wrap on integer scalars (and Wrapping<_>): wrapped, wrapped_between, pingpong.
//
// Contract vocabulary (all arithmetic of the contracts is done in the wide type `ToW::W`):
//   in range      : 0 <= r < u          resp.  lo <= r < hi
//   congruent     : (v - r) % period == 0           (period = u resp. hi - lo)
//   triangle wave : m = v mod 2u (euclidean);  r == if m <= u { m } else { 2u - m },  0 <= r <= u
// Range + congruence determine r uniquely, so together they are "the unique value in [0,upper)
// (or [lower,upper)) congruent to the input modulo the period".
//
// Regions (macros over WIDE values v, lo, hi, MAX; 0 <= lo < hi is always established first):
//   c17_region_all   : no restriction (full symbolic domain)
//   c17_sint_safe    : exact region in which vek's SIGNED wrapped_between has no intermediate overflow:
//                      v >= lo, or the multiple of the period that vek adds to v,
//                      ((lo - v) / (hi - lo) + 1) * (hi - lo), fits in the type.
//                      (A simpler sufficient condition is v >= hi - MAX.)  Exactness is proved by the
//                      `*_outside_safe_region_always_overflows` harnesses.
//   c17_wsint_safe   : Wrapping<iN> never panics but returns wrong values once `lower - self` wraps;
//                      it is correct on the larger region lo - v <= MAX.
// ---------------------------------------------------------------------------------------------
macro_rules! c17_region_all { ($v:expr, $lo:expr, $hi:expr, $max:expr) => { true } }
macro_rules! c17_sint_safe { ($v:expr, $lo:expr, $hi:expr, $max:expr) => {
    ($v >= $lo || (($lo - $v) / ($hi - $lo) + 1) * ($hi - $lo) <= $max)
} }
macro_rules! c17_wsint_safe { ($v:expr, $lo:expr, $hi:expr, $max:expr) => { ($lo - $v <= $max) } }

/// Function contracts on one-call wrappers + `proof_for_contract` harnesses.
macro_rules! c17_wrap_contracts {
    (ty: $T:ty, any: $any:expr, wrappers: $m:ident, region: $safe:ident,
     wrapped: $h_w:ident, wrapped_between: $h_wb:ident, pingpong: $h_pp:ident) => {
        mod $m {
            use super::*;
            type W = <$T as ToW>::W;
            const MAXW: W = <$T as ToW>::MAXW;

            #[kani::requires(u.w() > 0 && $safe!(v.w(), 0, u.w(), MAXW))]
            #[kani::ensures(|r: &$T| 0 <= r.w() && r.w() < u.w())]
            #[kani::ensures(|r: &$T| (v.w() - r.w()) % u.w() == 0)]
            pub fn wrapped(v: $T, u: $T) -> $T { v.wrapped(u) }

            #[kani::requires(0 <= lo.w() && lo.w() < hi.w() && $safe!(v.w(), lo.w(), hi.w(), MAXW))]
            #[kani::ensures(|r: &$T| lo.w() <= r.w() && r.w() < hi.w())]
            #[kani::ensures(|r: &$T| (v.w() - r.w()) % (hi.w() - lo.w()) == 0)]
            pub fn wrapped_between(v: $T, lo: $T, hi: $T) -> $T { v.wrapped_between(lo, hi) }

            // precondition: the period 2*upper is representable in the type
            #[kani::requires(u.w() > 0 && 2 * u.w() <= MAXW && $safe!(v.w(), 0, 2 * u.w(), MAXW))]
            #[kani::ensures(|r: &$T| 0 <= r.w() && r.w() <= u.w())]
            #[kani::ensures(|r: &$T| { let m = v.w().rem_euclid(2 * u.w()); r.w() == if m <= u.w() { m } else { 2 * u.w() - m } })]
            pub fn pingpong(v: $T, u: $T) -> $T { v.pingpong(u) }
        }
        #[kani::proof_for_contract($m::wrapped)]
        fn $h_w() { $m::wrapped($any, $any); }
        #[kani::proof_for_contract($m::wrapped_between)]
        fn $h_wb() { $m::wrapped_between($any, $any, $any); }
        #[kani::proof_for_contract($m::pingpong)]
        fn $h_pp() { $m::pingpong($any, $any); }
    }
}

/// The same three laws as plain assume/assert harnesses.  Used for Wrapping<_>: its operators go through
/// `&mut self` trait calls, and the write-set instrumentation of `proof_for_contract` makes those proofs
/// 20-30x slower (measured: 120-280 s per harness instead of 4-8 s) without proving anything more.
macro_rules! c17_wrap_plain {
    (ty: $T:ty, any: $any:expr, region: $safe:ident,
     wrapped: $h_w:ident, wrapped_between: $h_wb:ident, pingpong: $h_pp:ident) => {
        #[kani::proof]
        fn $h_w() {
            let v: $T = $any; let u: $T = $any;
            kani::assume(u.w() > 0 && $safe!(v.w(), 0, u.w(), <$T as ToW>::MAXW));
            let r = v.wrapped(u);
            assert!(0 <= r.w() && r.w() < u.w());
            assert!((v.w() - r.w()) % u.w() == 0);
        }
        #[kani::proof]
        fn $h_wb() {
            let v: $T = $any; let lo: $T = $any; let hi: $T = $any;
            kani::assume(0 <= lo.w() && lo.w() < hi.w() && $safe!(v.w(), lo.w(), hi.w(), <$T as ToW>::MAXW));
            let r = v.wrapped_between(lo, hi);
            assert!(lo.w() <= r.w() && r.w() < hi.w());
            assert!((v.w() - r.w()) % (hi.w() - lo.w()) == 0);
        }
        #[kani::proof]
        fn $h_pp() {
            let v: $T = $any; let u: $T = $any;
            kani::assume(u.w() > 0 && 2 * u.w() <= <$T as ToW>::MAXW && $safe!(v.w(), 0, 2 * u.w(), <$T as ToW>::MAXW));
            let r = v.pingpong(u);
            assert!(0 <= r.w() && r.w() <= u.w());
            let m = v.w().rem_euclid(2 * u.w());
            assert!(r.w() == if m <= u.w() { m } else { 2 * u.w() - m });
        }
    }
}

/// Documented panics; each harness proves that EVERY input of the assumed domain panics.
macro_rules! c17_wrap_panics {
    (ty: $T:ty, any: $any:expr,
     wrapped: $h_wp:ident, wrapped_between: $h_wbp:ident, pingpong: $h_ppp:ident) => {
        /// wrapped: upper <= 0
        #[kani::proof]
        #[kani::should_panic]
        fn $h_wp() {
            let v: $T = $any; let u: $T = $any;
            kani::assume(u.w() <= 0);
            let _ = v.wrapped(u);
            must_be_unreachable();
        }
        /// wrapped_between: lower >= upper or lower < 0 (which covers upper <= 0)
        #[kani::proof]
        #[kani::should_panic]
        fn $h_wbp() {
            let v: $T = $any; let lo: $T = $any; let hi: $T = $any;
            kani::assume(!(0 <= lo.w() && lo.w() < hi.w()));
            let _ = v.wrapped_between(lo, hi);
            must_be_unreachable();
        }
        /// pingpong: upper <= 0
        #[kani::proof]
        #[kani::should_panic]
        fn $h_ppp() {
            let v: $T = $any; let u: $T = $any;
            kani::assume(u.w() <= 0);
            let _ = v.pingpong(u);
            must_be_unreachable();
        }
    }
}

// ---- unsigned primitives: full domain ----
c17_wrap_contracts!(ty: u8, any: kani::any(), wrappers: ww_u8, region: c17_region_all,
    wrapped: c17_contract_wrapped_u8, wrapped_between: c17_contract_wrapped_between_u8, pingpong: c17_contract_pingpong_u8);
c17_wrap_contracts!(ty: u16, any: kani::any(), wrappers: ww_u16, region: c17_region_all,
    wrapped: c17_contract_wrapped_u16, wrapped_between: c17_contract_wrapped_between_u16, pingpong: c17_contract_pingpong_u16);
c17_wrap_contracts!(ty: u32, any: kani::any(), wrappers: ww_u32, region: c17_region_all,
    wrapped: c17_contract_wrapped_u32, wrapped_between: c17_contract_wrapped_between_u32, pingpong: c17_contract_pingpong_u32);
c17_wrap_contracts!(ty: u64, any: kani::any(), wrappers: ww_u64, region: c17_region_all,
    wrapped: c17_contract_wrapped_u64, wrapped_between: c17_contract_wrapped_between_u64, pingpong: c17_contract_pingpong_u64);
c17_wrap_contracts!(ty: usize, any: kani::any(), wrappers: ww_usize, region: c17_region_all,
    wrapped: c17_contract_wrapped_usize, wrapped_between: c17_contract_wrapped_between_usize, pingpong: c17_contract_pingpong_usize);
// ---- signed primitives: full domain. These FAIL on the unchanged tree (intermediate overflow in ops.rs:645) ----
c17_wrap_contracts!(ty: i8, any: kani::any(), wrappers: ww_i8, region: c17_region_all,
    wrapped: c17_contract_wrapped_i8, wrapped_between: c17_contract_wrapped_between_i8, pingpong: c17_contract_pingpong_i8);
c17_wrap_contracts!(ty: i16, any: kani::any(), wrappers: ww_i16, region: c17_region_all,
    wrapped: c17_contract_wrapped_i16, wrapped_between: c17_contract_wrapped_between_i16, pingpong: c17_contract_pingpong_i16);
c17_wrap_contracts!(ty: i32, any: kani::any(), wrappers: ww_i32, region: c17_region_all,
    wrapped: c17_contract_wrapped_i32, wrapped_between: c17_contract_wrapped_between_i32, pingpong: c17_contract_pingpong_i32);
c17_wrap_contracts!(ty: i64, any: kani::any(), wrappers: ww_i64, region: c17_region_all,
    wrapped: c17_contract_wrapped_i64, wrapped_between: c17_contract_wrapped_between_i64, pingpong: c17_contract_pingpong_i64);
c17_wrap_contracts!(ty: isize, any: kani::any(), wrappers: ww_isize, region: c17_region_all,
    wrapped: c17_contract_wrapped_isize, wrapped_between: c17_contract_wrapped_between_isize, pingpong: c17_contract_pingpong_isize);
// ---- signed primitives: exact no-overflow region ----
c17_wrap_contracts!(ty: i8, any: kani::any(), wrappers: ws_i8, region: c17_sint_safe,
    wrapped: c17_contract_wrapped_i8_safe_region, wrapped_between: c17_contract_wrapped_between_i8_safe_region, pingpong: c17_contract_pingpong_i8_safe_region);
c17_wrap_contracts!(ty: i16, any: kani::any(), wrappers: ws_i16, region: c17_sint_safe,
    wrapped: c17_contract_wrapped_i16_safe_region, wrapped_between: c17_contract_wrapped_between_i16_safe_region, pingpong: c17_contract_pingpong_i16_safe_region);
c17_wrap_contracts!(ty: i32, any: kani::any(), wrappers: ws_i32, region: c17_sint_safe,
    wrapped: c17_contract_wrapped_i32_safe_region, wrapped_between: c17_contract_wrapped_between_i32_safe_region, pingpong: c17_contract_pingpong_i32_safe_region);
c17_wrap_contracts!(ty: i64, any: kani::any(), wrappers: ws_i64, region: c17_sint_safe,
    wrapped: c17_contract_wrapped_i64_safe_region, wrapped_between: c17_contract_wrapped_between_i64_safe_region, pingpong: c17_contract_pingpong_i64_safe_region);
c17_wrap_contracts!(ty: isize, any: kani::any(), wrappers: ws_isize, region: c17_sint_safe,
    wrapped: c17_contract_wrapped_isize_safe_region, wrapped_between: c17_contract_wrapped_between_isize_safe_region, pingpong: c17_contract_pingpong_isize_safe_region);
// ---- Wrapping<u8>: full domain; Wrapping<i8>: full domain (FAILS: wrong values) and its correct region ----
c17_wrap_plain!(ty: Wrapping<u8>, any: Wrapping(kani::any()), region: c17_region_all,
    wrapped: c17_wrapped_wu8, wrapped_between: c17_wrapped_between_wu8, pingpong: c17_pingpong_wu8);
c17_wrap_plain!(ty: Wrapping<i8>, any: Wrapping(kani::any()), region: c17_region_all,
    wrapped: c17_wrapped_wi8, wrapped_between: c17_wrapped_between_wi8, pingpong: c17_pingpong_wi8);
c17_wrap_plain!(ty: Wrapping<i8>, any: Wrapping(kani::any()), region: c17_wsint_safe,
    wrapped: c17_wrapped_wi8_safe_region, wrapped_between: c17_wrapped_between_wi8_safe_region, pingpong: c17_pingpong_wi8_safe_region);
// ---- documented panics ----
c17_wrap_panics!(ty: u8, any: kani::any(),
    wrapped: c17_wrapped_u8_panics_when_upper_not_positive, wrapped_between: c17_wrapped_between_u8_panics_when_bounds_bad, pingpong: c17_pingpong_u8_panics_when_upper_not_positive);
c17_wrap_panics!(ty: u16, any: kani::any(),
    wrapped: c17_wrapped_u16_panics_when_upper_not_positive, wrapped_between: c17_wrapped_between_u16_panics_when_bounds_bad, pingpong: c17_pingpong_u16_panics_when_upper_not_positive);
c17_wrap_panics!(ty: u32, any: kani::any(),
    wrapped: c17_wrapped_u32_panics_when_upper_not_positive, wrapped_between: c17_wrapped_between_u32_panics_when_bounds_bad, pingpong: c17_pingpong_u32_panics_when_upper_not_positive);
c17_wrap_panics!(ty: u64, any: kani::any(),
    wrapped: c17_wrapped_u64_panics_when_upper_not_positive, wrapped_between: c17_wrapped_between_u64_panics_when_bounds_bad, pingpong: c17_pingpong_u64_panics_when_upper_not_positive);
c17_wrap_panics!(ty: usize, any: kani::any(),
    wrapped: c17_wrapped_usize_panics_when_upper_not_positive, wrapped_between: c17_wrapped_between_usize_panics_when_bounds_bad, pingpong: c17_pingpong_usize_panics_when_upper_not_positive);
c17_wrap_panics!(ty: i8, any: kani::any(),
    wrapped: c17_wrapped_i8_panics_when_upper_not_positive, wrapped_between: c17_wrapped_between_i8_panics_when_bounds_bad, pingpong: c17_pingpong_i8_panics_when_upper_not_positive);
c17_wrap_panics!(ty: i16, any: kani::any(),
    wrapped: c17_wrapped_i16_panics_when_upper_not_positive, wrapped_between: c17_wrapped_between_i16_panics_when_bounds_bad, pingpong: c17_pingpong_i16_panics_when_upper_not_positive);
c17_wrap_panics!(ty: i32, any: kani::any(),
    wrapped: c17_wrapped_i32_panics_when_upper_not_positive, wrapped_between: c17_wrapped_between_i32_panics_when_bounds_bad, pingpong: c17_pingpong_i32_panics_when_upper_not_positive);
c17_wrap_panics!(ty: i64, any: kani::any(),
    wrapped: c17_wrapped_i64_panics_when_upper_not_positive, wrapped_between: c17_wrapped_between_i64_panics_when_bounds_bad, pingpong: c17_pingpong_i64_panics_when_upper_not_positive);
c17_wrap_panics!(ty: isize, any: kani::any(),
    wrapped: c17_wrapped_isize_panics_when_upper_not_positive, wrapped_between: c17_wrapped_between_isize_panics_when_bounds_bad, pingpong: c17_pingpong_isize_panics_when_upper_not_positive);
c17_wrap_panics!(ty: Wrapping<u8>, any: Wrapping(kani::any()),
    wrapped: c17_wrapped_wu8_panics_when_upper_not_positive, wrapped_between: c17_wrapped_between_wu8_panics_when_bounds_bad, pingpong: c17_pingpong_wu8_panics_when_upper_not_positive);
c17_wrap_panics!(ty: Wrapping<i8>, any: Wrapping(kani::any()),
    wrapped: c17_wrapped_wi8_panics_when_upper_not_positive, wrapped_between: c17_wrapped_between_wi8_panics_when_bounds_bad, pingpong: c17_pingpong_wi8_panics_when_upper_not_positive);

/// The i8 safe region is exact: outside of it every input hits an overflow panic.
#[kani::proof]
#[kani::should_panic]
fn c17_wrapped_between_i8_outside_safe_region_always_overflows() {
    let v: i8 = kani::any(); let lo: i8 = kani::any(); let hi: i8 = kani::any();
    kani::assume(0 <= lo && lo < hi);
    kani::assume(!c17_sint_safe!(v.w(), lo.w(), hi.w(), <i8 as ToW>::MAXW));
    let _ = v.wrapped_between(lo, hi);
    must_be_unreachable();
}
#[kani::proof]
#[kani::should_panic]
fn c17_pingpong_i8_outside_safe_region_always_overflows() {
    let v: i8 = kani::any(); let u: i8 = kani::any();
    kani::assume(0 < u && u <= 63);
    kani::assume(!c17_sint_safe!(v.w(), 0, 2 * u.w(), <i8 as ToW>::MAXW));
    let _ = v.pingpong(u);
    must_be_unreachable();
}

/// Period 2*upper not representable: unsigned pingpong panics (u8) / silently returns a wrong value
/// (Wrapping<u8>) although the triangle-wave value itself (<= upper) is representable.
/// Registered as known_failing; the contracts above state "2*upper representable" as a precondition.
#[kani::proof]
fn c17_pingpong_u8_unrepresentable_period() {
    let v: u8 = kani::any(); let u: u8 = kani::any();
    kani::assume(u >= 128);
    let r = v.pingpong(u);
    let m = v.w().rem_euclid(2 * u.w());
    assert!(r.w() == if m <= u.w() { m } else { 2 * u.w() - m });
}
#[kani::proof]
fn c17_pingpong_wu8_unrepresentable_period() {
    let v: Wrapping<u8> = Wrapping(kani::any()); let u: Wrapping<u8> = Wrapping(kani::any());
    kani::assume(u.0 > 128); // (u == 128 makes the wrapped period 0: division by zero instead)
    let r = v.pingpong(u);
    let m = v.w().rem_euclid(2 * u.w());
    assert!(r.w() == if m <= u.w() { m } else { 2 * u.w() - m });
}

/// aliases `wrap`, `wrap_between`, and wrapped(u) == wrapped_between(0, u)   (u8: full domain; i8: safe region)
#[kani::proof]
fn c17_wrap_aliases_u8() {
    let v: u8 = kani::any(); let lo: u8 = kani::any(); let hi: u8 = kani::any();
    kani::assume(lo < hi);
    assert!(<u8 as Wrap>::wrap(v, hi) == v.wrapped(hi));
    assert!(<u8 as Wrap>::wrap_between(v, lo, hi) == v.wrapped_between(lo, hi));
    assert!(v.wrapped(hi) == v.wrapped_between(0, hi));
}
#[kani::proof]
fn c17_wrap_aliases_i8_safe_region() {
    let v: i8 = kani::any(); let lo: i8 = kani::any(); let hi: i8 = kani::any();
    kani::assume(0 <= lo && lo < hi);
    kani::assume(c17_sint_safe!(v.w(), 0, hi.w(), 127));
    kani::assume(c17_sint_safe!(v.w(), lo.w(), hi.w(), 127));
    assert!(<i8 as Wrap>::wrap(v, hi) == v.wrapped(hi));
    assert!(<i8 as Wrap>::wrap_between(v, lo, hi) == v.wrapped_between(lo, hi));
    assert!(v.wrapped(hi) == v.wrapped_between(0, hi));
}

// ---- delta_angle_degrees on a signed integer (Bound: From<u16>): result in (-180,180], congruent to target-self ----
mod wd_i32 {
    use super::*;
    // domain: target - self representable
    #[kani::requires((t as i64 - s as i64).abs() <= i32::MAX as i64)]
    #[kani::ensures(|r: &i32| -180 < *r && *r <= 180)]
    #[kani::ensures(|r: &i32| (t as i64 - s as i64 - *r as i64) % 360 == 0)]
    pub fn delta_angle_degrees(s: i32, t: i32) -> i32 { s.delta_angle_degrees(t) }

    // ... and target - self inside the safe region of wrapped(_, 360)
    #[kani::requires((t as i64 - s as i64).abs() <= i32::MAX as i64
        && c17_sint_safe!(t as i64 - s as i64, 0, 360, i32::MAX as i64))]
    #[kani::ensures(|r: &i32| -180 < *r && *r <= 180)]
    #[kani::ensures(|r: &i32| (t as i64 - s as i64 - *r as i64) % 360 == 0)]
    pub fn delta_angle_degrees_safe(s: i32, t: i32) -> i32 { s.delta_angle_degrees(t) }
}
#[kani::proof_for_contract(wd_i32::delta_angle_degrees)]
fn c17_contract_delta_angle_degrees_i32() { wd_i32::delta_angle_degrees(kani::any(), kani::any()); }
#[kani::proof_for_contract(wd_i32::delta_angle_degrees_safe)]
fn c17_contract_delta_angle_degrees_i32_safe_region() { wd_i32::delta_angle_degrees_safe(kani::any(), kani::any()); }

// ---------------------------------------------------------------------------------------------
// Wider integer types.  The complete contracts above (`c17_contract_*_{u16..usize}` and
// `*_{i16..isize}_safe_region`) need the SAT solver to relate two independent divider circuits of
// 32..128 bits and do not finish (u16 `wrapped` is the exception); they are kept in the source but only
// the ones with a definite verdict are registered.  What is registered instead, per type:
//   *_small        : the same contracts on the sub-domain -256 <= v <= 255, upper <= 255 (all magnitudes
//                    fit in 9 bits, so the divider circuits collapse) -- guards the instantiation.
//   *_const_period : v FULLY symbolic over the whole type (restricted to the exact safe region for signed
//                    types), bounds drawn from a fixed list of constants that includes 1, small primes,
//                    360, a power of two, and values at the very top of the type's range -- guards the
//                    behaviour at the range ends, where the known overflow defect lives.
// ---------------------------------------------------------------------------------------------
macro_rules! c17_small_all { ($v:expr, $lo:expr, $hi:expr, $max:expr) => { ($hi <= 255 && -256 <= $v && $v <= 255) } }
macro_rules! c17_sint_safe_small_all { ($v:expr, $lo:expr, $hi:expr, $max:expr) => { ($hi <= 255 && -256 <= $v && $v <= 255 && c17_sint_safe!($v, $lo, $hi, $max)) } }
c17_wrap_contracts!(ty: u16, any: kani::any(), wrappers: wsm_u16, region: c17_small_all,
    wrapped: c17_contract_wrapped_u16_small, wrapped_between: c17_contract_wrapped_between_u16_small, pingpong: c17_contract_pingpong_u16_small);
c17_wrap_contracts!(ty: u32, any: kani::any(), wrappers: wsm_u32, region: c17_small_all,
    wrapped: c17_contract_wrapped_u32_small, wrapped_between: c17_contract_wrapped_between_u32_small, pingpong: c17_contract_pingpong_u32_small);
c17_wrap_contracts!(ty: u64, any: kani::any(), wrappers: wsm_u64, region: c17_small_all,
    wrapped: c17_contract_wrapped_u64_small, wrapped_between: c17_contract_wrapped_between_u64_small, pingpong: c17_contract_pingpong_u64_small);
c17_wrap_contracts!(ty: usize, any: kani::any(), wrappers: wsm_usize, region: c17_small_all,
    wrapped: c17_contract_wrapped_usize_small, wrapped_between: c17_contract_wrapped_between_usize_small, pingpong: c17_contract_pingpong_usize_small);
c17_wrap_contracts!(ty: i16, any: kani::any(), wrappers: wsm_i16, region: c17_sint_safe_small_all,
    wrapped: c17_contract_wrapped_i16_small, wrapped_between: c17_contract_wrapped_between_i16_small, pingpong: c17_contract_pingpong_i16_small);
c17_wrap_contracts!(ty: i32, any: kani::any(), wrappers: wsm_i32, region: c17_sint_safe_small_all,
    wrapped: c17_contract_wrapped_i32_small, wrapped_between: c17_contract_wrapped_between_i32_small, pingpong: c17_contract_pingpong_i32_small);
c17_wrap_contracts!(ty: i64, any: kani::any(), wrappers: wsm_i64, region: c17_sint_safe_small_all,
    wrapped: c17_contract_wrapped_i64_small, wrapped_between: c17_contract_wrapped_between_i64_small, pingpong: c17_contract_pingpong_i64_small);
c17_wrap_contracts!(ty: isize, any: kani::any(), wrappers: wsm_isize, region: c17_sint_safe_small_all,
    wrapped: c17_contract_wrapped_isize_small, wrapped_between: c17_contract_wrapped_between_isize_small, pingpong: c17_contract_pingpong_isize_small);

macro_rules! c17_wrap_const_period {
    (ty: $T:ty, region: $safe:ident,
     uppers: [$($u:expr),+], bounds: [$($b:expr),+], pingpong_uppers: [$($p:expr),+],
     wrapped: $h_w:ident, wrapped_between: $h_wb:ident, pingpong: $h_pp:ident) => {
        #[kani::proof]
        fn $h_w() {
            const M: $T = <$T>::MAX;
            const H: $T = 1 << (<$T>::BITS / 2);
            const U: &[$T] = &[$($u),+];
            let v: $T = kani::any();
            let i: usize = kani::any(); kani::assume(i < U.len());
            let u = U[i];
            kani::assume($safe!(v.w(), 0, u.w(), <$T as ToW>::MAXW));
            let r = v.wrapped(u);
            assert!(0 <= r.w() && r.w() < u.w());
            assert!((v.w() - r.w()) % u.w() == 0);
        }
        #[kani::proof]
        fn $h_wb() {
            const M: $T = <$T>::MAX;
            const H: $T = 1 << (<$T>::BITS / 2);
            const B: &[($T, $T)] = &[$($b),+];
            let v: $T = kani::any();
            let i: usize = kani::any(); kani::assume(i < B.len());
            let (lo, hi) = B[i];
            kani::assume($safe!(v.w(), lo.w(), hi.w(), <$T as ToW>::MAXW));
            let r = v.wrapped_between(lo, hi);
            assert!(lo.w() <= r.w() && r.w() < hi.w());
            assert!((v.w() - r.w()) % (hi.w() - lo.w()) == 0);
        }
        #[kani::proof]
        fn $h_pp() {
            const M: $T = <$T>::MAX;
            const H: $T = 1 << (<$T>::BITS / 2);
            const U: &[$T] = &[$($p),+];
            let v: $T = kani::any();
            let i: usize = kani::any(); kani::assume(i < U.len());
            let u = U[i];
            kani::assume($safe!(v.w(), 0, 2 * u.w(), <$T as ToW>::MAXW));
            let r = v.pingpong(u);
            assert!(0 <= r.w() && r.w() <= u.w());
            let m = v.w().rem_euclid(2 * u.w());
            assert!(r.w() == if m <= u.w() { m } else { 2 * u.w() - m });
        }
    }
}
// Constant lists (M = T::MAX, H = 2^(BITS/2)).  Periods with many set bits (360, H-100) make the 64-bit
// instances run for many minutes, so the 64-bit lists use 1, small primes, 10, H and the range-end values only.
c17_wrap_const_period!(ty: u16, region: c17_region_all,
    uppers: [1, 2, 3, 10, 360, H, M / 2 + 1, M], bounds: [(2, 5), (0, 1), (1, M), (M - 3, M), (M / 2, M / 2 + 7), (100, H)], pingpong_uppers: [1, 3, 180, H, M / 2],
    wrapped: c17_wrapped_u16_const_period, wrapped_between: c17_wrapped_between_u16_const_period, pingpong: c17_pingpong_u16_const_period);
c17_wrap_const_period!(ty: u32, region: c17_region_all,
    uppers: [1, 2, 3, 10, 360, H, M / 2 + 1, M], bounds: [(2, 5), (0, 1), (1, M), (M - 3, M), (M / 2, M / 2 + 7), (0, 360)], pingpong_uppers: [1, 3, 180, H, M / 2],
    wrapped: c17_wrapped_u32_const_period, wrapped_between: c17_wrapped_between_u32_const_period, pingpong: c17_pingpong_u32_const_period);
c17_wrap_const_period!(ty: u64, region: c17_region_all,
    uppers: [1, 2, 3, 7, 10, H, M / 2 + 1, M], bounds: [(2, 5), (0, 1), (1, M), (M - 3, M), (M / 2, M / 2 + 7), (0, 3)], pingpong_uppers: [1, 3, 5, H, M / 2],
    wrapped: c17_wrapped_u64_const_period, wrapped_between: c17_wrapped_between_u64_const_period, pingpong: c17_pingpong_u64_const_period);
c17_wrap_const_period!(ty: usize, region: c17_region_all,
    uppers: [1, 2, 3, 7, 10, H, M / 2 + 1, M], bounds: [(2, 5), (0, 1), (1, M), (M - 3, M), (M / 2, M / 2 + 7), (0, 3)], pingpong_uppers: [1, 3, 5, H, M / 2],
    wrapped: c17_wrapped_usize_const_period, wrapped_between: c17_wrapped_between_usize_const_period, pingpong: c17_pingpong_usize_const_period);
c17_wrap_const_period!(ty: i16, region: c17_sint_safe,
    uppers: [1, 2, 3, 10, 360, H, M / 2 + 1, M], bounds: [(2, 5), (0, 1), (1, M), (M - 3, M), (M / 2, M / 2 + 7), (100, H)], pingpong_uppers: [1, 3, 180, H, M / 2],
    wrapped: c17_wrapped_i16_const_period_safe_region, wrapped_between: c17_wrapped_between_i16_const_period_safe_region, pingpong: c17_pingpong_i16_const_period_safe_region);
c17_wrap_const_period!(ty: i32, region: c17_sint_safe,
    uppers: [1, 2, 3, 10, 360, H, M / 2 + 1, M], bounds: [(2, 5), (0, 1), (1, M), (M - 3, M), (M / 2, M / 2 + 7), (0, 360)], pingpong_uppers: [1, 3, 180, H, M / 2],
    wrapped: c17_wrapped_i32_const_period_safe_region, wrapped_between: c17_wrapped_between_i32_const_period_safe_region, pingpong: c17_pingpong_i32_const_period_safe_region);
c17_wrap_const_period!(ty: i64, region: c17_sint_safe,
    uppers: [1, 2, 3, 7, 10, H, M / 2 + 1, M], bounds: [(2, 5), (0, 1), (1, M), (M - 3, M), (M / 2, M / 2 + 7), (0, 3)], pingpong_uppers: [1, 3, 5, H, M / 2],
    wrapped: c17_wrapped_i64_const_period_safe_region, wrapped_between: c17_wrapped_between_i64_const_period_safe_region, pingpong: c17_pingpong_i64_const_period_safe_region);
c17_wrap_const_period!(ty: isize, region: c17_sint_safe,
    uppers: [1, 2, 3, 7, 10, H, M / 2 + 1, M], bounds: [(2, 5), (0, 1), (1, M), (M - 3, M), (M / 2, M / 2 + 7), (0, 3)], pingpong_uppers: [1, 3, 5, H, M / 2],
    wrapped: c17_wrapped_isize_const_period_safe_region, wrapped_between: c17_wrapped_between_isize_const_period_safe_region, pingpong: c17_pingpong_isize_const_period_safe_region);

// Wider signed types on the FULL domain of v (no safe-region restriction), with a few constant bounds:
// "no intermediate overflow for every input whose result is representable".  These FAIL on the unchanged
// tree within seconds (e.g. (MIN+1).wrapped(1)).  The complete full-domain contracts
// `c17_contract_*_{i16..isize}` fail as well, but only after the postconditions have been decided on the whole
// non-overflowing part (650-1400 s for i16, no verdict in 1800 s for wider types), so they are not registered.
c17_wrap_const_period!(ty: i16, region: c17_region_all,
    uppers: [1, 2], bounds: [(0, 1), (M - 3, M)], pingpong_uppers: [1, 3],
    wrapped: c17_wrapped_i16_full_domain_const_bounds, wrapped_between: c17_wrapped_between_i16_full_domain_const_bounds, pingpong: c17_pingpong_i16_full_domain_const_bounds);
c17_wrap_const_period!(ty: i32, region: c17_region_all,
    uppers: [1, 2], bounds: [(0, 1), (M - 3, M)], pingpong_uppers: [1, 3],
    wrapped: c17_wrapped_i32_full_domain_const_bounds, wrapped_between: c17_wrapped_between_i32_full_domain_const_bounds, pingpong: c17_pingpong_i32_full_domain_const_bounds);
c17_wrap_const_period!(ty: i64, region: c17_region_all,
    uppers: [1, 2], bounds: [(0, 1), (M - 3, M)], pingpong_uppers: [1, 3],
    wrapped: c17_wrapped_i64_full_domain_const_bounds, wrapped_between: c17_wrapped_between_i64_full_domain_const_bounds, pingpong: c17_pingpong_i64_full_domain_const_bounds);
c17_wrap_const_period!(ty: isize, region: c17_region_all,
    uppers: [1, 2], bounds: [(0, 1), (M - 3, M)], pingpong_uppers: [1, 3],
    wrapped: c17_wrapped_isize_full_domain_const_bounds, wrapped_between: c17_wrapped_between_isize_full_domain_const_bounds, pingpong: c17_pingpong_isize_full_domain_const_bounds);
