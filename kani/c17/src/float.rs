// ---------------------------------------------------------------------------------------------
// Floats.  Clamp / IsBetween: exact laws (comparisons only, fast).  Wrap family: range laws with an
// explicit tolerance, see below.
// ---------------------------------------------------------------------------------------------

macro_rules! c17_clamp_float {
    (ty: $T:ty, wrappers: $m:ident,
     contract_clamped: $h_clamped:ident, contract_is_between: $h_between:ident,
     contract_clamped01: $h_c01:ident, contract_clamped_minus1_1: $h_cm1:ident,
     laws: $h_laws:ident, clamped_panics: $h_cp:ident, is_between_panics: $h_bp:ident) => {
        mod $m {
            use super::*;
            // lo <= hi implies that neither bound is NaN.  The value may be anything, even NaN:
            // the result always lies within the bounds; for a non-NaN value it is the value itself
            // when in range and the nearer bound otherwise.
            #[kani::requires(lo <= hi)]
            #[kani::ensures(|r: &$T| lo <= *r && *r <= hi)]
            #[kani::ensures(|r: &$T| v.is_nan() || *r == if v < lo { lo } else if v > hi { hi } else { v })]
            pub fn clamped(v: $T, lo: $T, hi: $T) -> $T { v.clamped(lo, hi) }

            #[kani::requires(lo <= hi)]
            #[kani::ensures(|r: &bool| *r == (lo <= v && v <= hi))]
            pub fn is_between(v: $T, lo: $T, hi: $T) -> bool { v.is_between(lo, hi) }

            #[kani::ensures(|r: &$T| 0.0 <= *r && *r <= 1.0)]
            #[kani::ensures(|r: &$T| v.is_nan() || *r == if v < 0.0 { 0.0 } else if v > 1.0 { 1.0 } else { v })]
            pub fn clamped01(v: $T) -> $T { v.clamped01() }

            #[kani::ensures(|r: &$T| -1.0 <= *r && *r <= 1.0)]
            #[kani::ensures(|r: &$T| v.is_nan() || *r == if v < -1.0 { -1.0 } else if v > 1.0 { 1.0 } else { v })]
            pub fn clamped_minus1_1(v: $T) -> $T { v.clamped_minus1_1() }
        }
        #[kani::proof_for_contract($m::clamped)]
        fn $h_clamped() { $m::clamped(kani::any(), kani::any(), kani::any()); }
        #[kani::proof_for_contract($m::is_between)]
        fn $h_between() { $m::is_between(kani::any(), kani::any(), kani::any()); }
        #[kani::proof_for_contract($m::clamped01)]
        fn $h_c01() { $m::clamped01(kani::any()); }
        #[kani::proof_for_contract($m::clamped_minus1_1)]
        fn $h_cm1() { $m::clamped_minus1_1(kani::any()); }

        /// idempotence, agreement with the range test, aliases; every value including NaN and infinities
        #[kani::proof]
        fn $h_laws() {
            let v: $T = kani::any(); let lo: $T = kani::any(); let hi: $T = kani::any();
            kani::assume(lo <= hi);
            let r = v.clamped(lo, hi);
            assert!(r.clamped(lo, hi) == r);
            assert!(r.is_between(lo, hi));
            assert!(v.is_between(lo, hi) == (r == v));
            assert!(<$T as Clamp>::clamp(v, lo, hi) == r);
            assert!(v.clamped_to_inclusive_range(lo..=hi) == r);
            assert!(<$T as Clamp>::clamp_to_inclusive_range(v, lo..=hi) == r);
            assert!(v.is_between_inclusive_range_bounds(lo..=hi) == v.is_between(lo, hi));
            assert!(<$T as Clamp>::clamp01(v) == v.clamped01());
            assert!(<$T as Clamp>::clamp_minus1_1(v) == v.clamped_minus1_1());
            assert!(v.is_between01() == (0.0 <= v && v <= 1.0));
        }
        /// panics exactly when NOT lower <= upper (inverted, or a NaN bound): every such input panics
        #[kani::proof]
        #[kani::should_panic]
        fn $h_cp() {
            let v: $T = kani::any(); let lo: $T = kani::any(); let hi: $T = kani::any();
            kani::assume(!(lo <= hi));
            let _ = v.clamped(lo, hi);
            must_be_unreachable();
        }
        #[kani::proof]
        #[kani::should_panic]
        fn $h_bp() {
            let v: $T = kani::any(); let lo: $T = kani::any(); let hi: $T = kani::any();
            kani::assume(!(lo <= hi));
            let _ = v.is_between(lo, hi);
            must_be_unreachable();
        }
    }
}
c17_clamp_float!(ty: f32, wrappers: wc_f32,
    contract_clamped: c17_contract_clamped_f32, contract_is_between: c17_contract_is_between_f32,
    contract_clamped01: c17_contract_clamped01_f32, contract_clamped_minus1_1: c17_contract_clamped_minus1_1_f32,
    laws: c17_clamp_laws_f32, clamped_panics: c17_clamped_f32_panics_when_not_ordered, is_between_panics: c17_is_between_f32_panics_when_not_ordered);
c17_clamp_float!(ty: f64, wrappers: wc_f64,
    contract_clamped: c17_contract_clamped_f64, contract_is_between: c17_contract_is_between_f64,
    contract_clamped01: c17_contract_clamped01_f64, contract_clamped_minus1_1: c17_contract_clamped_minus1_1_f64,
    laws: c17_clamp_laws_f64, clamped_panics: c17_clamped_f64_panics_when_not_ordered, is_between_panics: c17_is_between_f64_panics_when_not_ordered);

// ---- experiments
fn tol32(v: f32, u: f32) -> f32 { (if v.abs() > u { v.abs() } else { u }) * (1.0 / 2097152.0) + 5.6e-45 }
fn few_bits(u: f32) -> bool { u.to_bits() & 0x000F_FFFF == 0 }
#[kani::proof]
fn c17_z_wrapped_f32_fewbits() {
    let v: f32 = kani::any(); let u: f32 = kani::any();
    kani::assume(v.abs() <= 1e38 && u <= 1e38 && u > 0.0 && few_bits(u) && (v / u).is_finite());
    let r = v.wrapped(u);
    let tol = tol32(v, u);
    assert!(!r.is_nan());
    assert!(-tol <= r && r <= u + tol);
}
#[kani::proof]
fn c17_z_wrapped_f32_fewbits_congruent() {
    let v: f32 = kani::any(); let u: f32 = kani::any();
    kani::assume(v.abs() <= 1e38 && u <= 1e38 && u > 0.0 && few_bits(u) && (v / u).abs() <= 16777216.0);
    let r = v.wrapped(u);
    let k = (v / u).floor();
    let e = v as f64 - k as f64 * u as f64 - r as f64;
    assert!(e.abs() <= tol32(v, u) as f64);
}
#[kani::proof]
fn c17_z_pingpong_f32_fewbits() {
    let v: f32 = kani::any(); let u: f32 = kani::any();
    kani::assume(v.abs() <= 1e38 && u <= 5e37 && u > 0.0 && few_bits(u) && (v / (u + u)).is_finite());
    let r = v.pingpong(u);
    let tol = tol32(v, u);
    assert!(!r.is_nan());
    assert!(-tol <= r && r <= u);
}
#[kani::proof]
fn c17_z_wrapped_between_f32_fewbits() {
    let v: f32 = kani::any(); let lo: f32 = kani::any(); let hi: f32 = kani::any();
    kani::assume(v.abs() <= 1e37 && 0.0 <= lo && lo < hi && hi <= 1e37 && few_bits(lo) && few_bits(hi) && ((v - lo) / (hi - lo)).is_finite());
    let r = v.wrapped_between(lo, hi);
    let tol = tol32(v, hi);
    assert!(!r.is_nan());
    assert!(lo - tol <= r && r <= hi + tol);
}
#[kani::proof]
fn c17_z_delta_angle_f32_1024() {
    let s: f32 = kani::any(); let t: f32 = kani::any();
    kani::assume(s.abs() <= 1024.0 && t.abs() <= 1024.0);
    let r = s.delta_angle(t);
    assert!(-core::f32::consts::PI < r && r <= core::f32::consts::PI);
}
#[kani::proof]
fn c17_z_delta_angle_degrees_f32_congruent() {
    let s: f32 = kani::any(); let t: f32 = kani::any();
    kani::assume(s.abs() <= 65536.0 && t.abs() <= 65536.0);
    let r = s.delta_angle_degrees(t);
    let d = t - s;
    let k = (d / 360.0).floor();
    let e = d as f64 - k as f64 * 360.0 - r as f64;
    let tol = tol32(d, 360.0) as f64;
    assert!(e.abs() <= tol || (e - 360.0).abs() <= tol);
}
#[kani::proof]
fn c17_z_wrapped_2pi_f32_1024() {
    let v: f32 = kani::any();
    kani::assume(v.abs() <= 1024.0);
    let r = v.wrapped_2pi();
    let tol = tol32(v, core::f32::consts::TAU);
    assert!(-tol <= r && r <= core::f32::consts::TAU + tol);
}
#[kani::proof]
fn c17_q_wrapped_f32_symbolic_small() {
    let v: f32 = kani::any(); let u: f32 = kani::any();
    kani::assume(v.abs() <= 64.0 && 1.0 <= u && u <= 64.0);
    let r = v.wrapped(u);
    let tol = tol32(v, u);
    assert!(-tol <= r && r <= u + tol);
}
#[kani::proof]
fn c17_q_wrapped_2pi_f32_congruent_1024() {
    let v: f32 = kani::any();
    kani::assume(v.abs() <= 1024.0);
    let r = v.wrapped_2pi();
    let k = (v / core::f32::consts::TAU).floor();
    let e = v as f64 - k as f64 * core::f32::consts::TAU as f64 - r as f64;
    assert!(e.abs() <= tol32(v, core::f32::consts::TAU) as f64);
}
#[kani::proof]
fn c17_q_delta_angle_f32_congruent_1024() {
    let s: f32 = kani::any(); let t: f32 = kani::any();
    kani::assume(s.abs() <= 1024.0 && t.abs() <= 1024.0);
    let r = s.delta_angle(t);
    let d = t - s;
    let tau = core::f32::consts::TAU;
    let k = (d / tau).floor();
    let e = d as f64 - k as f64 * tau as f64 - r as f64;
    let tol = tol32(d, tau) as f64;
    assert!(e.abs() <= tol || (e - tau as f64).abs() <= tol);
}
#[kani::proof]
fn c17_q_delta_angle_degrees_f32_1024() {
    let s: f32 = kani::any(); let t: f32 = kani::any();
    kani::assume(s.abs() <= 1024.0 && t.abs() <= 1024.0);
    let r = s.delta_angle_degrees(t);
    assert!(-180.0 < r && r <= 180.0);
}
#[kani::proof]
#[kani::should_panic]
fn c17_q_wrapped_f32_panics() {
    let v: f32 = kani::any(); let u: f32 = kani::any();
    kani::assume(!(u > 0.0));
    let _ = v.wrapped(u);
    must_be_unreachable();
}
#[kani::proof]
#[kani::should_panic]
fn c17_q_wrapped_between_f32_panics() {
    let v: f32 = kani::any(); let lo: f32 = kani::any(); let hi: f32 = kani::any();
    kani::assume(!(lo < hi && lo >= 0.0));
    let _ = v.wrapped_between(lo, hi);
    must_be_unreachable();
}
#[kani::proof]
#[kani::should_panic]
fn c17_q_pingpong_f32_panics() {
    let v: f32 = kani::any(); let u: f32 = kani::any();
    kani::assume(!(u > 0.0));
    let _ = v.pingpong(u);
    must_be_unreachable();
}
