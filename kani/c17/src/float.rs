// ---------------------------------------------------------------------------------------------
// Floats.  Clamp / IsBetween: exact laws (comparisons only, fast).  Wrap family: range laws with an
// explicit tolerance, see below.
// ---------------------------------------------------------------------------------------------

macro_rules! c17_clamp_float {
    (ty: $T:ty, wrappers: $m:ident,
     contract_clamped: $h_clamped:ident, contract_is_between: $h_between:ident,
     contract_clamped01: $h_c01:ident, contract_clamped_minus1_1: $h_cm1:ident,
     laws: $h_laws:ident, clamped_panics: $h_cp:ident, is_between_panics: $h_bp:ident) => {
        mod $m {
            use super::*;
            // lo <= hi implies that neither bound is NaN.  The value may be anything, even NaN:
            // the result always lies within the bounds; for a non-NaN value it is the value itself
            // when in range and the nearer bound otherwise.
            #[kani::requires(lo <= hi)]
            #[kani::ensures(|r: &$T| lo <= *r && *r <= hi)]
            #[kani::ensures(|r: &$T| v.is_nan() || *r == if v < lo { lo } else if v > hi { hi } else { v })]
            pub fn clamped(v: $T, lo: $T, hi: $T) -> $T { v.clamped(lo, hi) }

            #[kani::requires(lo <= hi)]
            #[kani::ensures(|r: &bool| *r == (lo <= v && v <= hi))]
            pub fn is_between(v: $T, lo: $T, hi: $T) -> bool { v.is_between(lo, hi) }

            #[kani::ensures(|r: &$T| 0.0 <= *r && *r <= 1.0)]
            #[kani::ensures(|r: &$T| v.is_nan() || *r == if v < 0.0 { 0.0 } else if v > 1.0 { 1.0 } else { v })]
            pub fn clamped01(v: $T) -> $T { v.clamped01() }

            #[kani::ensures(|r: &$T| -1.0 <= *r && *r <= 1.0)]
            #[kani::ensures(|r: &$T| v.is_nan() || *r == if v < -1.0 { -1.0 } else if v > 1.0 { 1.0 } else { v })]
            pub fn clamped_minus1_1(v: $T) -> $T { v.clamped_minus1_1() }
        }
        #[kani::proof_for_contract($m::clamped)]
        fn $h_clamped() { $m::clamped(kani::any(), kani::any(), kani::any()); }
        #[kani::proof_for_contract($m::is_between)]
        fn $h_between() { $m::is_between(kani::any(), kani::any(), kani::any()); }
        #[kani::proof_for_contract($m::clamped01)]
        fn $h_c01() { $m::clamped01(kani::any()); }
        #[kani::proof_for_contract($m::clamped_minus1_1)]
        fn $h_cm1() { $m::clamped_minus1_1(kani::any()); }

        /// idempotence, agreement with the range test, aliases; every value including NaN and infinities
        #[kani::proof]
        fn $h_laws() {
            let v: $T = kani::any(); let lo: $T = kani::any(); let hi: $T = kani::any();
            kani::assume(lo <= hi);
            let r = v.clamped(lo, hi);
            assert!(r.clamped(lo, hi) == r);
            assert!(r.is_between(lo, hi));
            assert!(v.is_between(lo, hi) == (r == v));
            assert!(<$T as Clamp>::clamp(v, lo, hi) == r);
            assert!(v.clamped_to_inclusive_range(lo..=hi) == r);
            assert!(<$T as Clamp>::clamp_to_inclusive_range(v, lo..=hi) == r);
            assert!(v.is_between_inclusive_range_bounds(lo..=hi) == v.is_between(lo, hi));
            assert!(<$T as Clamp>::clamp01(v) == v.clamped01());
            assert!(<$T as Clamp>::clamp_minus1_1(v) == v.clamped_minus1_1());
            assert!(v.is_between01() == (0.0 <= v && v <= 1.0));
        }
        /// panics exactly when NOT lower <= upper (inverted, or a NaN bound): every such input panics
        #[kani::proof]
        #[kani::should_panic]
        fn $h_cp() {
            let v: $T = kani::any(); let lo: $T = kani::any(); let hi: $T = kani::any();
            kani::assume(!(lo <= hi));
            let _ = v.clamped(lo, hi);
            must_be_unreachable();
        }
        #[kani::proof]
        #[kani::should_panic]
        fn $h_bp() {
            let v: $T = kani::any(); let lo: $T = kani::any(); let hi: $T = kani::any();
            kani::assume(!(lo <= hi));
            let _ = v.is_between(lo, hi);
            must_be_unreachable();
        }
    }
}
c17_clamp_float!(ty: f32, wrappers: wc_f32,
    contract_clamped: c17_contract_clamped_f32, contract_is_between: c17_contract_is_between_f32,
    contract_clamped01: c17_contract_clamped01_f32, contract_clamped_minus1_1: c17_contract_clamped_minus1_1_f32,
    laws: c17_clamp_laws_f32, clamped_panics: c17_clamped_f32_panics_when_not_ordered, is_between_panics: c17_is_between_f32_panics_when_not_ordered);
c17_clamp_float!(ty: f64, wrappers: wc_f64,
    contract_clamped: c17_contract_clamped_f64, contract_is_between: c17_contract_is_between_f64,
    contract_clamped01: c17_contract_clamped01_f64, contract_clamped_minus1_1: c17_contract_clamped_minus1_1_f64,
    laws: c17_clamp_laws_f64, clamped_panics: c17_clamped_f64_panics_when_not_ordered, is_between_panics: c17_is_between_f64_panics_when_not_ordered);

// ---------------------------------------------------------------------------------------------
// f32 Wrap family.  "lies in [0,upper] and is congruent to the input, both up to a few units in the last
// place of the input's magnitude".
//
//   tol32(v, u) = 4 ulp of max(|v|, u)  (+ 4 subnormal ulps)        -- the tolerance used below
//   domain      : |v| <= 1e38, upper <= 1e38 (5e37 for pingpong) and v/upper finite; outside of it
//                 vek's intermediate `floor(v/upper) * upper` overflows and the result is +-inf
//                 (known_failing harnesses below give concrete inputs).
//
// CBMC cannot decide the general claims (symbolic 24-bit significand of `upper` => a symbolic divider and
// multiplier): the harnesses `c17_unregistered_*` at the end of this file ran for > 1500 s without a verdict
// and are NOT registered.  Registered instead are bounded forms that do finish:
//   *_upper_few_bits : upper (and lower) restricted to floats with at most 4 significant bits
//                      (1.xxx * 2^e, which includes every power of two and 1.5, 1.25, 3, 5, 6, 7 ... times one)
//                      with v ranging over the whole domain above;
//   *_bounded1024 / *_bounded65536 : the constant-period functions (wrapped_2pi, delta_angle,
//                      delta_angle_degrees) with |inputs| <= 1024 resp. 65536 and every significand.
// ---------------------------------------------------------------------------------------------
const PI32: f32 = core::f32::consts::PI;
const TAU32: f32 = core::f32::consts::TAU;
/// 4 ulp of max(|v|, u), plus 4 subnormal ulps so that the bound does not vanish by underflow.
fn tol32(v: f32, u: f32) -> f32 { (if v.abs() > u { v.abs() } else { u }) * (1.0 / 2097152.0) + 5.6e-45 }
/// at most 4 significant bits (implicit one + 3 fraction bits)
fn few_bits(u: f32) -> bool { u.to_bits() & 0x000F_FFFF == 0 }

mod wf32 {
    use super::*;
    #[kani::requires(v.abs() <= 1024.0)]
    #[kani::ensures(|r: &f32| -tol32(v, TAU32) <= *r && *r <= TAU32 + tol32(v, TAU32))]
    pub fn wrapped_2pi_1024(v: f32) -> f32 { v.wrapped_2pi() }

    // the angle difference lies in (-pi, pi] EXACTLY on this domain
    #[kani::requires(s.abs() <= 1024.0 && t.abs() <= 1024.0)]
    #[kani::ensures(|r: &f32| -PI32 < *r && *r <= PI32)]
    pub fn delta_angle_1024(s: f32, t: f32) -> f32 { s.delta_angle(t) }

    #[kani::requires(s.abs() <= 1024.0 && t.abs() <= 1024.0)]
    #[kani::ensures(|r: &f32| -180.0 < *r && *r <= 180.0)]
    pub fn delta_angle_degrees_1024(s: f32, t: f32) -> f32 { s.delta_angle_degrees(t) }
}
#[kani::proof_for_contract(wf32::wrapped_2pi_1024)]
fn c17_contract_wrapped_2pi_f32_bounded1024() { wf32::wrapped_2pi_1024(kani::any()); assert!(<f32 as Wrap>::wrap_2pi(1.0) == 1.0f32.wrapped_2pi()); }
#[kani::proof_for_contract(wf32::delta_angle_1024)]
fn c17_contract_delta_angle_f32_bounded1024() { wf32::delta_angle_1024(kani::any(), kani::any()); }
#[kani::proof_for_contract(wf32::delta_angle_degrees_1024)]
fn c17_contract_delta_angle_degrees_f32_bounded1024() { wf32::delta_angle_degrees_1024(kani::any(), kani::any()); }

// ---- exact behaviour on the first period (symbolic upper, every significand) ----
// wrapped is the identity on [0, upper) (exactly); pingpong is v on [0, upper] and 2*upper - v on
// [upper, 2*upper] up to 4 ulp of upper (vek computes upper - |v - upper|, which absorbs a tiny v);
// wrapped_between is the identity on [lower, upper) up to the tolerance, modulo one period at the upper edge.
// These pin down the period, which the range claims alone do not.
#[kani::proof]
fn c17_wrapped_f32_identity_on_first_period() {
    let v: f32 = kani::any(); let u: f32 = kani::any();
    kani::assume(u.is_finite() && 0.0 <= v && v < u);
    assert!(v.wrapped(u) == v);
    assert!(<f32 as Wrap>::wrap(v, u) == v);
}
#[kani::proof]
fn c17_pingpong_f32_triangle_on_first_period() {
    let v: f32 = kani::any(); let u: f32 = kani::any();
    kani::assume(u > 0.0 && (u + u).is_finite() && 0.0 <= v && v <= u + u);
    let r = v.pingpong(u);
    let e = if v <= u { v } else { (u + u) - v };
    assert!((r - e).abs() <= tol32(v, u));
}
#[kani::proof]
fn c17_wrapped_between_f32_identity_on_first_period() {
    let v: f32 = kani::any(); let lo: f32 = kani::any(); let hi: f32 = kani::any();
    kani::assume(hi.is_finite() && 0.0 <= lo && lo <= v && v < hi && few_bits(lo) && few_bits(hi) && hi <= 1024.0 && hi - lo >= 0.0625);
    let r = v.wrapped_between(lo, hi);
    let t = tol32(v, hi);
    assert!((r - v).abs() <= t || (r - v + (hi - lo)).abs() <= t);
}

// ---- larger magnitudes (thorough) ----
#[kani::proof]
fn c17_wrapped_2pi_f32_range_bounded65536() {
    let v: f32 = kani::any();
    kani::assume(v.abs() <= 65536.0);
    let r = v.wrapped_2pi();
    let tol = tol32(v, TAU32);
    assert!(-tol <= r && r <= TAU32 + tol);
}
#[kani::proof]
fn c17_delta_angle_f32_range_bounded65536() {
    let s: f32 = kani::any(); let t: f32 = kani::any();
    kani::assume(s.abs() <= 65536.0 && t.abs() <= 65536.0);
    let r = s.delta_angle(t);
    assert!(-PI32 < r && r <= PI32);
}
#[kani::proof]
fn c17_delta_angle_degrees_f32_range_bounded65536() {
    let s: f32 = kani::any(); let t: f32 = kani::any();
    kani::assume(s.abs() <= 65536.0 && t.abs() <= 65536.0);
    let r = s.delta_angle_degrees(t);
    assert!(-180.0 < r && r <= 180.0);
}
// ---- congruence: (input - result) is an integer multiple of the period up to the tolerance.
// The integer witness k is floor(input/period) (any way of obtaining an integral k is sound); the
// residual is evaluated exactly in f64 (k < 2^24, so k * period is exact there).
#[kani::proof]
fn c17_wrapped_2pi_f32_congruent_bounded1024() {
    let v: f32 = kani::any();
    kani::assume(v.abs() <= 1024.0);
    let r = v.wrapped_2pi();
    let k = (v / TAU32).floor();
    let e = v as f64 - k as f64 * TAU32 as f64 - r as f64;
    assert!(e.abs() <= tol32(v, TAU32) as f64);
}
#[kani::proof]
fn c17_delta_angle_degrees_f32_congruent_bounded65536() {
    let s: f32 = kani::any(); let t: f32 = kani::any();
    kani::assume(s.abs() <= 65536.0 && t.abs() <= 65536.0);
    let r = s.delta_angle_degrees(t);
    let d = t - s;                       // (the rounding of t - s itself is within half an ulp of the inputs)
    let k = (d / 360.0).floor();
    let e = d as f64 - k as f64 * 360.0 - r as f64;
    let tol = tol32(d, 360.0) as f64;
    assert!(e.abs() <= tol || (e - 360.0).abs() <= tol);   // k or k + 1 periods removed
}
// ---- symbolic upper with few significant bits, v over the whole domain (thorough) ----
#[kani::proof]
fn c17_wrapped_f32_range_upper_few_bits() {
    let v: f32 = kani::any(); let u: f32 = kani::any();
    kani::assume(v.abs() <= 1e38 && u <= 1e38 && u > 0.0 && few_bits(u) && (v / u).is_finite());
    let r = v.wrapped(u);
    let tol = tol32(v, u);
    assert!(!r.is_nan());
    assert!(-tol <= r && r <= u + tol);
}
#[kani::proof]
fn c17_unregistered_wrapped_f32_congruent_upper_few_bits() {
    let v: f32 = kani::any(); let u: f32 = kani::any();
    kani::assume(v.abs() <= 1e38 && u <= 1e38 && u > 0.0 && few_bits(u) && (v / u).abs() <= 16777216.0);
    let r = v.wrapped(u);
    let k = (v / u).floor();
    let e = v as f64 - k as f64 * u as f64 - r as f64;
    assert!(e.abs() <= tol32(v, u) as f64);
}
#[kani::proof]
fn c17_pingpong_f32_range_upper_few_bits() {
    let v: f32 = kani::any(); let u: f32 = kani::any();
    kani::assume(v.abs() <= 1e38 && u <= 5e37 && u > 0.0 && few_bits(u) && (v / (u + u)).is_finite());
    let r = v.pingpong(u);
    let tol = tol32(v, u);
    assert!(!r.is_nan());
    assert!(-tol <= r && r <= u);
}
#[kani::proof]
fn c17_unregistered_wrapped_between_f32_range_bounds_few_bits() {
    let v: f32 = kani::any(); let lo: f32 = kani::any(); let hi: f32 = kani::any();
    kani::assume(v.abs() <= 1e37 && 0.0 <= lo && lo < hi && hi <= 1e37 && few_bits(lo) && few_bits(hi) && ((v - lo) / (hi - lo)).is_finite());
    let r = v.wrapped_between(lo, hi);
    let tol = tol32(v, hi);
    assert!(!r.is_nan());
    assert!(lo - tol <= r && r <= hi + tol);
}

// the two `c17_unregistered_*_few_bits` harnesses above did not finish in 1500 s; with smaller magnitudes the
// congruence one does, the wrapped_between one (below, also unregistered) still does not (1200 s):
#[kani::proof]
fn c17_wrapped_f32_congruent_upper_few_bits_bounded1024() {
    let v: f32 = kani::any(); let u: f32 = kani::any();
    kani::assume(v.abs() <= 1024.0 && 0.0625 <= u && u <= 1024.0 && few_bits(u));
    let r = v.wrapped(u);
    let k = (v / u).floor();
    let e = v as f64 - k as f64 * u as f64 - r as f64;
    assert!(e.abs() <= tol32(v, u) as f64);
}
#[kani::proof]
fn c17_unregistered_wrapped_between_f32_range_bounds_few_bits_bounded1024() {
    let v: f32 = kani::any(); let lo: f32 = kani::any(); let hi: f32 = kani::any();
    kani::assume(v.abs() <= 1024.0 && 0.0 <= lo && lo < hi && hi <= 1024.0 && few_bits(lo) && few_bits(hi) && hi - lo >= 0.0625);
    let r = v.wrapped_between(lo, hi);
    let tol = tol32(v, hi);
    assert!(!r.is_nan());
    assert!(lo - tol <= r && r <= hi + tol);
}

/// wrapped_between with constant bounds, every significand of v: range and congruence up to the tolerance
#[kani::proof]
fn c17_wrapped_between_f32_const_bounds_bounded1024() {
    const B: &[(f32, f32)] = &[(2.0, 5.0), (0.0, 1.0), (0.5, 6.25), (3.0, 3.5), (100.0, 360.0)];
    let v: f32 = kani::any();
    let i: usize = kani::any(); kani::assume(i < B.len());
    let (lo, hi) = B[i];
    kani::assume(v.abs() <= 1024.0);
    let r = v.wrapped_between(lo, hi);
    let tol = tol32(v, hi);
    assert!(lo - tol <= r && r <= hi + tol);
    let k = ((v - lo) / (hi - lo)).floor();
    let e = v as f64 - k as f64 * (hi as f64 - lo as f64) - r as f64;
    assert!(e.abs() <= tol as f64);
}

// ---- known_failing: finite inputs outside the domain above / tolerance in ulps of the value only ----
/// finite v, finite upper > 0  =>  finite result.   FAILS: v/upper overflows, e.g. (-0.5).wrapped(1e-45) == +inf
#[kani::proof]
fn c17_wrapped_f32_finite_inputs_finite_result() {
    let v: f32 = kani::any(); let u: f32 = kani::any();
    kani::assume(v.is_finite() && u.is_finite() && u > 0.0);
    let r = v.wrapped(u);
    assert!(r.is_finite());
}
/// quotient finite is not enough either: floor(v/upper) * upper can still overflow at the top of the range.
/// FAILS, e.g. f32::MAX.wrapped(1.999969) == -inf
#[kani::proof]
fn c17_wrapped_f32_range_quotient_finite_only() {
    let v: f32 = kani::any(); let u: f32 = kani::any();
    kani::assume(v.is_finite() && u.is_finite() && u > 0.0 && (v / u).is_finite());
    let r = v.wrapped(u);
    let tol = tol32(v, u);
    assert!(-tol <= r && r <= u + tol);
}
/// same for pingpong.  FAILS, e.g. (-3.190151e38).pingpong(2.658456e37) is not in [0, upper]
#[kani::proof]
fn c17_pingpong_f32_range_quotient_finite_only() {
    let v: f32 = kani::any(); let u: f32 = kani::any();
    kani::assume(v.is_finite() && u.is_finite() && u > 0.0 && (u + u).is_finite() && (v / (u + u)).is_finite());
    let r = v.pingpong(u);
    let tol = tol32(v, u);
    assert!(-tol <= r && r <= u);
}
/// tolerance of 4 ulp OF THE VALUE ONLY (the literal reading of the property).  FAILS when v/upper
/// underflows to -0: (-7.826018e-39).wrapped(4.467457e7) == -7.826018e-39 (negative; ~upper expected).
#[kani::proof]
fn c17_wrapped_f32_range_tolerance_in_ulps_of_value_only() {
    let v: f32 = kani::any(); let u: f32 = kani::any();
    kani::assume(v.abs() <= 1e38 && u <= 1e38 && u > 0.0 && (v / u).is_finite());
    let r = v.wrapped(u);
    let tol = v.abs() * (1.0 / 2097152.0) + 5.6e-45;
    assert!(-tol <= r && r <= u + tol);
}

// ---- documented panics (every input of the assumed domain panics; NaN bounds included) ----
#[kani::proof]
#[kani::should_panic]
fn c17_wrapped_f32_panics_when_upper_not_positive() {
    let v: f32 = kani::any(); let u: f32 = kani::any();
    kani::assume(!(u > 0.0));
    let _ = v.wrapped(u);
    must_be_unreachable();
}
#[kani::proof]
#[kani::should_panic]
fn c17_wrapped_between_f32_panics_when_bounds_bad() {
    let v: f32 = kani::any(); let lo: f32 = kani::any(); let hi: f32 = kani::any();
    kani::assume(!(lo < hi && lo >= 0.0));
    let _ = v.wrapped_between(lo, hi);
    must_be_unreachable();
}
#[kani::proof]
#[kani::should_panic]
fn c17_pingpong_f32_panics_when_upper_not_positive() {
    let v: f32 = kani::any(); let u: f32 = kani::any();
    kani::assume(!(u > 0.0));
    let _ = v.pingpong(u);
    must_be_unreachable();
}

// ---- NOT registered: no verdict within 1500 s (600 s for the last two) ----
#[kani::proof]
fn c17_unregistered_wrapped_f32_range() {
    let v: f32 = kani::any(); let u: f32 = kani::any();
    kani::assume(v.abs() <= 1e38 && u <= 1e38 && u > 0.0 && (v / u).is_finite());
    let r = v.wrapped(u);
    let tol = tol32(v, u);
    assert!(!r.is_nan());
    assert!(-tol <= r && r <= u + tol);
}
#[kani::proof]
fn c17_unregistered_pingpong_f32_range() {
    let v: f32 = kani::any(); let u: f32 = kani::any();
    kani::assume(v.abs() <= 1e38 && u <= 5e37 && u > 0.0 && (v / (u + u)).is_finite());
    let r = v.pingpong(u);
    let tol = tol32(v, u);
    assert!(!r.is_nan());
    assert!(-tol <= r && r <= u);
}
#[kani::proof]
fn c17_unregistered_wrapped_between_f32_range() {
    let v: f32 = kani::any(); let lo: f32 = kani::any(); let hi: f32 = kani::any();
    kani::assume(v.abs() <= 1e37 && 0.0 <= lo && lo < hi && hi <= 1e37 && ((v - lo) / (hi - lo)).is_finite());
    let r = v.wrapped_between(lo, hi);
    let tol = tol32(v, hi);
    assert!(!r.is_nan());
    assert!(lo - tol <= r && r <= hi + tol);
}
#[kani::proof]
fn c17_unregistered_wrapped_2pi_f32_range() {
    let v: f32 = kani::any();
    kani::assume(v.abs() <= 1e38);
    let r = v.wrapped_2pi();
    let tol = tol32(v, TAU32);
    assert!(-tol <= r && r <= TAU32 + tol);
}
#[kani::proof]
fn c17_unregistered_wrapped_f32_range_small_symbolic_upper() {
    let v: f32 = kani::any(); let u: f32 = kani::any();
    kani::assume(v.abs() <= 64.0 && 1.0 <= u && u <= 64.0);
    let r = v.wrapped(u);
    let tol = tol32(v, u);
    assert!(-tol <= r && r <= u + tol);
}
#[kani::proof]
fn c17_unregistered_delta_angle_f32_congruent_bounded1024() {
    let s: f32 = kani::any(); let t: f32 = kani::any();
    kani::assume(s.abs() <= 1024.0 && t.abs() <= 1024.0);
    let r = s.delta_angle(t);
    let d = t - s;
    let k = (d / TAU32).floor();
    let e = d as f64 - k as f64 * TAU32 as f64 - r as f64;
    let tol = tol32(d, TAU32) as f64;
    assert!(e.abs() <= tol || (e - TAU32 as f64).abs() <= tol);
}
