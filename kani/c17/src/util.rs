// ---------------------------------------------------------------------------------------------
// shared helpers
// ---------------------------------------------------------------------------------------------

/// Reached only by executions that did NOT panic. It triggers a failure that is not a panic (null
/// dereference), so a `#[kani::should_panic]` harness that calls it after the operation under test
/// verifies iff the call is unreachable, i.e. iff the operation panics on EVERY input of the assumed
/// domain (Kani cuts a path at its first failed assertion / overflow check).
fn must_be_unreachable() {
    let p: *const u8 = core::ptr::null();
    let _x = unsafe { *p };
}

/// Exact widening of a scalar into a type in which `2*MAX+1`, differences and the period fit, so that
/// the contracts can state range and congruence claims without overflow of their own.
trait ToW: Copy {
    type W;
    /// `Self::MAX` widened.
    const MAXW: Self::W;
    fn w(self) -> Self::W;
}
macro_rules! c17_tow {
    ($($T:ty => $W:ty),+) => {$(
        impl ToW for $T { type W = $W; const MAXW: $W = <$T>::MAX as $W; fn w(self) -> $W { self as $W } }
        impl ToW for Wrapping<$T> { type W = $W; const MAXW: $W = <$T>::MAX as $W; fn w(self) -> $W { self.0 as $W } }
    )+}
}
c17_tow!(u8 => i32, i8 => i32, u16 => i32, i16 => i32, u32 => i64, i32 => i64,
         u64 => i128, i64 => i128, usize => i128, isize => i128);
