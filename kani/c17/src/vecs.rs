// ---------------------------------------------------------------------------------------------
// Vector lifts (src/vec.rs 1361-1405): Clamp / IsBetween / Wrap on VecN<T> apply the scalar
// operation per element, both with vector bounds and with (broadcast) scalar bounds, and the
// documented panics occur as soon as ONE lane has bad bounds.
// The scalar operations themselves are covered by the scalar contracts; here element i of the
// vector result is compared with the scalar operation applied to element i.
// ---------------------------------------------------------------------------------------------
use vek::vec::repr_c::{Vec2, Vec3, Vec4, Vec8, Rgba, Extent2};

/// Recording lane type for the routing harnesses: every operation returns a value that encodes which
/// operation was applied to which operands (injective in (op, self, first bound, second bound)).
#[derive(Clone, Copy, PartialEq, Eq)]
struct Rec { op: u8, a: u8, b: u8, c: u8 }
impl Rec {
    fn any() -> Self { Rec { op: 0, a: kani::any(), b: 0, c: 0 } }
    fn rec(op: u8, s: Rec, x: Rec, y: Rec) -> Rec { Rec { op, a: s.a, b: x.a, c: y.a } }
    fn between(s: Rec, x: Rec, y: Rec) -> bool { (s.a ^ x.a.rotate_left(3) ^ y.a.rotate_left(5)) & 1 == 1 }
}
impl Wrap for Rec {
    fn wrapped(self, upper: Self) -> Self { Rec::rec(1, self, upper, upper) }
    fn wrapped_between(self, lower: Self, upper: Self) -> Self { Rec::rec(2, self, lower, upper) }
    fn pingpong(self, upper: Self) -> Self { Rec::rec(3, self, upper, upper) }
}
impl Clamp for Rec {
    fn clamped(self, lower: Self, upper: Self) -> Self { Rec::rec(4, self, lower, upper) }
}
impl IsBetween for Rec {
    type Output = bool;
    fn is_between(self, lower: Self, upper: Self) -> bool { Rec::between(self, lower, upper) }
}

macro_rules! c17_vec_lift {
    (vec: $V:ident, fields: ($($f:tt)+), new: ($($a:ident)+),
     clamp_i8: $h_ci8:ident, clamp_u8: $h_cu8:ident, wrap_u8: $h_wu8:ident, wrap_i8_safe: $h_wi8:ident, routing: $h_route:ident,
     clamp_panics: $h_cp:ident, is_between_panics: $h_bp:ident, wrap_panics: $h_wp:ident,
     wrap_between_panics: $h_wbp:ident, pingpong_panics: $h_ppp:ident) => {
        #[kani::proof]
        fn $h_ci8() {
            let v: $V<i8> = $V::new($({ let $a: i8 = kani::any(); $a }),+);
            let lo: $V<i8> = $V::new($({ let $a: i8 = kani::any(); $a }),+);
            let hi: $V<i8> = $V::new($({ let $a: i8 = kani::any(); $a }),+);
            kani::assume(true $(&& lo.$f <= hi.$f)+);
            let c = v.clamped(lo, hi);
            $( assert!(c.$f == v.$f.clamped(lo.$f, hi.$f)); )+
            let b: $V<bool> = v.is_between(lo, hi);
            $( assert!(b.$f == v.$f.is_between(lo.$f, hi.$f)); )+
            // scalar bounds are broadcast
            let (slo, shi): (i8, i8) = (kani::any(), kani::any());
            kani::assume(slo <= shi);
            let c = v.clamped(slo, shi);
            $( assert!(c.$f == v.$f.clamped(slo, shi)); )+
            let b: $V<bool> = v.is_between(slo, shi);
            $( assert!(b.$f == v.$f.is_between(slo, shi)); )+
        }
        #[kani::proof]
        fn $h_cu8() {
            let v: $V<u8> = $V::new($({ let $a: u8 = kani::any(); $a }),+);
            let lo: $V<u8> = $V::new($({ let $a: u8 = kani::any(); $a }),+);
            let hi: $V<u8> = $V::new($({ let $a: u8 = kani::any(); $a }),+);
            kani::assume(true $(&& lo.$f <= hi.$f)+);
            let c = v.clamped(lo, hi);
            $( assert!(c.$f == if v.$f < lo.$f { lo.$f } else if v.$f > hi.$f { hi.$f } else { v.$f }); )+
            let b: $V<bool> = v.is_between(lo, hi);
            $( assert!(b.$f == (lo.$f <= v.$f && v.$f <= hi.$f)); )+
            let (slo, shi): (u8, u8) = (kani::any(), kani::any());
            kani::assume(slo <= shi);
            let c = v.clamped(slo, shi);
            $( assert!(c.$f == if v.$f < slo { slo } else if v.$f > shi { shi } else { v.$f }); )+
            let b: $V<bool> = v.is_between(slo, shi);
            $( assert!(b.$f == (slo <= v.$f && v.$f <= shi)); )+
        }
        /// real u8 lanes against the scalar LAW (range + congruence / triangle wave), vector bounds.
        /// (Comparing with a second call of the scalar vek function would force the SAT solver to prove
        /// two independent divider circuits equivalent, which is much slower than checking the law.)
        #[kani::proof]
        fn $h_wu8() {
            let v: $V<u8> = $V::new($({ let $a: u8 = kani::any(); $a }),+);
            let lo: $V<u8> = $V::new($({ let $a: u8 = kani::any(); $a }),+);
            let hi: $V<u8> = $V::new($({ let $a: u8 = kani::any(); $a }),+);
            kani::assume(true $(&& lo.$f < hi.$f)+);
            let w = v.wrapped(hi);
            $( assert!(w.$f < hi.$f && (v.$f.w() - w.$f.w()) % hi.$f.w() == 0); )+
            let w = v.wrapped_between(lo, hi);
            $( assert!(lo.$f <= w.$f && w.$f < hi.$f && (v.$f.w() - w.$f.w()) % (hi.$f.w() - lo.$f.w()) == 0); )+
            // pingpong: period 2*upper must be representable
            kani::assume(true $(&& hi.$f <= 127)+);
            let w = v.pingpong(hi);
            $( { let m = v.$f.w() % (2 * hi.$f.w()); assert!(w.$f.w() == if m <= hi.$f.w() { m } else { 2 * hi.$f.w() - m }); } )+
        }
        /// real i8 lanes inside the scalar safe region (v >= -64, upper <= 63, for pingpong upper <= 31)
        #[kani::proof]
        fn $h_wi8() {
            let v: $V<i8> = $V::new($({ let $a: i8 = kani::any(); $a }),+);
            let lo: $V<i8> = $V::new($({ let $a: i8 = kani::any(); $a }),+);
            let hi: $V<i8> = $V::new($({ let $a: i8 = kani::any(); $a }),+);
            kani::assume(true $(&& 0 <= lo.$f && lo.$f < hi.$f && hi.$f <= 63 && v.$f >= -64)+);
            let w = v.wrapped(hi);
            $( assert!(0 <= w.$f && w.$f < hi.$f && (v.$f.w() - w.$f.w()) % hi.$f.w() == 0); )+
            let w = v.wrapped_between(lo, hi);
            $( assert!(lo.$f <= w.$f && w.$f < hi.$f && (v.$f.w() - w.$f.w()) % (hi.$f.w() - lo.$f.w()) == 0); )+
            kani::assume(true $(&& hi.$f <= 31)+);
            let w = v.pingpong(hi);
            $( { let m = v.$f.w().rem_euclid(2 * hi.$f.w()); assert!(w.$f.w() == if m <= hi.$f.w() { m } else { 2 * hi.$f.w() - m }); } )+
        }
        /// Lane routing for ANY lane type: the lifts are generic in T, so instantiating T with a lane type
        /// whose operations merely RECORD (operation, self, bounds) proves, by parametricity, that lane i of
        /// the result is exactly `op(self_i, bounds_i)` for vector bounds and `op(self_i, bound)` for
        /// broadcast scalar bounds -- for wrapped, wrapped_between, pingpong and clamped.
        #[kani::proof]
        fn $h_route() {
            let v: $V<Rec> = $V::new($({ let $a = Rec::any(); $a }),+);
            let lo: $V<Rec> = $V::new($({ let $a = Rec::any(); $a }),+);
            let hi: $V<Rec> = $V::new($({ let $a = Rec::any(); $a }),+);
            let (slo, shi) = (Rec::any(), Rec::any());
            let w = v.wrapped(hi);
            $( assert!(w.$f == Rec::rec(1, v.$f, hi.$f, hi.$f)); )+
            let w = v.wrapped(shi);
            $( assert!(w.$f == Rec::rec(1, v.$f, shi, shi)); )+
            let w = v.wrapped_between(lo, hi);
            $( assert!(w.$f == Rec::rec(2, v.$f, lo.$f, hi.$f)); )+
            let w = v.wrapped_between(slo, shi);
            $( assert!(w.$f == Rec::rec(2, v.$f, slo, shi)); )+
            let w = v.pingpong(hi);
            $( assert!(w.$f == Rec::rec(3, v.$f, hi.$f, hi.$f)); )+
            let w = v.pingpong(shi);
            $( assert!(w.$f == Rec::rec(3, v.$f, shi, shi)); )+
            let w = v.clamped(lo, hi);
            $( assert!(w.$f == Rec::rec(4, v.$f, lo.$f, hi.$f)); )+
            let w = v.clamped(slo, shi);
            $( assert!(w.$f == Rec::rec(4, v.$f, slo, shi)); )+
            let b: $V<bool> = v.is_between(lo, hi);
            $( assert!(b.$f == Rec::between(v.$f, lo.$f, hi.$f)); )+
            let b: $V<bool> = v.is_between(slo, shi);
            $( assert!(b.$f == Rec::between(v.$f, slo, shi)); )+
        }
        /// one inverted lane is enough to panic (every such input panics)
        #[kani::proof]
        #[kani::should_panic]
        fn $h_cp() {
            let v: $V<u8> = $V::new($({ let $a: u8 = kani::any(); $a }),+);
            let lo: $V<u8> = $V::new($({ let $a: u8 = kani::any(); $a }),+);
            let hi: $V<u8> = $V::new($({ let $a: u8 = kani::any(); $a }),+);
            kani::assume(false $(|| lo.$f > hi.$f)+);
            let _ = v.clamped(lo, hi);
            must_be_unreachable();
        }
        #[kani::proof]
        #[kani::should_panic]
        fn $h_bp() {
            let v: $V<i8> = $V::new($({ let $a: i8 = kani::any(); $a }),+);
            let lo: $V<i8> = $V::new($({ let $a: i8 = kani::any(); $a }),+);
            let hi: $V<i8> = $V::new($({ let $a: i8 = kani::any(); $a }),+);
            kani::assume(false $(|| lo.$f > hi.$f)+);
            let _ = v.is_between(lo, hi);
            must_be_unreachable();
        }
        /// one lane with upper == 0 is enough to panic
        #[kani::proof]
        #[kani::should_panic]
        fn $h_wp() {
            let v: $V<u8> = $V::new($({ let $a: u8 = kani::any(); $a }),+);
            let hi: $V<u8> = $V::new($({ let $a: u8 = kani::any(); $a }),+);
            kani::assume(false $(|| hi.$f == 0)+);
            let _ = v.wrapped(hi);
            must_be_unreachable();
        }
        /// one lane with lower >= upper is enough to panic
        #[kani::proof]
        #[kani::should_panic]
        fn $h_wbp() {
            let v: $V<u8> = $V::new($({ let $a: u8 = kani::any(); $a }),+);
            let lo: $V<u8> = $V::new($({ let $a: u8 = kani::any(); $a }),+);
            let hi: $V<u8> = $V::new($({ let $a: u8 = kani::any(); $a }),+);
            kani::assume(false $(|| lo.$f >= hi.$f)+);
            let _ = v.wrapped_between(lo, hi);
            must_be_unreachable();
        }
        /// signed lanes: one lane with upper <= 0 is enough to panic
        #[kani::proof]
        #[kani::should_panic]
        fn $h_ppp() {
            let v: $V<i8> = $V::new($({ let $a: i8 = kani::any(); $a }),+);
            let hi: $V<i8> = $V::new($({ let $a: i8 = kani::any(); $a }),+);
            kani::assume(false $(|| hi.$f <= 0)+);
            let _ = v.pingpong(hi);
            must_be_unreachable();
        }
    }
}

c17_vec_lift!(vec: Vec2, fields: (x y), new: (a b),
    clamp_i8: c17_vec2_clamp_is_between_i8, clamp_u8: c17_vec2_clamp_is_between_u8, wrap_u8: c17_vec2_wrap_u8, wrap_i8_safe: c17_vec2_wrap_i8_safe_region, routing: c17_vec2_lane_routing_any_scalar,
    clamp_panics: c17_vec2_clamped_panics_when_any_lane_inverted, is_between_panics: c17_vec2_is_between_panics_when_any_lane_inverted,
    wrap_panics: c17_vec2_wrapped_panics_when_any_upper_zero, wrap_between_panics: c17_vec2_wrapped_between_panics_when_any_lane_bad,
    pingpong_panics: c17_vec2_pingpong_panics_when_any_upper_not_positive);
c17_vec_lift!(vec: Vec3, fields: (x y z), new: (a b c),
    clamp_i8: c17_vec3_clamp_is_between_i8, clamp_u8: c17_vec3_clamp_is_between_u8, wrap_u8: c17_vec3_wrap_u8, wrap_i8_safe: c17_vec3_wrap_i8_safe_region, routing: c17_vec3_lane_routing_any_scalar,
    clamp_panics: c17_vec3_clamped_panics_when_any_lane_inverted, is_between_panics: c17_vec3_is_between_panics_when_any_lane_inverted,
    wrap_panics: c17_vec3_wrapped_panics_when_any_upper_zero, wrap_between_panics: c17_vec3_wrapped_between_panics_when_any_lane_bad,
    pingpong_panics: c17_vec3_pingpong_panics_when_any_upper_not_positive);
c17_vec_lift!(vec: Vec4, fields: (x y z w), new: (a b c d),
    clamp_i8: c17_vec4_clamp_is_between_i8, clamp_u8: c17_vec4_clamp_is_between_u8, wrap_u8: c17_vec4_wrap_u8, wrap_i8_safe: c17_vec4_wrap_i8_safe_region, routing: c17_vec4_lane_routing_any_scalar,
    clamp_panics: c17_vec4_clamped_panics_when_any_lane_inverted, is_between_panics: c17_vec4_is_between_panics_when_any_lane_inverted,
    wrap_panics: c17_vec4_wrapped_panics_when_any_upper_zero, wrap_between_panics: c17_vec4_wrapped_between_panics_when_any_lane_bad,
    pingpong_panics: c17_vec4_pingpong_panics_when_any_upper_not_positive);
c17_vec_lift!(vec: Vec8, fields: (0 1 2 3 4 5 6 7), new: (a b c d e f g h),
    clamp_i8: c17_vec8_clamp_is_between_i8, clamp_u8: c17_vec8_clamp_is_between_u8, wrap_u8: c17_vec8_wrap_u8, wrap_i8_safe: c17_vec8_wrap_i8_safe_region, routing: c17_vec8_lane_routing_any_scalar,
    clamp_panics: c17_vec8_clamped_panics_when_any_lane_inverted, is_between_panics: c17_vec8_is_between_panics_when_any_lane_inverted,
    wrap_panics: c17_vec8_wrapped_panics_when_any_upper_zero, wrap_between_panics: c17_vec8_wrapped_between_panics_when_any_lane_bad,
    pingpong_panics: c17_vec8_pingpong_panics_when_any_upper_not_positive);
c17_vec_lift!(vec: Rgba, fields: (r g b a), new: (a b c d),
    clamp_i8: c17_rgba_clamp_is_between_i8, clamp_u8: c17_rgba_clamp_is_between_u8, wrap_u8: c17_rgba_wrap_u8, wrap_i8_safe: c17_rgba_wrap_i8_safe_region, routing: c17_rgba_lane_routing_any_scalar,
    clamp_panics: c17_rgba_clamped_panics_when_any_lane_inverted, is_between_panics: c17_rgba_is_between_panics_when_any_lane_inverted,
    wrap_panics: c17_rgba_wrapped_panics_when_any_upper_zero, wrap_between_panics: c17_rgba_wrapped_between_panics_when_any_lane_bad,
    pingpong_panics: c17_rgba_pingpong_panics_when_any_upper_not_positive);
c17_vec_lift!(vec: Extent2, fields: (w h), new: (a b),
    clamp_i8: c17_extent2_clamp_is_between_i8, clamp_u8: c17_extent2_clamp_is_between_u8, wrap_u8: c17_extent2_wrap_u8, wrap_i8_safe: c17_extent2_wrap_i8_safe_region, routing: c17_extent2_lane_routing_any_scalar,
    clamp_panics: c17_extent2_clamped_panics_when_any_lane_inverted, is_between_panics: c17_extent2_is_between_panics_when_any_lane_inverted,
    wrap_panics: c17_extent2_wrapped_panics_when_any_upper_zero, wrap_between_panics: c17_extent2_wrapped_between_panics_when_any_lane_bad,
    pingpong_panics: c17_extent2_pingpong_panics_when_any_upper_not_positive);

// One contract-carrying vector wrapper (Vec3<f32> with vector bounds): lane-wise clamp law.
#[kani::requires(lo.x <= hi.x && lo.y <= hi.y && lo.z <= hi.z)]
#[kani::ensures(|r: &Vec3<f32>| lo.x <= r.x && r.x <= hi.x && lo.y <= r.y && r.y <= hi.y && lo.z <= r.z && r.z <= hi.z)]
#[kani::ensures(|r: &Vec3<f32>| v.x.is_nan() || r.x == if v.x < lo.x { lo.x } else if v.x > hi.x { hi.x } else { v.x })]
#[kani::ensures(|r: &Vec3<f32>| v.y.is_nan() || r.y == if v.y < lo.y { lo.y } else if v.y > hi.y { hi.y } else { v.y })]
#[kani::ensures(|r: &Vec3<f32>| v.z.is_nan() || r.z == if v.z < lo.z { lo.z } else if v.z > hi.z { hi.z } else { v.z })]
fn clamped_vec3_f32(v: Vec3<f32>, lo: Vec3<f32>, hi: Vec3<f32>) -> Vec3<f32> { v.clamped(lo, hi) }
#[kani::proof_for_contract(clamped_vec3_f32)]
fn c17_contract_clamped_vec3_f32() {
    clamped_vec3_f32(Vec3::new(kani::any(), kani::any(), kani::any()), Vec3::new(kani::any(), kani::any(), kani::any()),
                     Vec3::new(kani::any(), kani::any(), kani::any()));
}
