// ---------------------------------------------------------------------------------------------
// Vacuity guards: registered with should_fail = true.  Each one assumes a precondition family used by
// the contracts above, CALLS the operation, and then asserts false; the expected failure shows that the
// precondition is satisfiable and that the call returns (so the postconditions are really checked).
// ---------------------------------------------------------------------------------------------
#[kani::proof]
fn c17_vacuity_clamp_ordered_bounds() {
    let v: i8 = kani::any(); let lo: i8 = kani::any(); let hi: i8 = kani::any();
    kani::assume(lo <= hi);
    let _ = v.clamped(lo, hi);
    assert!(false);
}
#[kani::proof]
fn c17_vacuity_clamp_f32_ordered_bounds() {
    let v: f32 = kani::any(); let lo: f32 = kani::any(); let hi: f32 = kani::any();
    kani::assume(lo <= hi && v.is_nan());
    let _ = v.clamped(lo, hi);
    assert!(false);
}
#[kani::proof]
fn c17_vacuity_wrap_unsigned_bounds() {
    let v: u8 = kani::any(); let lo: u8 = kani::any(); let hi: u8 = kani::any();
    kani::assume(0 <= lo.w() && lo.w() < hi.w() && v < lo);
    let _ = v.wrapped_between(lo, hi);
    assert!(false);
}
#[kani::proof]
fn c17_vacuity_wrap_signed_safe_region() {
    let v: i8 = kani::any(); let lo: i8 = kani::any(); let hi: i8 = kani::any();
    // the interesting half of the region: v below lower, so vek's correction branch runs
    kani::assume(0 <= lo.w() && lo.w() < hi.w() && c17_sint_safe!(v.w(), lo.w(), hi.w(), 127) && v < lo);
    let _ = v.wrapped_between(lo, hi);
    assert!(false);
}
#[kani::proof]
fn c17_vacuity_pingpong_signed_safe_region() {
    let v: i8 = kani::any(); let u: i8 = kani::any();
    kani::assume(u.w() > 0 && 2 * u.w() <= 127 && c17_sint_safe!(v.w(), 0, 2 * u.w(), 127) && v < 0);
    let _ = v.pingpong(u);
    assert!(false);
}
#[kani::proof]
fn c17_vacuity_wrapping_signed_safe_region() {
    let v = Wrapping(kani::any::<i8>()); let lo = Wrapping(kani::any::<i8>()); let hi = Wrapping(kani::any::<i8>());
    kani::assume(0 <= lo.w() && lo.w() < hi.w() && c17_wsint_safe!(v.w(), lo.w(), hi.w(), 127) && v < lo);
    let _ = v.wrapped_between(lo, hi);
    assert!(false);
}
#[kani::proof]
fn c17_vacuity_const_period_safe_region_i32() {
    let v: i32 = kani::any();
    kani::assume(c17_sint_safe!(v.w(), (i32::MAX - 3).w(), i32::MAX.w(), i32::MAX as i64) && v < 0);
    let _ = v.wrapped_between(i32::MAX - 3, i32::MAX);
    assert!(false);
}
#[kani::proof]
fn c17_vacuity_vector_bounds() {
    let v: Vec4<u8> = Vec4::new(kani::any(), kani::any(), kani::any(), kani::any());
    let lo: Vec4<u8> = Vec4::new(kani::any(), kani::any(), kani::any(), kani::any());
    let hi: Vec4<u8> = Vec4::new(kani::any(), kani::any(), kani::any(), kani::any());
    kani::assume(lo.x < hi.x && lo.y < hi.y && lo.z < hi.z && lo.w < hi.w);
    let _ = v.clamped(lo, hi);
    let _ = v.wrapped_between(lo, hi);
    assert!(false);
}
#[kani::proof]
fn c17_vacuity_f32_wrap_domain() {
    let v: f32 = kani::any(); let u: f32 = kani::any();
    kani::assume(v.abs() <= 1e38 && u <= 1e38 && u > 0.0 && few_bits(u) && (v / u).is_finite() && v < -u);
    let _ = v.wrapped(u);
    assert!(false);
}
