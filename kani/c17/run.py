#!/usr/bin/env python3
"""Run C17 harnesses and print one line per harness (status, seconds, failed checks).

usage: run.py [--tier quick|thorough|all] [--timeout S] [--update] [-j N] [name-regex ...]
  no regex  : every harness registered in harnesses.json for the tier
  regex     : every registered harness whose name matches one of them (any tier)
  --raw RE  : harness names taken from the sources instead of harnesses.json (for development)
  --update  : write measured_s back into harnesses.json
Results are attributed per Kani worker thread ("Thread N:" prefixes), which is robust under -j.
"""
import json, os, re, subprocess, sys, time, glob

HERE = os.path.dirname(os.path.abspath(__file__))
ENV = dict(os.environ, CARGO_NET_OFFLINE='true',
           CARGO_TARGET_DIR=os.environ.get('VEKVERIF_KANI_TARGET', '/tmp/vekverif/kani_target_c17'))


def parse(out):
    cur, res, pending = {}, {}, None
    for line in out.splitlines():
        m = re.match(r'Thread (\d+): Checking harness (\S+?)\.\.\.', line)
        if m:
            cur[m.group(1)] = m.group(2).split('::')[-1]
            continue
        m = re.match(r'Thread (\d+):\s*$', line)
        if m:
            pending = cur.get(m.group(1))
            res.setdefault(pending, dict(status=None, failed=[], time=None))
            continue
        if pending is None:
            m = re.match(r'Checking harness (\S+?)\.\.\.', line)   # -j 1 format
            if m:
                pending = m.group(1).split('::')[-1]
                res.setdefault(pending, dict(status=None, failed=[], time=None))
            continue
        r = res[pending]
        if line.startswith('Failed Checks:'):
            r['failed'].append(line[len('Failed Checks: '):])
        elif line.startswith(' File:') and r['failed']:
            r['failed'][-1] += ' @' + line.strip()[6:]
        elif 'VERIFICATION:- SUCCESSFUL' in line:
            r['status'] = 'ok'
        elif 'VERIFICATION:- FAILED' in line:
            r['status'] = 'FAILED'
        elif 'timed out' in line:
            r['status'] = 'timeout'
        m = re.match(r'Verification Time: ([\d.]+)s', line)
        if m:
            r['time'] = float(m.group(1))
    return res


def main():
    a = sys.argv[1:]
    if a and a[0] == '--parse':
        for k, r in parse(open(a[1]).read()).items():
            print('%-62s %-8s %8s' % (k, r['status'], r['time']))
        return
    tier, tmo, update, jobs, raw, pats = 'quick', None, False, '8', False, []
    while a:
        x = a.pop(0)
        if x == '--tier': tier = a.pop(0)
        elif x == '--timeout': tmo = int(a.pop(0))
        elif x == '--update': update = True
        elif x == '-j': jobs = a.pop(0)
        elif x == '--raw': raw = True
        else: pats.append(x)
    jpath = os.path.join(HERE, 'harnesses.json')
    specs = json.load(open(jpath))
    if raw:
        names = set()
        for f in glob.glob(os.path.join(HERE, 'src', '*.rs')):
            txt = open(f).read()
            names |= set(re.findall(r'\bc17_\w+', txt))
            macros = set(re.findall(r'macro_rules!\s+(\w+)', txt)) | set(re.findall(r'\b(c17_\w+)!', txt))
            names -= macros
            names = {n for n in names if not n.endswith('_')}
        sel = [dict(harness=n) for n in sorted(names) if any(re.search(p, n) for p in pats)]
    elif pats:
        sel = [s for s in specs if any(re.search(p, s['harness']) for p in pats)]
    else:
        sel = [s for s in specs if tier == 'all' or s['tier'] == tier or (tier == 'thorough')]
    if not sel:
        print('nothing selected'); return
    t = tmo or max(s.get('timeout', 300) for s in sel)
    lock = os.path.join(HERE, 'Cargo.lock')
    if not os.path.exists(lock) and os.path.exists('/repo/Cargo.lock'):
        import shutil; shutil.copy('/repo/Cargo.lock', lock)
    cmd = ['cargo', 'kani', '-Z', 'function-contracts', '-Z', 'stubbing', '-Z', 'unstable-options',
           '--harness-timeout', '%ds' % t, '-j', jobs, '--output-format', 'terse', '--exact']
    for s in sel:
        cmd += ['--harness', 'h::' + s['harness']]
    t0 = time.time()
    log = os.environ.get('C17_LOG', '/tmp/c17_last_run_%d.log' % os.getpid())
    with open(log, 'w') as f:          # streamed, so that partial results survive an interrupted run
        subprocess.run(cmd, cwd=HERE, env=ENV, stdout=f, stderr=subprocess.STDOUT, text=True)
    wall = time.time() - t0
    out = open(log).read()
    res = parse(out)
    if not res:
        print(out[-6000:])
    bad = 0
    for s in sel:
        r = res.get(s['harness'], dict(status='NOT-RUN', failed=[], time=None))
        if r['status'] is None: r['status'] = 'timeout?'
        exp_fail = bool(s.get('should_fail') or s.get('known_failing'))
        verdict = ''
        if 'tier' in s:
            good = (r['status'] == 'FAILED') if exp_fail else (r['status'] == 'ok')
            verdict = 'as-expected' if good else 'UNEXPECTED'
            bad += (not good)
        print('%-62s %-8s %8s  %s' % (s['harness'], r['status'], '%.1f' % r['time'] if r['time'] is not None else '-', verdict))
        for f in r['failed'][:6]:
            print('        - ' + f)
        if update and r['time'] is not None:
            s['measured_s'] = round(r['time'], 1)
    print('wall %.1fs, %d harnesses, %d unexpected' % (wall, len(sel), bad))
    if update:
        json.dump(specs, open(jpath, 'w'), indent=1)
        open(jpath, 'a').write('\n')


main()
