#!/usr/bin/env python3
"""Regenerate harnesses.json from the harness names found in src/*.rs and the rules below.
Keeps measured_s of an existing harnesses.json.  Every name must be matched by exactly one rule
(names starting with c17_unregistered_ are deliberately left out: no verdict within their timeout)."""
import glob, json, os, re, sys

HERE = os.path.dirname(os.path.abspath(__file__))
TYN = {'u8': 'u8', 'i8': 'i8', 'wu8': 'Wrapping<u8>', 'wi8': 'Wrapping<i8>', 'u16': 'u16', 'i16': 'i16', 'u32': 'u32',
       'i32': 'i32', 'u64': 'u64', 'i64': 'i64', 'usize': 'usize', 'isize': 'isize', 'f32': 'f32', 'f64': 'f64'}
T = r'(?P<t>u8|i8|wu8|wi8|u16|i16|u32|i32|u64|i64|usize|isize|f32|f64)'
V = r'(?P<v>vec2|vec3|vec4|vec8|rgba|extent2)'
SMALL8 = ('u8', 'i8', 'wu8', 'wi8')
SIGNED = ('i8', 'i16', 'i32', 'i64', 'isize', 'wi8')
L645 = 'src/ops.rs:645 (`self += range_size * ((lower-self)/range_size + Self::one())` in wrap_impl_sint::wrapped_between; Kani reports the overflow checks at this line)'
SAFE = 'v >= lo or ((lo-v)/(hi-lo)+1)*(hi-lo) <= MAX (exact no-overflow region; for wrapped lo=0,hi=upper; for pingpong lo=0,hi=2*upper)'


def sint_fail(op, t):
    tn = TYN[t]
    if t == 'wi8':
        ex = {'wrapped': 'Wrapping(-128i8).wrapped(Wrapping(3)) == 2 (1 expected); Wrapping(-128i8).wrapped(Wrapping(100)) == -28 (outside [0,100))',
              'wrapped_between': 'Wrapping(-128i8).wrapped_between(Wrapping(0), Wrapping(100)) == -28 (outside [0,100))',
              'pingpong': 'Wrapping(-128i8).pingpong(Wrapping(33)) == -62 (4 expected)'}[op]
        return 'silently wrong value, no panic: %s; `lower-self` wraps in %s' % (ex, L645)
    mn = '%s::MIN + 1' % tn if t != 'i8' else '-127i8'
    ex = {'wrapped': '(%s).wrapped(1) panics "attempt to add with overflow"' % mn,
          'wrapped_between': '(%s).wrapped_between(0, 1) panics "attempt to add with overflow"' % mn,
          'pingpong': '(%s).pingpong(1) panics "attempt to multiply with overflow"' % mn}[op]
    if t == 'i8':
        ex += '; also (-100i8).wrapped(100) (multiply), i8::MIN.wrapped(1) (subtract)'
    return 'intermediate overflow although the result is representable: %s; %s' % (ex, L645)


def tier_int(t):
    return 'quick' if t in SMALL8 else 'thorough'


RULES = []


def rule(pat):
    def deco(f):
        RULES.append((re.compile('^c17_' + pat + '$'), f))
        return f
    return deco


def E(tier, timeout, clause, domain, bounded=None, known_failing=None, should_fail=False):
    return dict(tier=tier, timeout=timeout, should_fail=should_fail, clause=clause, domain=domain, bounded=bounded,
                known_failing=known_failing)


# ---------------- clamp / is_between, scalars ----------------
@rule('contract_clamped_' + T)
def _(m):
    t = m['t']
    if t in ('f32', 'f64'):
        return E('quick', 60, 'clamp: result within bounds for EVERY value (NaN too); value itself when in range, nearer bound otherwise (non-NaN value)',
                 'all (v,lo,hi) in %s^3 with lo<=hi (hence no NaN bound); v may be NaN/inf' % TYN[t])
    return E('quick', 60, 'clamp: value itself when within bounds, nearer bound otherwise; result within bounds (function contract)',
             'all (v,lo,hi) in %s^3 with lo<=hi' % TYN[t])


@rule('contract_is_between_' + T)
def _(m):
    return E('quick', 60, 'range test is membership in the inclusive interval (function contract)', 'all (v,lo,hi) in %s^3 with lo<=hi' % TYN[m['t']])


@rule('contract_clamped01_' + T)
def _(m):
    return E('quick', 60, 'clamped01 is the clamp to [0,1] and never panics (function contract)', 'all v in %s' % TYN[m['t']])


@rule('contract_clamped_minus1_1_' + T)
def _(m):
    return E('quick', 60, 'clamped_minus1_1 is the clamp to [-1,1] and never panics (function contract)', 'all v in %s' % TYN[m['t']])


@rule('clamp_laws_' + T)
def _(m):
    return E('quick', 60, 'clamp idempotent; clamp result passes is_between; is_between(v) <=> clamped(v)==v; aliases clamp/clamped_to_inclusive_range/clamp_to_inclusive_range/is_between_inclusive_range_bounds/clamp01/is_between01 agree',
             'all (v,lo,hi) in %s^3 with lo<=hi' % TYN[m['t']])


@rule('(?P<op>clamped|is_between)_' + T + '_panics_when_(inverted|not_ordered)')
def _(m):
    f = m['t'] in ('f32', 'f64')
    return E('quick', 60, '%s panics exactly when bounds are not ordered: EVERY such input panics (other half = the contract with requires lo<=hi)' % m['op'],
             'all (v,lo,hi) in %s^3 with %s' % (TYN[m['t']], 'not (lo<=hi), i.e. lo>hi or a NaN bound' if f else 'lo>hi'))


# ---------------- wrap, integers ----------------
def wrap_clause(op):
    return {'wrapped': 'wrapped(v,upper) is the unique value in [0,upper) congruent to v mod upper (range + congruence in a wider type)',
            'wrapped_between': 'wrapped_between(v,lower,upper) is the unique value in [lower,upper) congruent to v mod (upper-lower)',
            'pingpong': 'pingpong(v,upper) is the triangle wave of period 2*upper with values in [0,upper]'}[op]


def wrap_dom(op, t, extra=''):
    tn = TYN[t]
    d = {'wrapped': 'all (v,upper) in %s^2 with upper>0' % tn,
         'wrapped_between': 'all (v,lower,upper) in %s^3 with 0<=lower<upper' % tn,
         'pingpong': 'all (v,upper) in %s^2 with upper>0 and 2*upper<=MAX (period representable)' % tn}[op]
    return d + extra


@rule('contract_(?P<op>wrapped|wrapped_between|pingpong)_' + T)
def _(m):
    t, op = m['t'], m['op']
    if t == 'i8':
        return E('quick', 300, wrap_clause(op) + ' (function contract, full domain)', wrap_dom(op, t), known_failing=sint_fail(op, t))
    if t in SIGNED:
        return None   # i16..isize: fails as expected, but only after 650-1400 s (i16); replaced by *_full_domain_const_bounds
    if t == 'u8':
        return E('quick', 120, wrap_clause(op) + ' (function contract, full domain)', wrap_dom(op, t))
    if t == 'u16' and op == 'wrapped':
        return E('thorough', 900, wrap_clause(op) + ' (function contract, full domain)', wrap_dom(op, t))
    return None   # wider unsigned full-domain contracts: no verdict within 200..2400 s -> not registered


@rule('(?P<op>wrapped|wrapped_between|pingpong)_' + T + '_full_domain_const_bounds')
def _(m):
    t, op = m['t'], m['op']
    l = {'wrapped': 'upper in {1,2}', 'wrapped_between': '(lower,upper) in {(0,1),(MAX-3,MAX)}', 'pingpong': 'upper in {1,3}'}[op]
    return E('quick', 300, wrap_clause(op) + ' with no intermediate overflow, for EVERY v of the type (no safe-region restriction)',
             'all v in %s; %s' % (TYN[t], l), bounded='bounds restricted to the listed constants (v unrestricted)', known_failing=sint_fail(op, t))


@rule('contract_(?P<op>wrapped|wrapped_between|pingpong)_' + T + '_safe_region')
def _(m):
    t, op = m['t'], m['op']
    if t == 'i8':
        return E('quick', 120, wrap_clause(op) + ' (function contract, exact no-overflow region)', wrap_dom(op, t, ' and ' + SAFE))
    return None   # i16..isize complete safe-region contracts: no verdict within 300 s (i16: within ~1750 s) -> not registered


@rule('(?P<op>wrapped|wrapped_between|pingpong)_(?P<t>wu8|wi8)')
def _(m):
    t, op = m['t'], m['op']
    return E('quick', 120, wrap_clause(op) + ' (plain harness, full domain)', wrap_dom(op, t),
             known_failing=sint_fail(op, t) if t == 'wi8' else None)


@rule('(?P<op>wrapped|wrapped_between|pingpong)_(?P<t>wi8)_safe_region')
def _(m):
    return E('quick', 120, wrap_clause(m['op']) + ' (plain harness, region where Wrapping<i8> is correct)',
             wrap_dom(m['op'], 'wi8', ' and lo - v <= MAX (lo=0 for wrapped/pingpong), i.e. `lower-self` does not wrap'))


@rule('contract_(?P<op>wrapped|wrapped_between|pingpong)_' + T + '_small')
def _(m):
    t, op = m['t'], m['op']
    s = t in SIGNED
    return E('thorough', 900, wrap_clause(op) + ' (function contract, small magnitudes)',
             wrap_dom(op, t, ' and -256<=v<=255 and upper<=255' + (' and ' + SAFE if s else '')),
             bounded='|v| <= 256 and upper <= 255 only (the complete contract for %s does not finish)' % TYN[t])


@rule('(?P<op>wrapped|wrapped_between|pingpong)_' + T + '_const_period(_safe_region)?')
def _(m):
    t, op = m['t'], m['op']
    s = t in SIGNED
    bits = {'u16': 16, 'i16': 16, 'u32': 32, 'i32': 32}.get(t, 64)
    lists = {16: ('upper in {1,2,3,10,360,2^8,MAX/2+1,MAX}', '(lower,upper) in {(2,5),(0,1),(1,MAX),(MAX-3,MAX),(MAX/2,MAX/2+7),(100,2^8)}', 'upper in {1,3,180,2^8,MAX/2}'),
             32: ('upper in {1,2,3,10,360,2^16,MAX/2+1,MAX}', '(lower,upper) in {(2,5),(0,1),(1,MAX),(MAX-3,MAX),(MAX/2,MAX/2+7),(0,360)}', 'upper in {1,3,180,2^16,MAX/2}'),
             64: ('upper in {1,2,3,7,10,2^32,MAX/2+1,MAX}', '(lower,upper) in {(2,5),(0,1),(1,MAX),(MAX-3,MAX),(MAX/2,MAX/2+7),(0,3)}', 'upper in {1,3,5,2^32,MAX/2}')}[bits]
    l = lists[{'wrapped': 0, 'wrapped_between': 1, 'pingpong': 2}[op]]
    return E('thorough', 1800, wrap_clause(op) + ' (v fully symbolic, constant bounds incl. the range ends)',
             'all v in %s%s; %s' % (TYN[t], ' inside the exact no-overflow region (' + SAFE + ')' if s else '', l),
             bounded='bounds restricted to the listed constants (v unrestricted)')


@rule('(?P<op>wrapped|wrapped_between|pingpong)_' + T + '_panics_when_(upper_not_positive|bounds_bad)')
def _(m):
    t, op = m['t'], m['op']
    if t == 'f32':
        d = {'wrapped': 'all (v,upper) in f32^2 with not (upper>0) (upper<=0 or NaN)',
             'pingpong': 'all (v,upper) in f32^2 with not (upper>0) (upper<=0 or NaN)',
             'wrapped_between': 'all (v,lower,upper) in f32^3 with not (0<=lower<upper) (incl. NaN bounds)'}[op]
    else:
        d = {'wrapped': 'all (v,upper) in %s^2 with upper<=0' % TYN[t], 'pingpong': 'all (v,upper) in %s^2 with upper<=0' % TYN[t],
             'wrapped_between': 'all (v,lower,upper) in %s^3 with lower>=upper or lower<0' % TYN[t]}[op]
    return E('quick', 60, 'documented panic of %s on non-positive / inverted bounds: EVERY such input panics' % op, d)


@rule('(?P<op>wrapped_between|pingpong)_i8_outside_safe_region_always_overflows')
def _(m):
    return E('quick', 60, 'the stated safe region of signed %s is exact: outside of it every input panics (overflow)' % m['op'],
             'all i8 inputs with valid bounds%s outside the region %s' % (' (2*upper<=126)' if m['op'] == 'pingpong' else '', SAFE))


@rule('pingpong_(?P<t>u8|wu8)_unrepresentable_period')
def _(m):
    if m['t'] == 'u8':
        kf = '100u8.pingpong(200) panics "attempt to add with overflow" (src/ops.rs:623 `self % (upper+upper)`) although the triangle-wave value 100 is representable'
    else:
        kf = 'Wrapping(150u8).pingpong(Wrapping(200)) == 6 (150 expected): `upper+upper` wraps silently (src/ops.rs:623)'
    return E('quick', 60, 'pingpong is the triangle wave also when the period 2*upper is not representable (NOT required by the contracts; documents the limitation)',
             'all (v,upper) in %s^2 with upper>=128' % TYN[m['t']] + (' (upper>128 for Wrapping)' if m['t'] == 'wu8' else ''), known_failing=kf)


@rule('wrap_aliases_u8')
def _(m):
    return E('quick', 300, 'aliases: wrap == wrapped, wrap_between == wrapped_between, wrapped(u) == wrapped_between(0,u)', 'all (v,lower,upper) in u8^3 with lower<upper')


@rule('wrap_aliases_i8_safe_region')
def _(m):
    return E('thorough', 600, 'aliases: wrap == wrapped, wrap_between == wrapped_between, wrapped(u) == wrapped_between(0,u)',
             'all (v,lower,upper) in i8^3 with 0<=lower<upper inside the safe region for both (0,upper) and (lower,upper)')


@rule('contract_delta_angle_degrees_i32')
def _(m):
    return E('thorough', 600, 'delta_angle_degrees lies in (-180,180] and is congruent to target-self mod 360 (function contract)',
             'all (self,target) in i32^2 with target-self representable',
             known_failing='2147483600i32.delta_angle_degrees(0) panics "attempt to multiply with overflow" in ' + L645)


@rule('contract_delta_angle_degrees_i32_safe_region')
def _(m):
    return E('thorough', 600, 'delta_angle_degrees lies in (-180,180] and is congruent to target-self mod 360 (function contract)',
             'all (self,target) in i32^2 with d=target-self representable and d>=0 or ((-d)/360+1)*360<=i32::MAX')


# ---------------- floats, wrap family ----------------
FDOM = '|v|<=1e38, 0<upper<=1e38, v/upper finite'


@rule('contract_wrapped_2pi_f32_bounded1024')
def _(m):
    return E('quick', 120, 'wrapped_2pi lies in [0,2pi] up to 4 ulp of max(|v|,2pi) (function contract)', 'all f32 v with |v|<=1024', bounded='|v|<=1024')


@rule('contract_delta_angle_f32_bounded1024')
def _(m):
    return E('quick', 300, 'delta_angle lies in (-pi,pi] exactly (function contract)', 'all f32 (self,target) with |self|,|target|<=1024', bounded='|inputs|<=1024')


@rule('contract_delta_angle_degrees_f32_bounded1024')
def _(m):
    return E('quick', 120, 'delta_angle_degrees lies in (-180,180] exactly (function contract)', 'all f32 (self,target) with |self|,|target|<=1024', bounded='|inputs|<=1024')


@rule('wrapped_2pi_f32_range_bounded65536')
def _(m):
    return E('thorough', 1800, 'wrapped_2pi lies in [0,2pi] up to 4 ulp of max(|v|,2pi)', 'all f32 v with |v|<=65536', bounded='|v|<=65536')


@rule('delta_angle_f32_range_bounded65536')
def _(m):
    return E('thorough', 2700, 'delta_angle lies in (-pi,pi] exactly', 'all f32 (self,target) with |self|,|target|<=65536', bounded='|inputs|<=65536')


@rule('delta_angle_degrees_f32_range_bounded65536')
def _(m):
    return E('thorough', 900, 'delta_angle_degrees lies in (-180,180] exactly', 'all f32 (self,target) with |self|,|target|<=65536', bounded='|inputs|<=65536')


@rule('wrapped_2pi_f32_congruent_bounded1024')
def _(m):
    return E('thorough', 900, 'wrapped_2pi is congruent to v mod 2pi: |v - k*2pi - r| <= 4 ulp of max(|v|,2pi) for the integer k=floor(v/2pi), residual evaluated exactly in f64',
             'all f32 v with |v|<=1024', bounded='|v|<=1024')


@rule('delta_angle_degrees_f32_congruent_bounded65536')
def _(m):
    return E('thorough', 900, 'delta_angle_degrees is congruent to target-self mod 360 up to 4 ulp of max(|target-self|,360) (integer witness k or k+1, residual in f64)',
             'all f32 (self,target) with |self|,|target|<=65536', bounded='|inputs|<=65536')


@rule('wrapped_f32_range_upper_few_bits')
def _(m):
    return E('thorough', 1800, 'wrapped(v,upper) is not NaN and lies in [0,upper] up to 4 ulp of max(|v|,upper)', FDOM + ', upper has at most 4 significant bits',
             bounded='upper restricted to floats with <=4 significant bits (all exponents); v unrestricted within the domain')


@rule('pingpong_f32_range_upper_few_bits')
def _(m):
    return E('thorough', 1800, 'pingpong(v,upper) is not NaN and lies in [0,upper] (lower side up to 4 ulp of max(|v|,upper))',
             '|v|<=1e38, 0<upper<=5e37, v/(2 upper) finite, upper has at most 4 significant bits',
             bounded='upper restricted to floats with <=4 significant bits (all exponents)')


@rule('wrapped_f32_congruent_upper_few_bits_bounded1024')
def _(m):
    return E('thorough', 1800, 'wrapped(v,upper) is congruent to v mod upper: |v - k*upper - r| <= 4 ulp of max(|v|,upper), k=floor(v/upper), residual in f64',
             '|v|<=1024, 1/16<=upper<=1024, upper has at most 4 significant bits', bounded='|v|<=1024, 1/16<=upper<=1024, upper with <=4 significant bits')


@rule('wrapped_between_f32_range_bounds_few_bits_bounded1024')
def _(m):
    return E('thorough', 1800, 'wrapped_between(v,lower,upper) is not NaN and lies in [lower,upper] up to 4 ulp of max(|v|,upper)',
             '|v|<=1024, 0<=lower<upper<=1024, upper-lower>=1/16, both bounds with at most 4 significant bits',
             bounded='|v|<=1024, bounds <=1024 with <=4 significant bits')


@rule('wrapped_f32_identity_on_first_period')
def _(m):
    return E('thorough', 900, 'wrapped (and the alias wrap) is exactly the identity on [0,upper): pins the period; symbolic upper, every significand', 'all f32 (v,upper) with upper finite and 0<=v<upper')


@rule('pingpong_f32_triangle_on_first_period')
def _(m):
    return E('thorough', 1800, 'pingpong is the triangle wave on its first period: v on [0,upper], 2*upper-v on [upper,2*upper], up to 4 ulp of upper; pins the period; symbolic upper, every significand',
             'all f32 (v,upper) with upper>0, 2*upper finite, 0<=v<=2*upper')


@rule('wrapped_between_f32_identity_on_first_period')
def _(m):
    return E('quick', 300, 'wrapped_between is the identity on [lower,upper) up to the tolerance (modulo one period at the upper edge)',
             'all f32 v and bounds with <=4 significant bits, 0<=lower<=v<upper<=1024, upper-lower>=1/16', bounded='bounds <=1024 with <=4 significant bits')


@rule('wrapped_between_f32_const_bounds_bounded1024')
def _(m):
    return E('thorough', 900, 'wrapped_between lies in [lower,upper] and is congruent to v mod (upper-lower), both up to 4 ulp of max(|v|,upper) (integer witness, residual in f64)',
             'all f32 v with |v|<=1024; (lower,upper) in {(2,5),(0,1),(0.5,6.25),(3,3.5),(100,360)}', bounded='|v|<=1024, constant bounds')


@rule('wrapped_f32_finite_inputs_finite_result')
def _(m):
    return E('quick', 120, 'wrapped: finite inputs give a finite (non-NaN) result', 'all finite f32 v, finite upper>0',
             known_failing='(-0.5f32).wrapped(1e-45) == +inf and 1e30f32.wrapped(1e-30) == -inf: `self/upper` overflows in src/ops.rs:581 (`self - floor(self/upper) * upper`)')


@rule('wrapped_f32_range_quotient_finite_only')
def _(m):
    return E('thorough', 900, 'wrapped lies in [0,upper] up to tolerance whenever v/upper is finite', 'all finite f32 v, finite upper>0 with v/upper finite',
             known_failing='f32::MAX.wrapped(1.999969) == -inf: `floor(self/upper) * upper` overflows (src/ops.rs:581)')


@rule('pingpong_f32_range_quotient_finite_only')
def _(m):
    return E('quick', 300, 'pingpong lies in [0,upper] up to tolerance whenever 2*upper and v/(2 upper) are finite', 'all finite f32 v, upper>0 with 2*upper, v/(2 upper) finite',
             known_failing='(-3.190151e38f32).pingpong(2.658456e37) == -inf: `floor(self/upper) * upper` overflows inside wrapped (src/ops.rs:581 via :594)')


@rule('wrapped_f32_range_tolerance_in_ulps_of_value_only')
def _(m):
    return E('quick', 300, 'wrapped lies in [0,upper] up to 4 ulp OF THE VALUE v (literal reading of the property)', FDOM,
             known_failing='(-7.826018e-39f32).wrapped(4.467457e7) == -7.826018e-39 and (-1e-30f32).wrapped(1e20) == -1e-30 (negative; ~upper expected): `self/upper` underflows to -0 so floor gives -0 instead of -1 (src/ops.rs:581). The error is tiny relative to upper, so the registered range harnesses use 4 ulp of max(|v|,upper).')


# ---------------- vectors ----------------
VN = {'vec2': 'Vec2', 'vec3': 'Vec3', 'vec4': 'Vec4', 'vec8': 'Vec8 (tuple struct)', 'rgba': 'Rgba', 'extent2': 'Extent2'}


@rule(V + '_clamp_is_between_(?P<t>u8|i8)')
def _(m):
    return E('quick', 120, 'vector clamped / is_between (vector bounds and broadcast scalar bounds) apply the scalar law per lane; is_between returns a vector of bool',
             'all %s<%s> v, lo, hi with lo_i<=hi_i in every lane, all scalar bounds lo<=hi' % (VN[m['v']], m['t']))


@rule(V + '_wrap_u8')
def _(m):
    return E('quick' if m['v'] == 'vec2' else 'thorough', 900, 'vector wrapped / wrapped_between / pingpong (vector bounds) satisfy the scalar law (range+congruence / triangle wave) in every lane',
             'all %s<u8> v, lo, hi with lo_i<hi_i in every lane (pingpong: hi_i<=127)' % VN[m['v']])


@rule(V + '_wrap_i8_safe_region')
def _(m):
    return E('thorough', 900, 'vector wrapped / wrapped_between / pingpong (vector bounds) satisfy the scalar law in every lane, signed lanes',
             'all %s<i8> v, lo, hi with 0<=lo_i<hi_i<=63 and v_i>=-64 in every lane (pingpong: hi_i<=31)' % VN[m['v']],
             bounded='lanes restricted to v>=-64, upper<=63 (a subset of the scalar safe region)')


@rule(V + '_lane_routing_any_scalar')
def _(m):
    return E('thorough' if m['v'] == 'vec8' else 'quick', 600,
             'lane routing of the generic lifts for ANY lane type (recording lane type + parametricity): lane i of wrapped/wrapped_between/pingpong/clamped/is_between, with vector or broadcast scalar bounds, is op(self_i, bounds_i)',
             'all %s<Rec> with symbolic lane payloads' % VN[m['v']])


@rule(V + '_(?P<op>clamped|is_between)_panics_when_any_lane_inverted')
def _(m):
    return E('quick', 60, 'vector %s panics as soon as one lane has inverted bounds: EVERY such input panics' % m['op'],
             'all %s v, lo, hi with lo_i>hi_i in at least one lane' % VN[m['v']])


@rule(V + '_wrapped_panics_when_any_upper_zero')
def _(m):
    return E('quick', 60, 'vector wrapped panics as soon as one lane has upper == 0: EVERY such input panics', 'all %s<u8> v, upper with upper_i==0 in at least one lane' % VN[m['v']])


@rule(V + '_wrapped_between_panics_when_any_lane_bad')
def _(m):
    return E('quick', 60, 'vector wrapped_between panics as soon as one lane has lower>=upper: EVERY such input panics', 'all %s<u8> v, lo, hi with lo_i>=hi_i in at least one lane' % VN[m['v']])


@rule(V + '_pingpong_panics_when_any_upper_not_positive')
def _(m):
    return E('quick', 60, 'vector pingpong panics as soon as one lane has upper<=0: EVERY such input panics', 'all %s<i8> v, upper with upper_i<=0 in at least one lane' % VN[m['v']])


@rule('contract_clamped_vec3_f32')
def _(m):
    return E('quick', 120, 'vector clamp law per lane, f32 lanes incl. NaN values (function contract)', 'all Vec3<f32> v, lo, hi with lo_i<=hi_i in every lane')


# ---------------- vacuity ----------------
VAC = {'clamp_ordered_bounds': 'lo<=hi (i8 clamp)', 'clamp_f32_ordered_bounds': 'lo<=hi with NaN value (f32 clamp)',
       'wrap_unsigned_bounds': '0<=lower<upper and v<lower (u8 wrapped_between)', 'wrap_signed_safe_region': 'i8 exact safe region with v<lower',
       'pingpong_signed_safe_region': 'i8 pingpong safe region with v<0', 'wrapping_signed_safe_region': 'Wrapping<i8> correct region with v<lower',
       'const_period_safe_region_i32': 'i32 safe region for bounds (MAX-3,MAX) with v<0', 'vector_bounds': 'Vec4<u8> lanes lo_i<hi_i',
       'f32_wrap_domain': 'f32 wrap domain with few-bit upper and v<-upper'}


@rule('vacuity_(?P<k>\w+)')
def _(m):
    return E('quick', 60, 'vacuity guard: the precondition family is satisfiable and the call returns (asserts false after the call; must FAIL)',
             VAC[m['k']], should_fail=True)


def names():
    out = set()
    for f in glob.glob(os.path.join(HERE, 'src', '*.rs')):
        t = open(f).read()
        n = set(re.findall(r'\bc17_\w+', t))
        n -= set(re.findall(r'macro_rules!\s+(\w+)', t)) | set(re.findall(r'\b(c17_\w+)!', t))
        out |= {x for x in n if not x.endswith('_')}
    return sorted(out)


def main():
    jpath = os.path.join(HERE, 'harnesses.json')
    old = {}
    try:
        old = {s['harness']: s for s in json.load(open(jpath))}
    except Exception:
        pass
    specs, skipped = [], []
    for n in names():
        if n.startswith('c17_unregistered_'):
            skipped.append(n); continue
        hits = [(r, f) for r, f in RULES if r.match(n)]
        if len(hits) != 1:
            sys.exit('%s: %d rules match' % (n, len(hits)))
        e = hits[0][1](hits[0][0].match(n))
        if e is None:
            skipped.append(n); continue
        d = dict(harness=n, path='h::' + n)
        d.update(e)
        d['measured_s'] = old.get(n, {}).get('measured_s')
        specs.append(d)
    with open(jpath, 'w') as f:
        json.dump(specs, f, indent=1); f.write('\n')
    print('%d registered (%d quick, %d thorough), %d in the sources but not registered:' % (
        len(specs), sum(s['tier'] == 'quick' for s in specs), sum(s['tier'] == 'thorough' for s in specs), len(skipped)))
    for n in skipped:
        print('   ' + n)


main()
