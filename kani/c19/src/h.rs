// harnesses for c19
