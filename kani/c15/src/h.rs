//! C15 supplement: `binary_search_point_by_steps` hands `binary_search_point` exactly the coarse samples
//! (i/steps, curve(i/steps)) for i = 0 .. steps-1 and the half interval 1/(2 steps). The clause "no farther from the query than any
//! coarse sample" then follows from the contract of `binary_search_point`, which the Verus unit proves for every sample sequence.
//!
//! Kani 0.68 cannot stub a generic method of a generic impl (`binary_search_point<I>`), so the real `binary_search_point` runs and is
//! observed through the two non-generic methods it calls: `evaluate` (replaced by a recording, injective marker curve
//! t -> (t, t[, t])) and `distance_squared` (replaced by a recorder that makes the symbolic sample BEST the nearest one, so that the
//! parameter of *every* sample is observed through the first refinement step `evaluate(t - h)`).
use vek::bezier::repr_c::{QuadraticBezier2, QuadraticBezier3, CubicBezier2, CubicBezier3};
use vek::vec::repr_c::{Vec2, Vec3};
use num_traits::{real::Real, NumCast};

static mut STEPS: u16 = 0;
static mut BEST: u16 = 0;      // index of the sample the distance recorder makes nearest (== STEPS: none, the end point stays best)
static mut EV_CALLS: u16 = 0;
static mut DS_CALLS: u16 = 0;
static mut QUERY: f32 = 0.0;   // the query point is (QUERY, QUERY[, QUERY])

fn f<T: Real>(x: T) -> f32 { <f32 as NumCast>::from(x).unwrap() }
fn param(k: u16, steps: u16) -> f32 { k as f32 / steps as f32 }

macro_rules! ev_stub { ($ev:ident $Bez:ident $Pt:ident) => {
    fn $ev<T: Real>(c: $Bez<T>, t: T) -> $Pt<T> {
        let (n, steps, best) = unsafe { (EV_CALLS, STEPS, BEST) };
        unsafe { EV_CALLS = n + 1; }
        if n < steps {
            assert!(f(t) == param(n, steps));                        // the n-th sample is taken at parameter n/steps, starting at 0
        } else if n == steps {
            let tb = if best < steps { param(best, steps) } else { 1.0 };
            let h = (steps as f32 + steps as f32).recip();
            assert!(f(t) == tb - h);                                  // the tuple's parameter is the sample's own parameter; h = 1/(2 steps)
        }
        $Pt::broadcast(t)
    }
}}
ev_stub!(ev_q2 QuadraticBezier2 Vec2);
ev_stub!(ev_q3 QuadraticBezier3 Vec3);
ev_stub!(ev_c2 CubicBezier2 Vec2);
ev_stub!(ev_c3 CubicBezier3 Vec3);

macro_rules! ds_stub { ($ds:ident $Pt:ident) => {
    fn $ds<T: Real>(a: $Pt<T>, v: $Pt<T>) -> T {
        let (n, steps, best, q) = unsafe { (DS_CALLS, STEPS, BEST, QUERY) };
        unsafe { DS_CALLS = n + 1; }
        let half = T::one() / (T::one() + T::one());
        if n >= 1 && n <= steps {
            let k = n - 1;
            assert!(f(a.x) == param(k, steps) && f(a.y) == param(k, steps));   // the k-th sample point is the curve point at k/steps
            assert!(f(v.x) == q && f(v.y) == q);                               // measured against the query
            if k == best { return half; }
        }
        T::one()
    }
}}
ds_stub!(ds_v2 Vec2);
ds_stub!(ds_v3 Vec3);

fn fin() -> f32 { let v: f32 = kani::any(); kani::assume(v.is_finite()); v }
fn v2() -> Vec2<f32> { Vec2::new(fin(), fin()) }
fn v3() -> Vec3<f32> { Vec3::new(fin(), fin(), fin()) }
const MAX_STEPS: u16 = 6;

macro_rules! harness { ($name:ident $guard:ident $Bez:ident $Pt:ident $ev:ident $ds:ident $curve:expr) => {
    #[kani::proof]
    #[kani::unwind(9)]
    #[kani::stub(vek::bezier::repr_c::$Bez::evaluate, $ev)]
    #[kani::stub(vek::vec::repr_c::$Pt::distance_squared, $ds)]
    fn $name() {
        let steps: u16 = kani::any();
        let best: u16 = kani::any();
        kani::assume(steps >= 1 && steps <= MAX_STEPS && best <= steps);
        let q = fin();
        unsafe { STEPS = steps; BEST = best; QUERY = q; }
        let c: $Bez<f32> = $curve;
        let _ = c.binary_search_point_by_steps($Pt::broadcast(q), steps, 0.05);
        assert!(unsafe { EV_CALLS } >= steps + 2 && unsafe { DS_CALLS } >= steps + 3);
    }
    /// reachability guard: the recorders' assertions are reached for 3 samples with sample 2 nearest (this harness must FAIL)
    #[kani::proof]
    #[kani::unwind(9)]
    #[kani::stub(vek::bezier::repr_c::$Bez::evaluate, $ev)]
    #[kani::stub(vek::vec::repr_c::$Pt::distance_squared, $ds)]
    fn $guard() {
        let q = fin();
        unsafe { STEPS = 3; BEST = 2; QUERY = q; }
        let c: $Bez<f32> = $curve;
        let (t, _) = c.binary_search_point_by_steps($Pt::broadcast(q), 3, 0.05);
        assert!(unsafe { EV_CALLS } < 5);
    }
}}
harness!(c15_by_steps_samples_q2 c15_by_steps_guard_q2 QuadraticBezier2 Vec2 ev_q2 ds_v2 QuadraticBezier2 { start: v2(), ctrl: v2(), end: v2() });
harness!(c15_by_steps_samples_q3 c15_by_steps_guard_q3 QuadraticBezier3 Vec3 ev_q3 ds_v3 QuadraticBezier3 { start: v3(), ctrl: v3(), end: v3() });
harness!(c15_by_steps_samples_c2 c15_by_steps_guard_c2 CubicBezier2 Vec2 ev_c2 ds_v2 CubicBezier2 { start: v2(), ctrl0: v2(), ctrl1: v2(), end: v2() });
harness!(c15_by_steps_samples_c3 c15_by_steps_guard_c3 CubicBezier3 Vec3 ev_c3 ds_v3 CubicBezier3 { start: v3(), ctrl0: v3(), ctrl1: v3(), end: v3() });
