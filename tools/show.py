#!/usr/bin/env python3
"""show.py <module path> <impl header|-> <fn>  -- print a function from the expansion (docs stripped)"""
import sys, re
sys.path.insert(0, '/verif/lib')
import driver
exp, info = driver.load_expansion()
path, hdr, fns = sys.argv[1], sys.argv[2], sys.argv[3:]
for it in exp.by_path[path]:
    if it.kind == 'impl' and (hdr == '-' or it.nheader() == driver.extract.norm(hdr)):
        for ch in it.children:
            if ch.kind == 'fn' and (not fns or ch.name in fns):
                print('// [%s]' % it.nheader())
                print(' '.join(ch.header.split()))
                print(re.sub(r'\n\s*///.*', '', ch.body))
