#!/bin/bash
# usage: seedcheck.sh <PROP> <k> [<check ids...>]  -- confirm a seeded change and run the checks against it
set -u
P=$1; K=$2; shift 2
CHECKS=${@:-$P}
WT=/tmp/seedw/$P
OUT=$WT/${SEED_OUT:-out}
cd $WT || exit 3
git checkout -q -- . 
git apply $OUT/patch$K.diff || { echo "PATCH-DOES-NOT-APPLY"; exit 3; }
T=$(CARGO_TARGET_DIR=$WT/target cargo test --offline --lib 2>&1 | grep "^test result" | head -1)
echo "tests(with change): $T"
mkdir -p $OUT/demo_proj/src
printf '[package]\nname="demo"\nversion="0.0.0"\nedition="2021"\n[dependencies]\nvek = { path = "%s" }\n[workspace]\n' $WT > $OUT/demo_proj/Cargo.toml
cp $OUT/demo$K.rs $OUT/demo_proj/src/main.rs
(cd $OUT/demo_proj && CARGO_TARGET_DIR=$WT/target cargo run --offline -q >/dev/null 2>&1); echo "demo(with change) exit=$?"
git checkout -q -- .
(cd $OUT/demo_proj && CARGO_TARGET_DIR=$WT/target cargo run --offline -q >/dev/null 2>&1); echo "demo(unchanged) exit=$?"
# run the registered checks against the change applied to /repo, then undo
export VEKVERIF_EVIDENCE=/tmp/vekverif/ev_mut; mkdir -p $VEKVERIF_EVIDENCE
git -C /repo apply $OUT/patch$K.diff || { echo "patch does not apply to /repo"; exit 3; }
trap 'git -C /repo checkout -- .' EXIT
for c in $CHECKS; do
  o=$(/verif/check $c 2>&1 | grep -E "^(VIOLATION|OK|UNDECIDED|  failed)"); r=$( (echo "$o" | grep failed | head -3; echo "$o" | grep -v failed | tail -2) | cut -c1-220 | tr '\n' ';')
  echo "check $c: $r"
done
