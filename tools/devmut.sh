#!/bin/bash
# development aid: devmut.sh <patch.diff> <check ids...> -- run Verus-only checks against a pristine COPY of /repo (/tmp/devrepo) with a patch applied.
# (Registered checks and committed evidence always come from /repo itself; this is only for working while /repo is busy.)
P=$1; shift
[ -d /tmp/devrepo ] || { mkdir -p /tmp/devrepo && git -C /repo archive HEAD | tar -x -C /tmp/devrepo && cp /repo/Cargo.lock /tmp/devrepo/; }
cd /tmp/devrepo && patch -p1 -s < $P || exit 3
trap "cd /tmp/devrepo && patch -R -p1 -s < $P" EXIT
export VEKVERIF_REPO=/tmp/devrepo VEKVERIF_EVIDENCE=/tmp/vekverif/ev_dev VEKVERIF_DEV_SKIP_KANI=1
for c in "$@"; do /verif/check $c 2>&1 | grep -E "^(VIOLATION|OK|UNDECIDED|  failed)" | head -5 | cut -c1-220; done
