#!/usr/bin/env python3
"""seedsave.py <PROP> <k> <caught|missed> <checks that caught / note>  -- copy a confirmed seeded change into /verif/seeded/"""
import json, os, shutil, sys
P, k, status = sys.argv[1], sys.argv[2], sys.argv[3]
note = ' '.join(sys.argv[4:])
src = '/tmp/seed/%s/out' % P
dst = '/verif/seeded/%s_%s' % (P, k)
os.makedirs(dst, exist_ok=True)
shutil.copy('%s/patch%s.diff' % (src, k), dst + '/patch.diff')
shutil.copy('%s/demo%s.rs' % (src, k), dst + '/demo.rs')
m = json.load(open('%s/meta%s.json' % (src, k)))
meta = dict(property=P, summary=m.get('summary'), needs=m.get('needs'), functions=m.get('functions'),
            produced_by='independent sub-agent given only the property text and a scratch worktree',
            confirmed=['git apply patch.diff in a scratch worktree; cargo test --offline --lib -> 674 passed; demo exits 101 with the change, 0 without',
                       '/verif/tools/seedcheck.sh %s %s (patch applied to /repo, quick check run, patch reverted)' % (P, k)],
            detection=dict(status=status, note=note))
json.dump(meta, open(dst + '/meta.json', 'w'), indent=1)
print(dst)
