#!/bin/bash
# run every registered quick check on the current tree; prints one line per property
cd "$(dirname "$0")/.."
tier=${1:-quick}
for p in $(python3 -c "import json;print(' '.join(c['property_id'] for c in json.load(open('MANIFEST.json'))['checks']))"); do
  s=$(date +%s)
  out=$(./check $p --tier $tier 2>/dev/null | grep -E "^(OK|VIOLATION|UNDECIDED|KNOWN-FINDING)" | cut -c1-160 | tr '\n' ' ')
  echo "$p rc=$? $(( $(date +%s) - s ))s $out"
done
