#!/bin/bash
# usage: trymut.sh <patch.diff> <prop> [<prop>...]   -- applies the patch to /repo, runs the quick checks, reverts
set -u
export VEKVERIF_EVIDENCE=/tmp/vekverif/ev_mut
mkdir -p $VEKVERIF_EVIDENCE
patch=$1; shift
git -C /repo apply "$patch" || { echo "patch does not apply"; exit 3; }
trap 'git -C /repo checkout -- . ' EXIT
for p in "$@"; do
  echo "== $p"; /verif/check "$p" 2>&1 | grep -E "^(VIOLATION|OK|UNDECIDED|KNOWN-FINDING|  failed)" ; echo "rc=${PIPESTATUS[0]}"
done
