#!/usr/bin/env python3
import json,glob,sys
f=sorted(glob.glob('/verif/work/replays/%s_*.json' % sys.argv[1]))[-1]
d=json.load(open(f))
n=int(sys.argv[2]) if len(sys.argv)>2 else 400
for v in d['violations'][:40]:
    print(v['tag'], '|', v['backend'], v['kind'], '|', v.get('fn'))
    if n: print('   ', v['verifier_output'][:n].replace('\n','\n    '))
