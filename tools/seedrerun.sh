#!/bin/bash
# usage: seedrerun.sh <PROP>_<k> [<check ids...>]  -- re-run the registered checks against a saved seeded change
# (/verif/seeded/<PROP>_<k>/patch.diff applied to /repo, undone afterwards; evidence redirected away from /verif/evidence)
set -u
S=$1; shift
P=${S%%_*}
CHECKS=${@:-$P}
export VEKVERIF_EVIDENCE=/tmp/vekverif/ev_mut; mkdir -p $VEKVERIF_EVIDENCE
git -C /repo apply /verif/seeded/$S/patch.diff || { echo "patch does not apply to /repo"; exit 3; }
trap 'git -C /repo checkout -- .' EXIT
for c in $CHECKS; do
  r=$(/verif/check $c 2>&1 | grep -E "^(VIOLATION|OK|UNDECIDED|  failed)" | head -6 | cut -c1-200 | tr '\n' ';')
  echo "$S check $c: $r"
done
