#!/usr/bin/env python3
"""Writes /verif/MANIFEST.json from the table below (kept next to the checks so they cannot drift)."""
import json, os
HERE = os.path.dirname(os.path.dirname(os.path.abspath(__file__)))

TB = ("Trusted: rustc macro expansion/pretty printer; the extractor's listed transformations (D1-D3,N1-N3,T1); Verus+z3; "
      "z3-nlsat/cvc5 for @arith lemmas; Kani/CBMC; the prelude (ghost-real scalar R replaces T: exact arithmetic, no rounding/overflow/NaN; "
      "axioms for sqrt/sin/cos/acos/floor; reflexive-Into axiom; oracle comparisons). ")

CHECKS = {
 'C01': dict(tech='Verus contracts (textbook sum-of-products postconditions, loop invariants) on the mechanically extracted Mul/operator impls of all 6 matrix expansions',
             text='Deductive proof (Verus, nonlinear arithmetic on) that each real Mul impl (v*M, M*v, M*M same and mixed layout, the two fold loops with invariants), scalar and element-wise operators, identity/zero/new/transposed for Mat2/3/4 in both layouts returns exactly the textbook sums of products over the layout-aware element view, for all real element values.',
             note=TB + 'Unsafe as_slice (index through Deref) is assumed here and proved by Kani under C18.', ref='5 C01'),
 'C03': dict(tech='Verus contracts over the layout-aware element view at(m,i,j) on the extracted constructor/index/transpose/diagonal/map/size- and layout-conversion functions of all 6 matrix expansions (generic T)',
             text='Deductive proof (Verus) that new, (row,col) Index, transposed/transpose (mem::swap, old/final frames), diagonal, with_diagonal, broadcast_diagonal, trace, map, map2, Default, gl_should_transpose, From<other layout> and From<other size> state the same element (i,j) in the row-major and the column-major expansion; any sequence of these calls then agrees by induction over the sequence (one contract per step, identical for both layouts).',
             note=TB + 'IndexMut<(usize,usize)> (DerefMut through unsafe as_mut_slice) and the array/slice conversions are assumed in Verus and proved by Kani on the real bodies (C18). Display is not covered (core::fmt).', ref='5 C03'),
 'C04': dict(tech='Verus contracts (textbook axis-rotation / Rodrigues / quaternion matrices) on the extracted rotation builders of Mat2/3/4 (both layouts), Quaternion and Vec2 + z3 (QF_NRA) lemmas in Q[x,y,z,r,c,s] for orthogonality, det=1, axis fixed, additivity, quaternion-matrix agreement, glued by Verus-checked theorem functions over the real API',
             text='Deductive proof: every rotation_x/y/z/3d constructor (and rotated_*/rotate_* = pre-multiplication) of Mat2/Mat3/Mat4 in both layouts, Quaternion::rotation_3d/x/y/z and Vec2::rotated_z equals its textbook definition in cos/sin of the angle and the normalised axis; theorem functions prove R^T R = I, det R = 1, R fixes its axis, counter-clockwise handedness, R(a)R(b)=R(a+b), Mat3 = block of Mat4, rotation_3d(e_z)=rotation_z and Mat::from(Quaternion::rotation_3d(a,n)) = Mat::rotation_3d(a,n), for all angles and all non-zero axes.',
             note=TB + 'sin/cos are uninterpreted with sin^2+cos^2=1 and the angle-addition formulas as axioms; sqrt_r with its defining axiom.', ref='5 C04'),
 'C07': dict(tech='Verus contracts (definition matrices; X_ed(self,p) == X_ion(p)*self; in-place == returning) on the extracted translation/scaling/shear builders, mul_point/mul_direction, From<Transform> of Mat2/3/4 in both layouts + z3 lemma for product associativity, glued by theorem functions',
             text='Deductive proof: translation_2d/3d, scaling_2d/3d, shearing_x/y constructors equal their definition matrices, each *_ed builder equals pre-multiplication by the constructor and each in-place form equals the returning form (Mat2/3/4, both layouts); mul_point/mul_direction use w=1/w=0; theorem functions prove the point/direction action, a 3-step chain applied in call order for every start matrix, Transform::default = identity map and the Transform -> matrix map p -> position + orientation*(scale.p).',
             note=TB + 'Mat4::from(Transform) was T*S*R (genuine defect, repaired by a fix: commit in /repo, see known_findings.json).', ref='5 C07'),
 'C08': dict(tech='Verus contracts (spec matrices derived from the clip-volume requirement, per handedness and depth convention) on the 21 extracted projection constructors x 2 layouts + z3 (QF_NRA) lemmas: 8 view-volume corners -> clip-volume corners; theorem functions for perspective == frustum(symmetric planes), perspective_fov == perspective(w/h), lh == rh * z-mirror, infinite perspective',
             text='Deductive proof: every orthographic/frustum/perspective/perspective_fov/(tweaked_)infinite_perspective constructor (lh/rh, zo/no; row- and column-major) equals the matrix that the clip-volume requirement determines; the eight corners of the (off-centre) view volume reach x,y = -1/+1 and depth 0|-1 / 1 after the homogeneous divide (stated division-free as x'' = +-w'' ...), w'' = +-z is positive in front, for all planes with left!=right, bottom!=top, near!=far.',
             note=TB + 'Genuine defect found and repaired (fix: commit): left-handed off-centre frusta. tan_r*cos_r == sin_r axiom. IndexMut assumed (Kani, C18).', ref='5 C08'),
 'C09': dict(tech='Verus contracts (textbook camera frame f,s,u with sqrt radicals; change-of-basis matrices) on the extracted look_at/model_look_at/basis_to_local/local_to_basis (+ normalized, cross, dot, Sub) + z3 (QF_NRA) lemmas in Q[9 coords, 2 radicals], glued by theorem functions',
             text='Deductive proof: look_at_lh/rh, look_at, model_look_at_lh/rh, model_look_at, basis_to_local, local_to_basis (both layouts) equal their textbook matrices; theorem functions prove for all eye != target and up not parallel to the view direction: rotation block orthogonal with determinant +1, last row (0,0,0,1), eye -> origin, target -> (0,0,+-|t-e|), up.x'' = 0 and up.y'' > 0, model_look_at is the two-sided inverse and sends the origin to the eye; local_to_basis maps origin and unit axes to o, o+i, o+j, o+k and basis_to_local undoes it for every orthonormal basis.',
             note=TB + 'sqrt_r axiom; degenerate inputs excluded as in the property.', ref='5 C09'),
 'C10': dict(tech='Verus contracts (projection = viewport o perspective divide o proj*mv; unprojection = perspective divide o adj/det inverse of proj*mv o un-viewport; picking matrix from its clip-square requirement) on the extracted world_to_viewport_*/viewport_to_world_*/picking_region (through the real Mul, inverted, shuffle code) + z3 lemma for the picking corners',
             text='Deductive proof: world_to_viewport_no/zo equal the perspective-divided clip position mapped onto the viewport rectangle (depth to [0,1] in the no flavour, unchanged in zo) whenever clip w != 0; viewport_to_world_no/zo equal the perspective divide of (proj*mv)^-1 applied to the un-viewported point whenever det(proj*mv) != 0 (the inverse being adj/det, proved two-sided under C06); picking_region equals the matrix that maps the window rectangle centre +- delta/2, expressed in clip coordinates, onto [-1,1]^2 (theorem function + lemma), both layouts.',
             note=TB + 'Genuine defect found and repaired (fix: commit): picking_region operand order. The project/unproject round trip is not discharged as a single composed obligation (see evidence not_decided).', ref='5 C10'),
 'C05': dict(tech='Verus contracts (Hamilton product from its definition, conjugate, inverse, norm, q v q*, rotation_from_to_3d by cases, into_angle_axis) on the extracted quaternion code + z3 (QF_NRA) lemmas for associativity, norm multiplicativity, conjugate anti-homomorphism, two-sided inverse, action == matrix, composition, from-to (generic and exactly-opposite), angle-axis round trip, glued by theorem functions',
             text='Deductive proof over all real quaternion components: Mul is the Hamilton product; associativity, identity neutral, |pq|^2=|p|^2|q|^2, conj(pq)=conj(q)conj(p), q q^-1 = q^-1 q = 1 for non-zero q; for unit q, q*v (Vec3, and Vec4 leaving w) equals Mat3/Mat4::from(q)*v in both layouts and (pq)*v = p*(q*v); rotation_from_to_3d returns a unit quaternion mapping u onto (|u|/|v|)v in the generic branch and onto -u for exactly opposite directions (both antiparallel sub-branches); into_angle_axis followed by rotation_3d reproduces a unit quaternion (unit axis, angle in [0,2pi]).',
             note=TB + 'acos_r axiom (cos(acos x)=x, sin(acos x)=sqrt(1-x^2), range) and eps_r in (0,1). The epsilon sliver of rotation_from_to_3d and the s < eps branch of into_angle_axis are only contracted, not given a property theorem.', ref='5 C05'),
 'C18': dict(tech='Kani (CBMC) harnesses on the real unsafe code of /repo with an ownership-tracking element type: IntoIter as a data structure (all histories of front/back pulls, then drop), conversions, slice views; unwinding assertions on',
             text='Kani proofs on the real code, per vector type / matrix size and layout: for every history of next/next_back calls (symbolic choice per step, 0..N+2 steps) followed by dropping the iterator, each element is yielded once or dropped once, len/size_hint match, None iff exhausted; Debug/Hash/PartialEq on a partially consumed iterator touch live elements only; From<[T;N]>, into_array, into_tuple, from_iter/from_slice/collect and the matrix row/column (nested) array conversions move each element exactly once in the documented order; as_slice/as_mut_slice/Deref/AsRef/Borrow and as_row_slice/as_col_slice alias the value storage, one entry per element in declaration order (this discharges the as_slice/IndexMut contracts that the Verus units assume). Quick tier: dimensions <= 4 (+ Vec8 views); thorough: 8, 16, 32, 64.',
             note='Trusted: Kani 0.68 / CBMC memory model and unwinding assertions; element types Tok (non-Copy), u8/u16/u64; generic T only through these instantiations; termination not proved. Genuine defect found and repaired (fix: commit): derived Debug/Hash/PartialEq on IntoIter.', ref='5 C18'),
 'C19': dict(tech='Verus contracts per element (generic T for pure element movement; exact scalar for colour arithmetic) on the extracted From conversions between the 13 vector types, swizzles, with_*, unit/direction constructors, ShuffleMask4 (bit-vector proofs) and lane shuffles, colour helpers; theorem functions for embedding/multiplication commutation, inverted_rgb involution, all shuffle index tuples',
             text='Deductive proof: every From between vector kinds/sizes keeps order, drops trailing elements or appends zeros (or the supplied scalar; w=1 points, w=0 directions); named swizzles and with_* permute/replace exactly the named elements; ShuffleMask4::new/to_indices pack and unpack indices modulo 4 for all usize tuples (by bit_vector) and shuffle_lo_hi/shuffled pick (lo[a%4], lo[b%4], hi[c%4], hi[d%4]); interleave/move helpers match their lane diagrams; unit vectors and the named directions; colour constructors, named colours, inverted_rgb (involution keeping alpha), average_rgb, ARGB/BGRA/BGR reorderings; Mat4::from(m3)*from_direction/from_point(v) == from_direction/from_point(m3*v).',
             note=TB + 'ColorComponent is a prelude stand-in (full = opaque constant); From<[T;N]> is unsafe code proved by Kani (C18).', ref='5 C19'),
 'C11': dict(tech='Verus contracts (definitions of dot, magnitude, distance, normalisation family, approx-zero tests, reflection, refraction by cases, face_forward, angle_between, 2-D side/area, homogenisation, cross) on the extracted vec_impl_spatial! expansions of all 9 spatial vector types + z3 (QF_NRA) lemmas for the cross-product laws, unit length/parallelism of normalized, mirror law, Snell (staged), glued by theorem functions',
             text='Deductive proof for Vec2/3/4/8/16/32/64 and Extent2/3: every spatial function equals its definition; theorem functions (Vec2/3/4) prove: cross product bilinear, anticommutative, orthogonal to both operands, |a x b|^2 = |a|^2|b|^2-(a.b)^2; magnitude >= 0 with magnitude^2 = magnitude_squared, distance likewise; normalized has unit length, is parallel to and points along v (all four normalisation forms agree); try_normalized is None exactly when is_approx_zero; reflected flips the normal component and keeps the length; refracted is the zero vector on total internal reflection and otherwise a unit vector with normal component -sqrt(k) (Snell); angle_between lies in [0,pi]; homogenized has w = 1.',
             note=TB + 'approx::RelativeEq is modelled by pre::rel_eq_r; acos_r/sqrt_r axioms; vek::ops::Clamp is extracted (real trait and f32 impl with f32 := R). Vec3 slerp is not yet under contract.', ref='5 C11'),
 'C12': dict(tech='Verus contracts on the extracted Lerp/Slerp traits (default methods), the f32 impls (f32 := exact scalar), the inherent and trait lerp family of all 13 vector types (by value and by reference, generic element Lerp), quaternion (n)lerp and slerp by cases, the Transition accessors; z3 (QF_NRA) lemmas (precise == fast formula, affinity, nlerp unit, staged slerp trigonometry); theorem functions; Kani for the integer impls when /verif/kani/c12 has harnesses',
             text='Deductive proof: lerp_unclamped = from + f*(to-from) per element for every vector type (scalar or per-element factor), the precise formula equals the fast one, value at 0/1 is from/to, affine in the factor, clamped forms = unclamped at the factor clamped to [0,1] (trait default methods of the real Lerp trait), by-value and by-reference trait impls agree element-wise with the element type Lerp; quaternion Lerp returns the normalised (unit) interpolant, the unnormalised forms hit their end points; Quaternion::slerp_unclamped equals its definition along the shorter arc by cases and, for unit inputs in the trigonometric branch, is unit, makes the angle t*theta with the start and reaches both ends; each Transition accessor is the (clamped) interpolation at the mapped progress.',
             note=TB + 'sin/cos/acos axioms; ProgressMapperFn (fn pointer) and Transform Lerp are not under contract; integer Lerp is Kani territory.', ref='5 C12'),
 'C06': dict(tech='Verus contracts (cofactor/Leibniz determinant, adjugate/determinant inverse) on the extracted determinant/inverted/Mul functions + z3 (QF_NRA) lemmas for det multiplicativity, transpose invariance and M*adj/det = I, glued by Verus-checked theorem functions over the real API',
             text='Deductive proof: determinant (2,3,4; both layouts) equals the cofactor expansion; Mat4::inverted (2x2-block algorithm through the real shuffle/mat2 helper code incl. the bit-packed ShuffleMask4) returns adj(M)/det(M) whenever det != 0; theorem functions calling the real API prove det(M^T)=det(M), layout invariance, det(AB)=det(A)det(B) and M*M^-1 = M^-1*M = I for every real matrix with non-zero determinant, with the polynomial/rational identities discharged by z3 (nlsat / solve-eqs+smt portfolio).',
             note=TB + 'The rigid and affine fast inverses are not yet under contract (listed under not_decided).', ref='5 C06'),
 'C02': dict(tech='Verus contracts per element on the extracted operator impls / reductions / constructors of all 13 vector expansions',
             text='Deductive proof (Verus) on the real macro expansions of all 13 vector types that operators, fused multiply-add, reductions and constructors equal their per-element definitions for all element values (T := exact real scalar).',
             note=TB, ref='5 C02'),
}

NOT_YET = {('C%02d' % i): 'check not built yet (work in progress; see DESIGN.md 5 for the planned contracts)' for i in range(1, 21)}

def main():
    checks = []
    for pid, c in sorted(CHECKS.items()):
        checks.append(dict(
            property_id=pid,
            quick_cmd='./check %s --tier quick' % pid,
            thorough_cmd='./check %s --tier thorough' % pid,
            evidence_file='/verif/evidence/%s.json' % pid,
            replay_cmd_template='./check %s --replay {path}' % pid,
            engine='contracts',
            level_claimed=dict(category='proof', text=c['text'], design_ref='DESIGN.md ' + c['ref']),
            level_note=c['note'],
            technique=c['tech'],
        ))
    na = [dict(property_id=k, reason=v) for k, v in sorted(NOT_YET.items()) if k not in CHECKS]
    m = dict(
        version=1,
        setup_cmd='./tools/setup.sh',
        hooks=dict(guard='kani', enable='cargo kani sets cfg(kani); no other hook is used', add_only=True,
                   baseline_off_cmd='cd /repo && cargo test --workspace --no-fail-fast --offline',
                   source_commits=[]),
        engines=[dict(name='contracts', path='/verif/check', serves_properties=sorted(CHECKS),
                      kind_free_text='contract-based deductive verification: Verus on mechanically extracted real functions, '
                                     'z3-nlsat/cvc5 for arithmetic lemmas, Kani function contracts on /repo itself')],
        checks=checks,
        notes='See DESIGN.md. Exit codes: 0 held, 1 VIOLATION, 2 UNDECIDED (never an alarm).',
        not_applicable=na,
    )
    json.dump(m, open(os.path.join(HERE, 'MANIFEST.json'), 'w'), indent=1)

if __name__ == '__main__':
    main()
