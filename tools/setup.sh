#!/bin/bash
# offline setup: warm the expansion cache and Verus (nothing is fetched)
cd "$(dirname "$0")/.."
export CARGO_NET_OFFLINE=true
python3 - <<'PY'
import sys
sys.path.insert(0, 'lib')
import driver
exp, info = driver.load_expansion()
print('expansion ready:', info)
PY
exit 0
