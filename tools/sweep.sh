#!/bin/bash
# stability sweep: run the Verus part of the given checks with several z3 random seeds against a pristine copy of /repo;
# any obligation that fails under some seed is a flaky proof to be hardened (never a finding).
# usage: sweep.sh "<seeds>" <check ids...>
SEEDS=$1; shift
[ -d /tmp/devrepo_sweep ] || { mkdir -p /tmp/devrepo_sweep && git -C /repo archive HEAD | tar -x -C /tmp/devrepo_sweep && cp /repo/Cargo.lock /tmp/devrepo_sweep/; }
export VEKVERIF_REPO=/tmp/devrepo_sweep VEKVERIF_EVIDENCE=/tmp/vekverif_sweep/ev VEKVERIF_WORK=/tmp/vekverif_sweep VEKVERIF_DEV_SKIP_KANI=1
for s in $SEEDS; do for c in "$@"; do
  r=$(VEKVERIF_Z3_SEED=$s /verif/check $c 2>&1 | grep -E "^(VIOLATION|OK|UNDECIDED|  failed)" | head -4 | cut -c1-160 | tr '\n' ';')
  echo "seed=$s $c: $r"
done; done
