#!/usr/bin/env python3
"""seedsave3.py <batch log>...  -- round 3: copy every confirmed seeded change of /tmp/seed/<P>/out (k = 1..3) to /verif/seeded/<P>_<k+3>/
with the outcome recorded in the batch log(s) (tools/seedcheck.sh output)."""
import json, os, re, shutil, sys
res = {}
for lg in sys.argv[1:]:
    cur = None
    for line in open(lg):
        m = re.match(r'=== (C\d\d) ?(\d?)', line)
        if m:
            cur = (m.group(1), int(m.group(2) or 1))
            res[cur] = dict(tests=None, demo_with=None, demo_without=None, check='')
            continue
        if cur is None:
            continue
        r = res[cur]
        if line.startswith('tests(with change):'):
            r['tests'] = line.split(':', 1)[1].strip()
        elif line.startswith('demo(with change)'):
            r['demo_with'] = line.strip().split('=')[-1]
        elif line.startswith('demo(unchanged)'):
            r['demo_without'] = line.strip().split('=')[-1]
        elif line.startswith('check '):
            r['check'] += line.strip()
for (P, k), r in sorted(res.items()):
    src = '/tmp/seedw/%s/out' % P
    ok = r['tests'] and '674 passed; 0 failed' in r['tests'] and r['demo_with'] == '101' and r['demo_without'] == '0'
    if not ok:
        print('NOT CONFIRMED', P, k, r)
        continue
    dst = '/verif/seeded/%s_%d' % (P, k + 9)
    os.makedirs(dst, exist_ok=True)
    shutil.copy('%s/patch%d.diff' % (src, k), dst + '/patch.diff')
    shutil.copy('%s/demo%d.rs' % (src, k), dst + '/demo.rs')
    m = json.load(open('%s/meta%d.json' % (src, k)))
    c = r['check']
    status = 'caught' if ('VIOLATION' in c or 'failed obligation:' in c) else ('undecided' if 'UNDECIDED' in c else ('missed' if ' OK ' in c or ': OK' in c else 'unknown'))
    tags = re.findall(r'failed obligation: (\S+)', c)[:4]
    meta = dict(property=P, round=6, summary=m.get('summary'), needs=m.get('needs'), functions=m.get('functions'),
                produced_by='independent sub-agent given only the property text and a scratch worktree',
                confirmed=['git apply patch.diff in a scratch worktree; cargo test --offline --lib -> 674 passed; demo exits 101 with the change, 0 without',
                           '/verif/tools/seedcheck.sh %s %d (patch applied to /repo, quick check run, patch reverted)' % (P, k)],
                detection=dict(status=status, first_run=status, failed_obligations=tags, note=''))
    old = dst + '/meta.json'
    if os.path.exists(old):
        try:
            o = json.load(open(old))
            meta['detection']['note'] = o.get('detection', {}).get('note', '')
            if o.get('detection', {}).get('first_run'):
                meta['detection']['first_run'] = o['detection']['first_run']
        except Exception:
            pass
    json.dump(meta, open(old, 'w'), indent=1)
    print(P, k + 9, status, tags[:2])
